module mutsweep

go 1.22
