// mutgen enumerates small syntactic mutations of the non-test, non-generated Go files of a
// repository and prints them as JSON lines {id,file,start,end,repl,desc,fn,line}.
// Used by sweep.py to measure which behaviour changes the checks notice (DESIGN section 9).
package main

import (
	"encoding/json"
	"fmt"
	"go/ast"
	"go/parser"
	"go/token"
	"os"
	"path/filepath"
	"strconv"
	"strings"
)

type Mut struct {
	ID    string `json:"id"`
	File  string `json:"file"`
	Start int    `json:"start"`
	End   int    `json:"end"`
	Repl  string `json:"repl"`
	Desc  string `json:"desc"`
	Fn    string `json:"fn"`
	Line  int    `json:"line"`
}

var swaps = map[token.Token][]token.Token{
	token.LSS: {token.LEQ}, token.LEQ: {token.LSS}, token.GTR: {token.GEQ}, token.GEQ: {token.GTR},
	token.EQL: {token.NEQ}, token.NEQ: {token.EQL},
	token.ADD: {token.SUB}, token.SUB: {token.ADD},
	token.LAND: {token.LOR}, token.LOR: {token.LAND},
	token.SHL: {token.SHR}, token.SHR: {token.SHL},
	token.AND: {token.OR}, token.OR: {token.AND},
	token.MUL: {token.QUO}, token.QUO: {token.MUL},
	token.REM: {token.QUO},
}

func main() {
	root := os.Args[1]
	var out []Mut
	fset := token.NewFileSet()
	filepath.Walk(root, func(p string, info os.FileInfo, err error) error {
		if err != nil {
			return nil
		}
		rel, _ := filepath.Rel(root, p)
		if info.IsDir() {
			if rel == ".git" || strings.HasPrefix(rel, "testutil") || rel == "test" || rel == "data/gen" {
				return filepath.SkipDir
			}
			return nil
		}
		if !strings.HasSuffix(p, ".go") || strings.HasSuffix(p, "_test.go") || strings.Contains(p, "contracts_verif") || strings.Contains(p, "ipldsch_") || strings.HasSuffix(p, "doc.go") {
			return nil
		}
		src, _ := os.ReadFile(p)
		f, err := parser.ParseFile(fset, p, src, 0)
		if err != nil {
			return nil
		}
		off := func(pos token.Pos) int { return fset.Position(pos).Offset }
		n := 0
		add := func(fn string, s, e token.Pos, repl, desc string) {
			n++
			out = append(out, Mut{ID: fmt.Sprintf("%s#%d", rel, n), File: rel, Start: off(s), End: off(e), Repl: repl, Desc: desc, Fn: fn, Line: fset.Position(s).Line})
		}
		for _, d := range f.Decls {
			fd, ok := d.(*ast.FuncDecl)
			if !ok || fd.Body == nil {
				continue
			}
			fn := fd.Name.Name
			ast.Inspect(fd.Body, func(nd ast.Node) bool {
				switch x := nd.(type) {
				case *ast.BinaryExpr:
					for _, t := range swaps[x.Op] {
						// skip string concatenation a + b -> a - b (does not compile, harmless but wasteful)
						add(fn, x.OpPos, x.OpPos+token.Pos(len(x.Op.String())), t.String(), fmt.Sprintf("%s -> %s", x.Op, t))
					}
				case *ast.BasicLit:
					if x.Kind == token.INT {
						v, err := strconv.ParseInt(x.Value, 0, 64)
						if err == nil {
							add(fn, x.Pos(), x.End(), strconv.FormatInt(v+1, 10), fmt.Sprintf("%s -> %d", x.Value, v+1))
							if v != 0 {
								add(fn, x.Pos(), x.End(), strconv.FormatInt(v-1, 10), fmt.Sprintf("%s -> %d", x.Value, v-1))
							}
						}
					}
				case *ast.IfStmt:
					// negate the condition
					add(fn, x.Cond.Pos(), x.Cond.End(), "!("+string(src[off(x.Cond.Pos()):off(x.Cond.End())])+")", "negate if condition")
					if x.Else == nil && x.Init == nil {
						// drop the whole if statement when its body only returns/assigns (guard removal)
						add(fn, x.Pos(), x.End(), "", "remove if statement")
					}
				case *ast.ExprStmt:
					if _, ok := x.X.(*ast.CallExpr); ok {
						add(fn, x.Pos(), x.End(), "", "remove call statement")
					}
				case *ast.IncDecStmt:
					add(fn, x.Pos(), x.End(), "", "remove inc/dec")
				case *ast.AssignStmt:
					if x.Tok == token.ADD_ASSIGN || x.Tok == token.SUB_ASSIGN || x.Tok == token.OR_ASSIGN {
						add(fn, x.Pos(), x.End(), "", "remove compound assignment")
					} else if x.Tok == token.ASSIGN && len(x.Lhs) == 1 {
						add(fn, x.Pos(), x.End(), "", "remove assignment")
					}
				case *ast.ReturnStmt:
					// return ..., err  ->  return ..., nil
					if k := len(x.Results); k >= 1 {
						if id, ok := x.Results[k-1].(*ast.Ident); ok && (id.Name == "err") {
							add(fn, id.Pos(), id.End(), "nil", "swallow returned error")
						}
					}
				case *ast.BranchStmt:
					if x.Tok == token.BREAK {
						add(fn, x.Pos(), x.End(), "continue", "break -> continue")
					} else if x.Tok == token.CONTINUE {
						add(fn, x.Pos(), x.End(), "break", "continue -> break")
					}
				case *ast.UnaryExpr:
					if x.Op == token.NOT {
						add(fn, x.OpPos, x.OpPos+1, "", "drop negation")
					}
				case *ast.DeferStmt:
					add(fn, x.Pos(), x.End(), "", "remove defer")
				}
				return true
			})
		}
		return nil
	})
	enc := json.NewEncoder(os.Stdout)
	for _, m := range out {
		enc.Encode(m)
	}
}
