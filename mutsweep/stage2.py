#!/usr/bin/env python3
"""Stage 2 of the mutation sweep: mutants that survive the suite and make no obligation fail are run
through all bounded stand-ins (/verif/replay, TestBounded*, quick tier).
usage: stage2.py <muts.jsonl> <results.jsonl> <stage2.jsonl> [workers]"""
import json, os, subprocess, sys, shutil, threading, queue, re
ENV = dict(os.environ, GOFLAGS='-mod=mod', GOPROXY='off', GOSUMDB='off', GOTOOLCHAIN='local')
muts = {json.loads(l)['id']: json.loads(l) for l in open(sys.argv[1])}
res = [json.loads(l) for l in open(sys.argv[2])]
outf = sys.argv[3]
W = int(sys.argv[4]) if len(sys.argv) > 4 else 4
done = set()
if os.path.exists(outf):
    done = {json.loads(l)['id'] for l in open(outf)}
q = queue.Queue()
for r in res:
    if r['status'] == 'survived-stage1' and r['id'] not in done:
        q.put(muts[r['id']])
lock = threading.Lock()
def worker(k):
    d = f'/tmp/mut2w{k}'
    while True:
        try: m = q.get_nowait()
        except queue.Empty: break
        shutil.rmtree(d, ignore_errors=True); os.makedirs(d)
        subprocess.run(['rsync', '-a', '--exclude', '.git', '/tmp/sweep_repo3/', d + '/repo/'], check=True)
        p = os.path.join(d, 'repo', m['file'])
        src = open(p, 'rb').read()
        open(p, 'wb').write(src[:m['start']] + m['repl'].encode() + src[m['end']:])
        gm = open('/verif/replay/go.mod').read().replace('=> /repo', '=> ' + d + '/repo')
        open(d + '/go.mod', 'w').write(gm)
        shutil.copy('/verif/replay/go.sum', d + '/go.sum')
        try:
            pr = subprocess.run(['go', 'test', '-count=1', '-vet=off', '-run', 'TestBounded', '-timeout', '900s', '-modfile=' + d + '/go.mod', './...'],
                                cwd='/verif/replay', env=ENV, capture_output=True, text=True, timeout=1200)
            out = pr.stdout + pr.stderr
        except subprocess.TimeoutExpired:
            out = 'TIMEOUT'
        fails = {}
        cur = None
        pk = re.findall(r'^(FAIL|ok)\s+replay/(\w+)', out, re.M)
        failing = sorted({b for a, b in pk if a == 'FAIL'})
        first = re.findall(r'VP-FAIL (\{.*\})', out)[:3]
        r = {'id': m['id'], 'fn': m['fn'], 'line': m['line'], 'desc': m['desc'], 'harness_fail': failing, 'samples': first,
             'status': 'caught-bounded' if failing else ('timeout' if out == 'TIMEOUT' else 'survived-all')}
        if not failing and 'ok' not in out: r['out'] = out[-500:]
        with lock:
            open(outf, 'a').write(json.dumps(r) + '\n')
        shutil.rmtree(d, ignore_errors=True)
ts = [threading.Thread(target=worker, args=(k,)) for k in range(W)]
[t.start() for t in ts]; [t.join() for t in ts]
print('stage2-done')
