#!/usr/bin/env python3
"""Stage 2b: c03 and c13 fail on the unchanged tree for their known findings, so a raw FAIL of those
two packages says nothing. For mutants that only those two 'caught', re-run them and look for failing
cases outside the known findings."""
import json, os, subprocess, sys, shutil, threading, queue, re
ENV = dict(os.environ, GOFLAGS='-mod=mod', GOPROXY='off', GOSUMDB='off', GOTOOLCHAIN='local')
muts = {json.loads(l)['id']: json.loads(l) for l in open('muts.stage2.jsonl')}
rs = [json.loads(l) for l in open('stage2.jsonl')]
outf = 'stage2b.jsonl'
done = {json.loads(l)['id'] for l in open(outf)} if os.path.exists(outf) else set()
q = queue.Queue()
for r in rs:
    if set(r['harness_fail']) <= {'c03', 'c13'} and r['id'] not in done:
        q.put(muts[r['id']])
def known(case, detail):
    if case.startswith('matchpath:'): return True
    if 'unbounded work' in detail and (case.startswith('hamt:shared-') or case.startswith('file:shared-lattice') or case.startswith('file:deep-chain,sizes=absent')): return True
    return False
lock = threading.Lock()
def worker(k):
    d = f'/tmp/mut3w{k}'
    while True:
        try: m = q.get_nowait()
        except queue.Empty: break
        shutil.rmtree(d, ignore_errors=True); os.makedirs(d)
        subprocess.run(['rsync', '-a', '--exclude', '.git', '/tmp/sweep_repo3/', d + '/repo/'], check=True)
        p = os.path.join(d, 'repo', m['file'])
        src = open(p, 'rb').read()
        open(p, 'wb').write(src[:m['start']] + m['repl'].encode() + src[m['end']:])
        open(d + '/go.mod', 'w').write(open('/verif/replay/go.mod').read().replace('=> /repo', '=> ' + d + '/repo'))
        shutil.copy('/verif/replay/go.sum', d + '/go.sum')
        try:
            pr = subprocess.run(['go', 'test', '-count=1', '-vet=off', '-run', 'TestBounded', '-timeout', '600s', '-modfile=' + d + '/go.mod', './c03', './c13'],
                                cwd='/verif/replay', env=ENV, capture_output=True, text=True, timeout=900)
            out = pr.stdout + pr.stderr
        except subprocess.TimeoutExpired:
            out = 'TIMEOUT'
        new = []
        for mm in re.finditer(r'VP-FAIL (\{.*\})', out):
            try: f = json.loads(mm.group(1))
            except Exception: continue
            if not known(f.get('case', ''), f.get('detail', '')): new.append(f)
        other = 'panic:' in out and 'VP-FAIL' not in out
        r = {'id': m['id'], 'fn': m['fn'], 'line': m['line'], 'desc': m['desc'],
             'status': 'caught-bounded' if (new or other or out == 'TIMEOUT') else 'survived-all', 'new_cases': new[:3], 'n_new': len(new)}
        with lock:
            open(outf, 'a').write(json.dumps(r) + '\n')
        shutil.rmtree(d, ignore_errors=True)
ts = [threading.Thread(target=worker, args=(k,)) for k in range(8)]
[t.start() for t in ts]; [t.join() for t in ts]
print('stage2b-done')
