#!/usr/bin/env python3
"""Mutation sweep (snapshots /tmp/sweep_repo2, /tmp/sweep_specs4, /tmp/gsw4 are frozen copies of /repo, /verif/specs and bin/govc so that
editing contracts while the sweep runs cannot change its verdicts): which small behaviour changes of /repo survive the existing suite, and which of
those make a previously discharged obligation fail (stage 1, `govc verify`)?  Survivors that no
obligation notices are listed for stage 2 (bounded stand-ins, `stage2.py`) and manual triage.
usage: sweep.py <muts.jsonl> <results.jsonl> [workers]   (resumable)"""
import json, os, subprocess, sys, shutil, threading, queue, time
ENV = dict(os.environ, GOFLAGS='-mod=mod', GOPROXY='off', GOSUMDB='off', GOTOOLCHAIN='local')
muts = [json.loads(l) for l in open(sys.argv[1])]
resf = sys.argv[2]
W = int(sys.argv[3]) if len(sys.argv) > 3 else 8
done = set()
if os.path.exists(resf):
    for l in open(resf):
        done.add(json.loads(l)['id'])
base = json.load(open('/verif/mutsweep/base_verify4.json'))
def failing(r):
    s = set()
    for f in r:
        for o in f.get('obligations') or []:
            if o['status'] != 'unsat':
                s.add(o['name'])
        if f.get('error'): s.add(f['fn'] + '/ERROR:' + f['error'][:80])
        if f.get('vacuous'): s.add(f['fn'] + '/VACUOUS')
    return s
basefail = failing(base)
basenames = set(o['name'] for f in base for o in f.get('obligations') or [])
q = queue.Queue()
for m in muts:
    if m['id'] not in done: q.put(m)
lock = threading.Lock()
def run(cmd, cwd, timeout):
    try:
        p = subprocess.run(cmd, cwd=cwd, env=ENV, capture_output=True, text=True, timeout=timeout)
        return p.returncode, p.stdout + p.stderr
    except subprocess.TimeoutExpired:
        return 124, 'timeout'
def worker(k):
    d = f'/tmp/muty{k}'
    while True:
        try: m = q.get_nowait()
        except queue.Empty: break
        shutil.rmtree(d, ignore_errors=True)
        os.makedirs(d, exist_ok=True)
        subprocess.run(['rsync', '-a', '--exclude', '.git', '/tmp/sweep_repo4/', d + '/repo/'], check=True)
        p = os.path.join(d, 'repo', m['file'])
        src = open(p, 'rb').read()
        open(p, 'wb').write(src[:m['start']] + m['repl'].encode() + src[m['end']:])
        res = {'id': m['id'], 'desc': m['desc'], 'fn': m['fn'], 'line': m['line']}
        rc, out = (0, '') if m.get('suite') == 'passed' else run(['go', 'build', './...'], d + '/repo', 300)
        if rc != 0: res['status'] = 'nocompile'
        else:
            rc, out = (0, '') if m.get('suite') == 'passed' else run(['go', 'test', '-vet=off', '-count=1', '-timeout', '150s', './...'], d + '/repo', 400)
            if rc != 0: res['status'] = 'killed-by-suite'
            else:
                js = d + '/v.json'
                rc, out = run(['/tmp/gsw4', 'verify', '-repo', d + '/repo', '-specs', '/tmp/sweep_specs4', '-j', '4', '-timeout', '10000', '-json', js], '/verif', 900)
                try:
                    r = json.load(open(js))
                    f = failing(r)
                    new = sorted(x for x in f - basefail)
                    res['status'] = 'caught-deductive' if new else 'survived-stage1'
                    res['new_failures'] = new[:12]
                    res['n_new'] = len(new)
                except Exception as e:
                    res['status'] = 'govc-error'; res['out'] = out[-400:]
        with lock:
            open(resf, 'a').write(json.dumps(res) + '\n')
        shutil.rmtree(d, ignore_errors=True)
ts = [threading.Thread(target=worker, args=(k,)) for k in range(W)]
[t.start() for t in ts]; [t.join() for t in ts]
print('sweep-done')
