// C03 bounded stand-in: path selectors reach exactly the entity a path names.
//
// Bounds (quick | thorough): 30 | 1000 random trees (VERIF_SEED) of depth <= 3; every directory is
// plain or a fanout-8 HAMT (HAMTs get 12 filler entries so shards nest); 2-4 named children per
// directory; files of 0..40 bytes built with width 2 and "size-4" chunks (up to 4 levels); names
// include spaces and unicode. For every path in the tree (files, directories, the root ""), with
// redundant-slash spellings, and target selectors MatchUnixFSSelector (via UnixFSPathSelector),
// MatchUnixFSPreloadSelector and MatchUnixFSEntitySelector:
//
//	matchPath=false: WalkMatching yields exactly one match, at the target, bytes / entry names
//	  equal to the model;
//	paths naming no entry (missing leaf, missing middle, through a file): zero matches;
//	matchPath=true (case ids "matchpath:..."): matches are root, each intermediate node, target,
//	  once each and in that order.
//
// Names differing only by white space at their ends, and paths perturbed by white space
// (ws_test.go): 4 fixed trees "ws-pp|ph|hp|hh" plus 8 | 100 random trees "ws-rand#<i>", same case id
// scheme ("tree=ws-..,path=%q,sel=..", "tree=ws-..,missing=%q"), matchPath=false only.
//
// Oracle: the in-memory model tree the DAG was built from.
package c03

import (
	"bytes"
	"fmt"
	"math/rand"
	"sort"
	"strings"
	"testing"

	"github.com/ipfs/go-unixfsnode"
	"github.com/ipfs/go-unixfsnode/data/builder"
	dagpb "github.com/ipld/go-codec-dagpb"
	"github.com/ipld/go-ipld-prime"
	"github.com/ipld/go-ipld-prime/datamodel"
	"github.com/ipld/go-ipld-prime/traversal"
	"github.com/ipld/go-ipld-prime/traversal/selector"
	sb "github.com/ipld/go-ipld-prime/traversal/selector/builder"

	"replay/vp"
)

type ent struct {
	name     string
	dir      bool
	hamt     bool
	content  []byte
	children []*ent
	link     datamodel.Link
	size     uint64
}

var nameParts = []string{"a", "b c", "é", "00", "f.bin", "世界", "x-y", "0A1", "q"}

func gen(rng *rand.Rand, depth int, salt *int64) *ent {
	e := &ent{dir: true, hamt: rng.Intn(2) == 0}
	k := 2 + rng.Intn(3)
	perm := rng.Perm(len(nameParts))
	for i := 0; i < k; i++ {
		var c *ent
		if depth > 1 && rng.Intn(2) == 0 {
			c = gen(rng, depth-1, salt)
		} else {
			*salt++
			c = &ent{content: vp.Content(rng.Intn(41), *salt)}
			if len(c.content) >= 12 && rng.Intn(4) == 0 {
				// a file that repeats a chunk (the chunker cuts every 4 bytes): the same block is
				// linked several times under one parent
				copy(c.content[8:12], c.content[0:4])
				if len(c.content) >= 24 {
					copy(c.content[12:24], c.content[0:12])
				}
			}
		}
		c.name = nameParts[perm[i]]
		e.children = append(e.children, c)
	}
	return e
}

func build(t *testing.T, e *ent, ls *ipld.LinkSystem, filler datamodel.Link) {
	var err error
	if !e.dir {
		e.link, e.size, err = builder.BuildUnixFSFile(bytes.NewReader(e.content), "size-4", ls)
		if err != nil {
			t.Fatal(err)
		}
		return
	}
	var ents []dagpb.PBLink
	for _, c := range e.children {
		build(t, c, ls, filler)
		pe, err := builder.BuildUnixFSDirectoryEntry(c.name, int64(c.size), c.link)
		if err != nil {
			t.Fatal(err)
		}
		ents = append(ents, pe)
	}
	if e.hamt {
		for i := 0; i < 12; i++ {
			f := &ent{name: fmt.Sprintf("filler-%d", i), link: filler, size: 1, content: []byte("x")}
			e.children = append(e.children, f)
			pe, _ := builder.BuildUnixFSDirectoryEntry(f.name, 1, filler)
			ents = append(ents, pe)
		}
		e.link, e.size, err = builder.BuildUnixFSShardedDirectory(8, 0x22, ents, ls)
	} else {
		e.link, e.size, err = builder.BuildUnixFSDirectory(ents, ls)
	}
	if err != nil {
		t.Fatal(err)
	}
}

type target struct {
	segs []string
	e    *ent
}

func paths(e *ent, prefix []string, out *[]target) {
	*out = append(*out, target{append([]string(nil), prefix...), e})
	for _, c := range e.children {
		if strings.HasPrefix(c.name, "filler-") && c.name != "filler-3" {
			continue
		}
		paths(c, append(prefix, c.name), out)
	}
}

type match struct {
	path string
	desc string // "" when the node equals the model, else what differs
	kind datamodel.Kind
}

func describe(n datamodel.Node, e *ent) string {
	if e == nil {
		return ""
	}
	if !e.dir {
		if n.Kind() != datamodel.Kind_Bytes {
			return fmt.Sprintf("kind %v, want bytes", n.Kind())
		}
		b, err := n.AsBytes()
		if err != nil || !bytes.Equal(b, e.content) {
			return fmt.Sprintf("bytes differ: got %d bytes err=%v, want %d", len(b), err, len(e.content))
		}
		return ""
	}
	if n.Kind() != datamodel.Kind_Map {
		return fmt.Sprintf("kind %v, want map", n.Kind())
	}
	var got, want []string
	it := n.MapIterator()
	for !it.Done() {
		k, _, err := it.Next()
		if err != nil {
			return "iteration error: " + err.Error()
		}
		ks, _ := k.AsString()
		got = append(got, ks)
	}
	for _, c := range e.children {
		want = append(want, c.name)
	}
	sort.Strings(got)
	sort.Strings(want)
	if strings.Join(got, "\x00") != strings.Join(want, "\x00") {
		return fmt.Sprintf("entries %q, want %q", got, want)
	}
	return ""
}

func walk(ls *ipld.LinkSystem, root datamodel.Link, selNode datamodel.Node, lookup func(path string) *ent) ([]match, error) {
	sel, err := selector.CompileSelector(selNode)
	if err != nil {
		return nil, fmt.Errorf("compile: %w", err)
	}
	rn, err := ls.Load(ipld.LinkContext{}, root, dagpb.Type.PBNode)
	if err != nil {
		return nil, err
	}
	prog := traversal.Progress{Cfg: &traversal.Config{LinkSystem: *ls, LinkTargetNodePrototypeChooser: vp.Chooser}}
	var ms []match
	err = prog.WalkMatching(rn, sel, func(p traversal.Progress, n datamodel.Node) error {
		ms = append(ms, match{path: p.Path.String(), kind: n.Kind(), desc: describe(n, lookup(p.Path.String()))})
		return nil
	})
	return ms, err
}

func fmtMatches(ms []match) string {
	var s []string
	for _, m := range ms {
		s = append(s, fmt.Sprintf("%q:%v", m.path, m.kind))
	}
	return "[" + strings.Join(s, " ") + "]"
}

func TestBounded(t *testing.T) {
	r := vp.New(t)
	defer r.Done()
	saved := builder.DefaultLinksPerBlock
	builder.DefaultLinksPerBlock = 2
	defer func() { builder.DefaultLinksPerBlock = saved }()
	rng := vp.Rng(3)
	var salt int64

	selectors := []struct {
		name string
		spec sb.SelectorSpec
	}{{"match", unixfsnode.MatchUnixFSSelector}, {"preload", unixfsnode.MatchUnixFSPreloadSelector}, {"entity", unixfsnode.MatchUnixFSEntitySelector}}

	for tree := 0; tree < vp.Pick(30, 1000); tree++ {
		st := vp.NewStore()
		ls := st.LS()
		filler, _, err := builder.BuildUnixFSFile(bytes.NewReader([]byte("x")), "", ls)
		if err != nil {
			t.Fatal(err)
		}
		root := gen(rng, 3, &salt)
		build(t, root, ls, filler)
		unixfsnode.AddUnixFSReificationToLinkSystem(ls)
		var ts []target
		paths(root, nil, &ts)
		byPath := map[string]*ent{}
		for _, tg := range ts {
			byPath[strings.Join(tg.segs, "/")] = tg.e
		}
		lookup := func(p string) *ent { return byPath[p] }

		for _, tg := range ts {
			canon := strings.Join(tg.segs, "/")
			spellings := []string{canon}
			if len(tg.segs) > 0 {
				spellings = append(spellings, "/"+strings.Join(tg.segs, "//")+"/")
			}
			for _, sp := range spellings {
				for _, s := range selectors {
					id := fmt.Sprintf("tree=%d,path=%q,sel=%s", tree, sp, s.name)
					r.Eval(id)
					r.Guard(id, func() {
						selNode := unixfsnode.UnixFSPathSelectorBuilder(sp, s.spec, false)
						if s.name == "match" {
							selNode = unixfsnode.UnixFSPathSelector(sp)
						}
						ms, err := walk(ls, root.link, selNode, lookup)
						if err != nil {
							r.Fail(id, "walk error: %v (matches %s)", err, fmtMatches(ms))
							return
						}
						if len(ms) != 1 || ms[0].path != canon {
							r.Fail(id, "matches %s, want exactly [%q]", fmtMatches(ms), canon)
							return
						}
						if ms[0].desc != "" {
							r.Fail(id, "match at %q: %s", canon, ms[0].desc)
						}
					})
				}
			}
			// matchPath=true
			id := fmt.Sprintf("matchpath:tree=%d,path=%q", tree, canon)
			r.Eval(id)
			r.Guard(id, func() {
				ms, err := walk(ls, root.link, unixfsnode.UnixFSPathSelectorBuilder(canon, unixfsnode.MatchUnixFSSelector, true), lookup)
				if err != nil {
					r.Fail(id, "walk error: %v", err)
					return
				}
				var want []string
				for i := 0; i <= len(tg.segs); i++ {
					want = append(want, fmt.Sprintf("%q", strings.Join(tg.segs[:i], "/")))
				}
				var got []string
				for _, m := range ms {
					got = append(got, fmt.Sprintf("%q", m.path))
				}
				if strings.Join(got, " ") != strings.Join(want, " ") {
					r.Fail(id, "matched paths [%s], want [%s]", strings.Join(got, " "), strings.Join(want, " "))
					return
				}
				if d := ms[len(ms)-1].desc; d != "" {
					r.Fail(id, "target match: %s", d)
				}
			})
			// paths naming no entry
			var bad []string
			if tg.e.dir {
				bad = append(bad, strings.Join(append(append([]string{}, tg.segs...), "nope"), "/"))
				bad = append(bad, strings.Join(append(append([]string{}, tg.segs...), "nope", "a"), "/"))
			} else {
				bad = append(bad, canon+"/a", canon+"/0")
			}
			for _, bp := range bad {
				id := fmt.Sprintf("tree=%d,missing=%q", tree, bp)
				r.Eval(id)
				r.Guard(id, func() {
					ms, _ := walk(ls, root.link, unixfsnode.UnixFSPathSelector(bp), lookup)
					if len(ms) != 0 {
						r.Fail(id, "path naming no entry matched %s", fmtMatches(ms))
					}
				})
			}
		}
		r.Sample(map[string]any{"tree": tree, "root": root.link.String(), "paths": len(ts), "blocks": st.Len()})
	}

	wsTrees(t, r)
}
