package c03

// Names that differ only by white space at their ends. A UnixFS entry name is an arbitrary
// slash-free string, and a path is split at "/" and at nothing else (datamodel.ParsePath), so
// "dir/notes", "dir/notes " and "dir/notes\n" are three paths naming three entries (or none). The
// random trees of the main test draw from nine names of which none begins or ends in white space
// and no two are equal after trimming, so a selector builder that "cleans" the path (trims it,
// collapses blanks, normalises unicode spaces) resolves everything there correctly.
//
// Trees (tree ids "ws-<root><dir>" with p = plain, h = fanout-8 HAMT, in both tiers, and
// "ws-rand#<i>", 8 | 100 random trees of depth <= 3 drawn from wsPool with VERIF_SEED):
//
//	ws-??   root and root/"dir" each hold the files wsFiles ("notes", "notes ", " notes",
//	        "notes\n", "notes\t", "notes\u00a0", "résumé " (no "résumé"), "\u3000x" (no "x"),
//	        "my file", "todo") and the directories "sub" and "sub " (each with "f" and one name of
//	        its own); every file's content spells out its own path, so a match at a sibling reads
//	        different bytes.
//
// Cases, for every tree:
//
//	tree=<t>,path=%q,sel=<match|preload|entity>
//	        every path of the tree (both spellings as in the main test) and every perturbed path
//	        that happens to name an entry: exactly one match, AT that path, and the node there is
//	        the named entity (file bytes / directory entry names compared with the model entity
//	        the path names - not with whatever the traversal says it reached).
//	tree=<t>,missing=%q
//	        perturbed paths naming no entry: every path of the tree with each of wsPerturb (" ",
//	        "\t", "\n", "\r\n", U+00A0, U+3000, two spaces) appended to its last segment, prepended
//	        to its first segment, and a blank at both ends ("dir/todo ", "dir/todo\n", " dir/todo",
//	        "dir/résumé", ...) and the bare white-space paths " ", "\t", ... unless the model has
//	        such an entry: zero matches, with the match, preload and entity target selectors alike
//	        (random trees: UnixFSPathSelector only, as in the main test); one VP-FAIL per path,
//	        naming the first selector that matched something.
//
// All of this is matchPath=false; the matchPath=true cases of the main test ("matchpath:...") fail
// on their own account already (recorded finding) and would tell nothing here.

import (
	"bytes"
	"fmt"
	"math/rand"
	"strings"
	"testing"

	"github.com/ipfs/go-unixfsnode"
	"github.com/ipfs/go-unixfsnode/data/builder"
	"github.com/ipld/go-ipld-prime"
	"github.com/ipld/go-ipld-prime/datamodel"
	sb "github.com/ipld/go-ipld-prime/traversal/selector/builder"

	"replay/vp"
)

var wsFiles = []string{"notes", "notes ", " notes", "notes\n", "notes\t", "notes\u00a0", "résumé ", "\u3000x", "my file", "todo"}

var wsPerturb = []string{" ", "\t", "\n", "\r\n", "\u00a0", "\u3000", "  "}

var wsPool = []string{"notes", "notes ", " notes", "notes\n", "\tnotes", "résumé ", "\u3000x", "x", "x\u3000", "my file", " ", "a\u00a0", "\u00a0a", "a", "todo"}

// wsDir is a directory holding wsFiles plus "sub" and "sub "; at is its path (for the contents).
func wsDir(at string, hamt bool) *ent {
	e := &ent{dir: true, hamt: hamt}
	for _, n := range wsFiles {
		e.children = append(e.children, &ent{name: n, content: []byte(fmt.Sprintf("content of %q", at+n))})
	}
	for _, n := range []string{"sub", "sub "} {
		d := &ent{name: n, dir: true}
		d.children = append(d.children,
			&ent{name: "f", content: []byte(fmt.Sprintf("content of %q", at+n+"/f"))},
			&ent{name: fmt.Sprintf("only in %q", n), content: []byte("o")})
		e.children = append(e.children, d)
	}
	return e
}

func wsGen(rng *rand.Rand, depth int, at string) *ent {
	e := &ent{dir: true, hamt: rng.Intn(2) == 0}
	k := 2 + rng.Intn(4)
	perm := rng.Perm(len(wsPool))
	for i := 0; i < k; i++ {
		name := wsPool[perm[i]]
		var c *ent
		if depth > 1 && rng.Intn(2) == 0 {
			c = wsGen(rng, depth-1, at+name+"/")
		} else {
			c = &ent{content: []byte(fmt.Sprintf("content of %q", at+name))}
		}
		c.name = name
		e.children = append(e.children, c)
	}
	return e
}

// resolve finds the entity the segments name in the model (nil: no such entry).
func resolve(e *ent, segs []string) *ent {
	for _, s := range segs {
		if !e.dir {
			return nil
		}
		var next *ent
		for _, c := range e.children {
			if c.name == s {
				next = c
				break
			}
		}
		if next == nil {
			return nil
		}
		e = next
	}
	return e
}

var wsSelectors = []struct {
	name string
	spec sb.SelectorSpec
}{{"match", unixfsnode.MatchUnixFSSelector}, {"preload", unixfsnode.MatchUnixFSPreloadSelector}, {"entity", unixfsnode.MatchUnixFSEntitySelector}}

func wsSelector(path, sel string, spec sb.SelectorSpec) datamodel.Node {
	if sel == "match" {
		return unixfsnode.UnixFSPathSelector(path)
	}
	return unixfsnode.UnixFSPathSelectorBuilder(path, spec, false)
}

// wsCheck runs one path against one tree: segs is what the path spelled sp means.
func wsCheck(r *vp.Run, tree string, ls *ipld.LinkSystem, root *ent, sp string, segs []string, allSelectors bool) {
	want := resolve(root, segs)
	canon := strings.Join(segs, "/")
	if want == nil {
		// one case, one VP-FAIL line: the first target selector that matches something is reported
		id := fmt.Sprintf("tree=%s,missing=%q", tree, sp)
		r.Eval(id)
		r.Guard(id, func() {
			for _, s := range wsSelectors {
				// an error is a fine way of matching nothing
				ms, _ := walk(ls, root.link, wsSelector(sp, s.name, s.spec), func(string) *ent { return nil })
				if len(ms) != 0 {
					r.Fail(id, "path naming no entry matched %s (sel=%s)", fmtMatches(ms), s.name)
					return
				}
				if !allSelectors {
					return
				}
			}
		})
		return
	}
	for _, s := range wsSelectors {
		id := fmt.Sprintf("tree=%s,path=%q,sel=%s", tree, sp, s.name)
		r.Eval(id)
		r.Guard(id, func() {
			ms, err := walk(ls, root.link, wsSelector(sp, s.name, s.spec), func(string) *ent { return want })
			if err != nil {
				r.Fail(id, "walk error: %v (matches %s)", err, fmtMatches(ms))
				return
			}
			if len(ms) != 1 || ms[0].path != canon {
				detail := ""
				if len(ms) == 1 && ms[0].desc != "" {
					detail = "; the node there is not the named one: " + ms[0].desc
				}
				r.Fail(id, "matches %s, want exactly [%q]%s", fmtMatches(ms), canon, detail)
				return
			}
			if ms[0].desc != "" {
				r.Fail(id, "match at %q: %s", canon, ms[0].desc)
			}
		})
	}
}

func wsTrees(t *testing.T, r *vp.Run) {
	type wtree struct {
		id   string
		root *ent
	}
	var trees []wtree
	for _, rootHamt := range []bool{false, true} {
		for _, dirHamt := range []bool{false, true} {
			root := wsDir("", rootHamt)
			d := wsDir("dir/", dirHamt)
			d.name = "dir"
			root.children = append(root.children, d)
			trees = append(trees, wtree{"ws-" + map[bool]string{false: "p", true: "h"}[rootHamt] + map[bool]string{false: "p", true: "h"}[dirHamt], root})
		}
	}
	rng := vp.Rng(303)
	for i := 0; i < vp.Pick(8, 100); i++ {
		trees = append(trees, wtree{fmt.Sprintf("ws-rand#%d", i), wsGen(rng, 3, "")})
	}

	for _, wt := range trees {
		st := vp.NewStore()
		ls := st.LS()
		filler, _, err := builder.BuildUnixFSFile(bytes.NewReader([]byte("x")), "", ls)
		if err != nil {
			t.Fatal(err)
		}
		build(t, wt.root, ls, filler)
		unixfsnode.AddUnixFSReificationToLinkSystem(ls)
		var ts []target
		paths(wt.root, nil, &ts)

		done := map[string]bool{}
		try := func(sp string, segs []string) {
			if done[sp] {
				return
			}
			done[sp] = true
			wsCheck(r, wt.id, ls, wt.root, sp, segs, !strings.HasPrefix(wt.id, "ws-rand"))
		}
		for _, tg := range ts {
			try(strings.Join(tg.segs, "/"), tg.segs)
			if len(tg.segs) > 0 {
				try("/"+strings.Join(tg.segs, "//")+"/", tg.segs)
			}
		}
		for _, tg := range ts {
			if len(tg.segs) == 0 {
				continue
			}
			last := len(tg.segs) - 1
			perturbed := func(pre, post string) {
				segs := append([]string(nil), tg.segs...)
				segs[0] = pre + segs[0]
				segs[last] += post
				try(strings.Join(segs, "/"), segs)
			}
			for _, w := range wsPerturb {
				perturbed("", w)
				perturbed(w, "")
			}
			perturbed(" ", " ")
			// the trimmed spelling of a name that has white space at its ends
			if tr := strings.TrimSpace(tg.segs[last]); tr != tg.segs[last] && tr != "" {
				segs := append(append([]string(nil), tg.segs[:last]...), tr)
				try(strings.Join(segs, "/"), segs)
			}
		}
		// a path that is nothing but white space names an entry of that name (or nothing), not the root
		for _, w := range wsPerturb {
			try(w, []string{w})
			try("/"+w+"/", []string{w})
		}
		r.Sample(map[string]any{"tree": wt.id, "root": wt.root.link.String(), "paths": len(ts), "tried": len(done), "blocks": st.Len()})
	}
}
