// Package handdag builds UnixFS file DAGs by hand, block by block, from a compact shape notation.
// It is shared by the c06 and c20 harnesses.
//
// The builder of the library under test only writes raw leaves, and the boxo importers never write
// an empty chunk below an interior node, so neither reaches the reader's handling of a non-raw child
// whose recorded block size is 0 (an empty file concatenated under a new root, as `ipfs files`
// style tools produce). The notation is also the stable part of the case names:
//
//	P        dag-pb leaf, UnixFS File with 1..7 bytes of inline Data
//	R        raw leaf with 1..7 bytes
//	e        dag-pb leaf, UnixFS File, no Data field, FileSize 0 (what boxo stores for an empty file)
//	z        dag-pb leaf, UnixFS File, Data field present but empty, FileSize 0
//	s        the one canonical empty file block (e without the distinguishing mtime); repeats share a CID
//	[a,b,..] dag-pb interior node, UnixFS File with FileSize and one BlockSizes entry per child,
//	         links unnamed with Tsize = cumulative stored size
//
// Every e/z leaf carries its own mtime so that distinct positions are distinct blocks.
//
// Leading empty children. A child is "leading-empty" when it holds no file bytes and every sibling
// before it holds none either (at any depth; the child may itself be an interior node). A
// sequential read from offset 0 skips children that end at or before the read offset, so on the
// library as it stands a leading-empty child (and everything beneath it) is never requested by any
// operation. That is a recorded known finding of the library; shapes are therefore kept in two
// lists, Shapes (no leading-empty child anywhere) and LeadingEmptyShapes (at least one), and the
// harnesses report what concerns the leading-empty blocks under case names of their own
// ("file:leading-empty=...") while everything else stays under "file:hand=...".
package handdag

import (
	"fmt"
	"strings"

	"github.com/ipfs/go-cid"
	"github.com/ipfs/go-unixfsnode/data"
	"github.com/ipfs/go-unixfsnode/data/builder"
	dagpb "github.com/ipld/go-codec-dagpb"
	"github.com/ipld/go-ipld-prime"
	"github.com/ipld/go-ipld-prime/datamodel"
	cidlink "github.com/ipld/go-ipld-prime/linking/cid"
	"github.com/ipld/go-ipld-prime/node/basicnode"
	mh "github.com/multiformats/go-multihash"

	"replay/vp"
)

// Shapes have no leading-empty child at any level.
var Shapes = []string{
	// non-raw children of positive size only
	"[P,P]", "[P,P,P]", "[P,R,P]", "[P,[P,P],P]", "[[P,P],[P,P,P]]", "[[R,P],[P,R]]",
	// an empty non-raw child in the middle / last / several
	"[P,e,P]", "[P,P,e]", "[P,e]", "[P,e,e,P]", "[P,e,P,e]", "[R,e,R]", "[R,R,e]",
	"[P,z,P]", "[P,P,z]", "[P,e,z,P]",
	// the same (canonical) empty block linked more than once
	"[P,s,P,s]", "[P,[P,s],s,P]",
	// nested one level down
	"[P,[P,e,P]]", "[P,[P,e]]", "[[P,e],P]", "[[P,e,P],P]", "[[P,e],[P,e]]", "[P,[R,e,R],e]",
	// an empty file concatenated between / after whole files
	"[[P,P],e,[P,P]]", "[[R,R],e,[R,R,R]]", "[[R,R],[R,R],e]", "[[R,R],[P,e,R],e]", "[[[R,R],[R,R]],e,[[R,R],[R]]]",
	// two levels down
	"[[P,[P,e,P]],e,P]", "[P,[P,[P,e]],P]", "[[[P,e],[P,z]],[[P,P,e]]]",
}

// LeadingEmptyShapes have at least one leading-empty child ('s' is not used here: every block of
// these shapes sits at exactly one position).
var LeadingEmptyShapes = []string{
	// at the root
	"[e,P]", "[z,P]", "[e,R]", "[e,e,P]", "[e,z,P,e]", "[e,P,e,P]", "[e,[P,P]]", "[e]", "[e,z]",
	// one level down, below a leading / a later child
	"[[e,P],P]", "[P,[e,P]]", "[R,[e,R]]", "[P,[z,P],P]", "[[P,P],[e,P,e]]", "[P,[e]]",
	// at both levels; an interior node that is itself leading-empty
	"[e,[e,P]]", "[[e],P]", "[[e,e],[e,P]]",
	// two levels down
	"[P,[P,[e,P]]]", "[[[e,R],R],e,R]",
}

// LeadingEmptyShapesV0 are the LeadingEmptyShapes that are also run with CIDv0 dag-pb links.
var LeadingEmptyShapesV0 = []string{"[e,P]", "[P,[e,P]]", "[[e,P],P]"}

// V0 is the CIDv0 (dag-pb, sha2-256) link prototype.
var V0 = cidlink.LinkPrototype{Prefix: cid.Prefix{Version: 0, Codec: cid.DagProtobuf, MhType: mh.SHA2_256, MhLength: 32}}

// Shape is the parsed form of the notation.
type Shape struct {
	Kind byte // 'P','R','e','z','s' or '[' for interior
	Kids []*Shape
}

// Parse parses the notation.
func Parse(s string) (*Shape, error) {
	pos := 0
	var parse func() (*Shape, error)
	parse = func() (*Shape, error) {
		if pos >= len(s) {
			return nil, fmt.Errorf("shape %q: unexpected end", s)
		}
		c := s[pos]
		pos++
		if strings.IndexByte("PRezs", c) >= 0 {
			return &Shape{Kind: c}, nil
		}
		if c != '[' {
			return nil, fmt.Errorf("shape %q: unexpected %q at %d", s, c, pos-1)
		}
		n := &Shape{Kind: '['}
		for {
			k, err := parse()
			if err != nil {
				return nil, err
			}
			n.Kids = append(n.Kids, k)
			if pos < len(s) && s[pos] == ',' {
				pos++
				continue
			}
			if pos < len(s) && s[pos] == ']' {
				pos++
				return n, nil
			}
			return nil, fmt.Errorf("shape %q: expected , or ] at %d", s, pos)
		}
	}
	n, err := parse()
	if err == nil && pos != len(s) {
		err = fmt.Errorf("shape %q: trailing input", s)
	}
	return n, err
}

// Empty reports whether no file bytes are stored at or beneath s.
func (s *Shape) Empty() bool {
	switch s.Kind {
	case 'P', 'R':
		return false
	case '[':
		for _, k := range s.Kids {
			if !k.Empty() {
				return false
			}
		}
	}
	return true
}

// HasLeadingEmpty reports whether some interior node at or beneath s has an empty first child.
func (s *Shape) HasLeadingEmpty() bool {
	if s.Kind != '[' {
		return false
	}
	if s.Kids[0].Empty() {
		return true
	}
	for _, k := range s.Kids {
		if k.HasLeadingEmpty() {
			return true
		}
	}
	return false
}

// Block is one position of the stored DAG.
type Block struct {
	Link  string // link.String()
	Path  string // child indices from the root joined by '.', "root" for the root
	Kind  byte
	Bytes uint64 // file bytes at or beneath the block
	// Leading: the block is a leading-empty child of its parent, or lies beneath one.
	Leading bool
}

// Label names the position, e.g. "1.0(e)", "0([..])" for an interior node.
func (b Block) Label() string {
	if b.Kind == '[' {
		return b.Path + "([..])"
	}
	return fmt.Sprintf("%s(%c)", b.Path, b.Kind)
}

// DAG is a stored shape.
type DAG struct {
	Notation string
	Root     datamodel.Link
	Bytes    uint64  // file bytes, as the shape dictates
	Content  []byte  // the file's content, as the shape dictates
	Blocks   []Block // every position, depth-first in link order, root first
}

// First returns the first position of every distinct block keyed by link.String().
func (d *DAG) First() map[string]Block {
	m := map[string]Block{}
	for _, b := range d.Blocks {
		if _, dup := m[b.Link]; !dup {
			m[b.Link] = b
		}
	}
	return m
}

// LeadingEmpty returns the blocks ALL of whose positions are leading-empty children or lie beneath
// one: link.String() -> first position.
func (d *DAG) LeadingEmpty() map[string]Block {
	m := d.First()
	for _, b := range d.Blocks {
		if !b.Leading {
			delete(m, b.Link)
		}
	}
	return m
}

// Labels renders the positions of the given links (in depth-first order) as "0(e) 1.0(e)".
func (d *DAG) Labels(links map[string]bool) string {
	var out []string
	seen := map[string]bool{}
	for _, b := range d.Blocks {
		if links[b.Link] && !seen[b.Link] {
			seen[b.Link] = true
			out = append(out, b.Label())
		}
	}
	return strings.Join(out, " ")
}

type builderState struct {
	st   *vp.Store
	ls   *ipld.LinkSystem
	pb   cidlink.LinkPrototype
	salt int64
	next int
	dag  *DAG
}

type built struct {
	link   datamodel.Link
	bytes  uint64 // file bytes underneath
	stored uint64 // cumulative stored size
}

// Build stores the blocks of the shape in st. dag-pb blocks are linked with pb (vp.V1 or V0);
// salt varies the content.
func Build(st *vp.Store, notation string, pb cidlink.LinkPrototype, salt int64) (*DAG, error) {
	sh, err := Parse(notation)
	if err != nil {
		return nil, err
	}
	if sh.Kind != '[' {
		return nil, fmt.Errorf("shape %q: the root must be an interior node", notation)
	}
	bs := &builderState{st: st, ls: st.LS(), pb: pb, salt: salt, dag: &DAG{Notation: notation}}
	root, err := bs.build(sh, "root", false)
	if err != nil {
		return nil, err
	}
	bs.dag.Root, bs.dag.Bytes = root.link, root.bytes
	return bs.dag, nil
}

func (bs *builderState) storePB(unixfs data.UnixFSData, kids []built) (datamodel.Link, uint64, error) {
	nb := dagpb.Type.PBNode.NewBuilder()
	ma, err := nb.BeginMap(2)
	if err != nil {
		return nil, 0, err
	}
	la, err := ma.AssembleEntry("Links")
	if err != nil {
		return nil, 0, err
	}
	ll, err := la.BeginList(int64(len(kids)))
	if err != nil {
		return nil, 0, err
	}
	for _, k := range kids {
		e, err := builder.BuildUnixFSDirectoryEntry("", int64(k.stored), k.link)
		if err != nil {
			return nil, 0, err
		}
		if err := ll.AssembleValue().AssignNode(e); err != nil {
			return nil, 0, err
		}
	}
	if err := ll.Finish(); err != nil {
		return nil, 0, err
	}
	if err := ma.AssembleKey().AssignString("Data"); err != nil {
		return nil, 0, err
	}
	if err := ma.AssembleValue().AssignBytes(data.EncodeUnixFSData(unixfs)); err != nil {
		return nil, 0, err
	}
	if err := ma.Finish(); err != nil {
		return nil, 0, err
	}
	l, err := bs.ls.Store(ipld.LinkContext{}, bs.pb, nb.Build())
	if err != nil {
		return nil, 0, err
	}
	raw, _ := bs.st.Raw(l)
	return l, uint64(len(raw)), nil
}

func (bs *builderState) build(s *Shape, path string, leading bool) (built, error) {
	bs.next++
	seq := bs.next
	slot := len(bs.dag.Blocks)
	bs.dag.Blocks = append(bs.dag.Blocks, Block{Path: path, Kind: s.Kind, Leading: leading})
	b, err := bs.buildBlock(s, seq, path, leading)
	if err != nil {
		return built{}, err
	}
	bs.dag.Blocks[slot].Link, bs.dag.Blocks[slot].Bytes = b.link.String(), b.bytes
	return b, nil
}

func (bs *builderState) buildBlock(s *Shape, seq int, path string, leading bool) (built, error) {
	switch s.Kind {
	case 'P', 'R':
		chunk := vp.Content(1+seq%7, bs.salt*1000+int64(seq))
		bs.dag.Content = append(bs.dag.Content, chunk...)
		if s.Kind == 'R' {
			l, err := bs.ls.Store(ipld.LinkContext{}, vp.V1Raw, basicnode.NewBytes(chunk))
			return built{l, uint64(len(chunk)), uint64(len(chunk))}, err
		}
		u, err := builder.BuildUnixFS(func(b *builder.Builder) {
			builder.Data(b, chunk)
			builder.FileSize(b, uint64(len(chunk)))
		})
		if err != nil {
			return built{}, err
		}
		l, sz, err := bs.storePB(u, nil)
		return built{l, uint64(len(chunk)), sz}, err
	case 'e', 'z', 's':
		u, err := builder.BuildUnixFS(func(b *builder.Builder) {
			if s.Kind == 'z' {
				builder.Data(b, []byte{})
			}
			builder.FileSize(b, 0)
			if s.Kind != 's' {
				builder.Mtime(b, func(tb builder.TimeBuilder) { builder.Seconds(tb, int64(seq)) })
			}
		})
		if err != nil {
			return built{}, err
		}
		l, sz, err := bs.storePB(u, nil)
		return built{l, 0, sz}, err
	}
	var kids []built
	var sizes []uint64
	var total, stored uint64
	for i, k := range s.Kids {
		kp := fmt.Sprint(i)
		if path != "root" {
			kp = path + "." + kp
		}
		// leading-empty: no bytes beneath it and none beneath any earlier sibling
		b, err := bs.build(k, kp, leading || (total == 0 && k.Empty()))
		if err != nil {
			return built{}, err
		}
		kids = append(kids, b)
		sizes = append(sizes, b.bytes)
		total += b.bytes
		stored += b.stored
	}
	u, err := builder.BuildUnixFS(func(b *builder.Builder) {
		builder.FileSize(b, total)
		builder.BlockSizes(b, sizes)
	})
	if err != nil {
		return built{}, err
	}
	l, sz, err := bs.storePB(u, kids)
	return built{l, total, stored + sz}, err
}
