package c11

// Symlinks with long targets. A symlink is one dag-pb block: field 1 (Data) holding the UnixFS
// message {Type=Symlink, Data=<target>}, no links. The UnixFS message is 2 bytes of Type, 1 byte of
// tag, a varint length and the target; the block adds 1 byte of tag and a varint length around it.
// Both length prefixes grow from one to two bytes at 128 (target of 124 resp. 121.. bytes) and to
// three at 16384, so "payload + 2" style arithmetic is right for short targets only. The one
// symlink of the main test ("../some/where") is 13 bytes long.
//
//	symlink:len=<n>      BuildUnixFSSymlink with a target of n bytes, n in symlinkLens: the returned
//	                     size is the stored block's length (same check as everywhere: returned size
//	                     == independent tree sum).
//	import:symlinks,plain | sharded | nested
//	                     BuildUnixFSRecursive over a temp tree:
//	                       plain/    one symlink per length in importLens (<= 4000: the file system's
//	                                 limit on a target is 4095 bytes), a small file, a sub-directory
//	                                 with two more long symlinks;
//	                       sharded/  1400 | 5000 entries with names of 200 bytes, so that the
//	                                 directory size estimate passes the 256 KiB threshold and the
//	                                 importer writes a HAMT; entry i is a symlink whose target
//	                                 length cycles through importLens, every 50th a small file;
//	                       ln-*      two long symlinks next to the two directories.
//	                     "plain" imports plain/, "sharded" imports sharded/, "nested" the whole tree.
//	                     Returned size == tree sum; every link's Tsize == cumulative size of its
//	                     target (the importer records what BuildUnixFSSymlink returned).

import (
	"fmt"
	"os"
	"path/filepath"
	"strings"
	"testing"

	"github.com/ipfs/go-unixfsnode/data/builder"
	"github.com/ipld/go-ipld-prime/datamodel"

	"replay/vp"
)

var symlinkLens = []int{0, 1, 5, 100, 122, 123, 124, 125, 127, 128, 200, 310, 4000, 16384, 20000}

// target lengths used on the file system (no empty target, none above PATH_MAX-1)
var importLens = []int{1, 5, 100, 122, 123, 124, 125, 127, 128, 200, 310, 4000}

// target returns a relative path of exactly n bytes made of components of at most 200 bytes (a
// symlink may dangle, but every component has to be a legal name).
func target(n int, salt int) string {
	const alphabet = "abcdefghijklmnopqrstuvwxyz0123456789"
	var sb strings.Builder
	for i := 0; sb.Len() < n; i++ {
		if i > 0 && i%200 == 199 && sb.Len() < n-1 {
			sb.WriteByte('/')
			continue
		}
		sb.WriteByte(alphabet[(i*7+salt)%len(alphabet)])
	}
	return sb.String()
}

func symlinks(t *testing.T, r *vp.Run) {
	for _, n := range symlinkLens {
		id := fmt.Sprintf("symlink:len=%d", n)
		st := vp.NewStore()
		var l datamodel.Link
		var sz uint64
		var err error
		r.Guard(id, func() { l, sz, err = builder.BuildUnixFSSymlink(target(n, n), st.LS()) })
		if err != nil || l == nil {
			r.Eval(id)
			if err == nil {
				err = fmt.Errorf("no link and no error")
			}
			r.Fail(id, "BuildUnixFSSymlink: %v", err)
			continue
		}
		if n == 124 {
			raw, _ := st.Raw(l)
			r.Sample(map[string]any{"case": id, "size": sz, "stored": len(raw)})
		}
		checkFolded(r, id, st, l, sz)
		// the stored block spells the target back
		if tr, err := st.ReadTree(l); err != nil || tr.Kind != "symlink" || string(tr.Content) != target(n, n) {
			t.Fatalf("%s: harness bug or wrong block: stored block is not a symlink to the %d-byte target (err=%v)", id, n, err)
		}
	}

	dir := t.TempDir()
	must := func(err error) {
		if err != nil {
			t.Helper()
			t.Fatalf("preparing the temp tree: %v", err)
		}
	}
	plain, sharded := filepath.Join(dir, "plain"), filepath.Join(dir, "sharded")
	must(os.MkdirAll(filepath.Join(plain, "sub"), 0o755))
	must(os.MkdirAll(sharded, 0o755))
	for _, n := range importLens {
		must(os.Symlink(target(n, n), filepath.Join(plain, fmt.Sprintf("ln-%05d", n))))
	}
	must(os.WriteFile(filepath.Join(plain, "file"), vp.Content(700, 11), 0o644))
	must(os.Symlink(target(124, 1), filepath.Join(plain, "sub", "ln-a")))
	must(os.Symlink(target(3000, 2), filepath.Join(plain, "sub", "ln-b")))
	must(os.Symlink(target(130, 3), filepath.Join(dir, "ln-x")))
	must(os.Symlink(target(4000, 4), filepath.Join(dir, "ln-y")))
	entries := vp.Pick(1400, 5000)
	long := 0
	for i := 0; i < entries; i++ {
		name := fmt.Sprintf("%06d-%s", i, strings.Repeat("n", 193)) // 200 bytes
		if i%50 == 49 {
			must(os.WriteFile(filepath.Join(sharded, name), vp.Content(1+i%90, int64(i)), 0o644))
			continue
		}
		n := importLens[i%len(importLens)]
		if n >= 124 {
			long++
		}
		must(os.Symlink(target(n, i), filepath.Join(sharded, name)))
	}

	for _, c := range []struct {
		label, path string
		hamt        bool
	}{{"plain", plain, false}, {"sharded", sharded, true}, {"nested", dir, false}} {
		id := "import:symlinks," + c.label
		st := vp.NewStore()
		var l datamodel.Link
		var sz uint64
		var err error
		r.Guard(id, func() { l, sz, err = builder.BuildUnixFSRecursive(c.path, st.LS()) })
		if err != nil || l == nil {
			r.Eval(id)
			if err == nil {
				err = fmt.Errorf("no link and no error")
			}
			r.Fail(id, "BuildUnixFSRecursive: %v", err)
			continue
		}
		if tr, err := st.ReadTree(l); err != nil || tr.Kind != "dir" {
			t.Fatalf("%s: harness bug: the import is not a readable directory (err=%v)", id, err)
		} else if tr.Sharded != c.hamt {
			// the case still checks the sizes of whatever was written, but not what it was meant to
			t.Logf("%s: NOTE: root sharded=%v, meant to be %v", id, tr.Sharded, c.hamt)
		}
		if c.label == "sharded" {
			r.Sample(map[string]any{"case": id, "entries": entries, "longSymlinks": long, "size": sz, "blocks": st.Len()})
		}
		checkFolded(r, id, st, l, sz)
	}
}

// checkFolded is check with everything that is wrong about one tree folded into ONE failure (a
// wrong symlink size shows up once per directory level above it).
func checkFolded(r *vp.Run, id string, st *vp.Store, root datamodel.Link, size uint64) {
	r.Eval(id)
	var probs []string
	note := func(f string, a ...any) { probs = append(probs, fmt.Sprintf(f, a...)) }
	func() {
		defer func() {
			if p := recover(); p != nil {
				note("panic: %v", p)
			}
		}()
		s := audit(r, note, st, root, map[string]sums{})
		if s.stored != size {
			// first: this is what the case is named after
			probs = append([]string{fmt.Sprintf("builder returned size %d, stored tree sums to %d", size, s.stored)}, probs...)
		}
	}()
	switch len(probs) {
	case 0:
	case 1:
		r.Fail(id, "%s", probs[0])
	default:
		r.Fail(id, "%s [+%d further inconsistencies, e.g. %s]", probs[0], len(probs)-1, probs[1])
	}
}
