// C11 bounded stand-in: cumulative sizes and declared file sizes equal what is stored.
//
// Bounds (quick | thorough):
//
//	files: width W in {2,3} | {2,3,4,5}, chunker size-4, EVERY chunk count 0..W^3+W (last chunk
//	  short), plus width 174 with 175 and 400 chunks; content from VERIF_SEED (chunks distinct),
//	  case ids "file:W=<w>,n=<n>";
//	repetitive files: the same (W,n) range (n >= 1), last chunk short (n*4-1 bytes) AND full
//	  (n*4 bytes), content classes zeros (all-zero bytes), period<p> for p in 1..4 (chunk i is
//	  pattern[i mod p]) and halves (ceil(n/2) random chunks, then the same chunks again): one
//	  interior node then links the SAME block / the same subtree several times and every
//	  occurrence counts. Case ids "file:W=<w>,n=<n>,content=<class>"; the tail variant goes into
//	  the detail and a failing case prints ONE VP-FAIL line (first inconsistency in full, the
//	  number of further ones and the other failing variant after it);
//	directories: plain and sharded (fanouts {8,256} | {8,16,64,256,1024}) over 1, 7 colliding,
//	  40 and 300 | 3000 entries whose targets are real stored files / symlinks / directories of
//	  different sizes; a nested tree (plain root -> sharded dir -> plain dir -> files) and a
//	  filesystem import of a small temp tree via BuildUnixFSRecursive;
//	symlinks with long targets (symlink_test.go): BuildUnixFSSymlink with targets of 0..20000 bytes
//	  around the points where a length prefix grows ("symlink:len=<n>"), and imports of temp trees
//	  holding such symlinks in plain and in auto-sharded (1400 | 5000 entries) directories
//	  ("import:symlinks,plain|sharded|nested").
//
// Checks, on every dag-pb block reachable from the returned root: Tsize of each link == encoded
// length of the target block + (recursively, NOT de-duplicated) the sums of its links; returned
// size == that sum for the root; for file nodes with links: FileSize == content bytes beneath,
// one BlockSizes entry per link, each == content bytes beneath that child.
// Oracle: vp's protowire walker + gogo unixfs_pb over the stored bytes.
package c11

import (
	"bytes"
	"fmt"
	"os"
	"path/filepath"
	"strings"
	"testing"

	upb "github.com/ipfs/boxo/ipld/unixfs/pb"
	"github.com/ipfs/go-unixfsnode/data/builder"
	dagpb "github.com/ipld/go-codec-dagpb"
	"github.com/ipld/go-ipld-prime/datamodel"

	"replay/vp"
)

type sums struct{ stored, content uint64 }

// audit walks the DAG under l and hands every inconsistency to fail; memoised per block (the
// memo only caches a block's sums: a block linked twice is still ADDED twice by its parent).
func audit(r *vp.Run, fail func(format string, args ...any), st *vp.Store, l datamodel.Link, memo map[string]sums) sums {
	if s, ok := memo[l.String()]; ok {
		return s
	}
	raw, ok := st.Raw(l)
	if !ok {
		fail("block %s is linked but not stored", vp.Short(l.String()))
		return sums{}
	}
	r.Eval("")
	out := sums{stored: uint64(len(raw))}
	if !vp.IsPB(l) {
		out.content = uint64(len(raw))
		memo[l.String()] = out
		return out
	}
	b, err := vp.ParsePB(raw)
	if err != nil {
		fail("block %s: %v", vp.Short(l.String()), err)
		return out
	}
	u, err := b.UnixFS()
	if err != nil {
		fail("block %s: UnixFS data: %v", vp.Short(l.String()), err)
		return out
	}
	isFile := u.GetType() == upb.Data_File || u.GetType() == upb.Data_Raw
	if isFile {
		out.content = uint64(len(u.Data))
		if len(b.Links) > 0 && len(u.Blocksizes) != len(b.Links) {
			fail("file node %s: %d BlockSizes for %d links", vp.Short(l.String()), len(u.Blocksizes), len(b.Links))
		}
	}
	for i, k := range b.Links {
		c := audit(r, fail, st, k.Link(), memo)
		out.stored += c.stored
		if !k.HasTsize || k.Tsize != c.stored {
			fail("block %s link %d (%q): Tsize %d (present=%v), target's cumulative size is %d", vp.Short(l.String()), i, k.Name, k.Tsize, k.HasTsize, c.stored)
		}
		if isFile {
			out.content += c.content
			if i < len(u.Blocksizes) && u.Blocksizes[i] != c.content {
				fail("file node %s: BlockSizes[%d]=%d, child holds %d content bytes", vp.Short(l.String()), i, u.Blocksizes[i], c.content)
			}
		}
	}
	if isFile && len(b.Links) > 0 && (u.Filesize == nil || u.GetFilesize() != out.content) {
		fail("file node %s: FileSize %d (present=%v), %d content bytes beneath", vp.Short(l.String()), u.GetFilesize(), u.Filesize != nil, out.content)
	}
	memo[l.String()] = out
	return out
}

func check(r *vp.Run, id string, st *vp.Store, root datamodel.Link, size uint64, wantContent int) {
	r.Eval(id)
	r.Guard(id, func() {
		s := audit(r, func(f string, a ...any) { r.Fail(id, f, a...) }, st, root, map[string]sums{})
		if s.stored != size {
			r.Fail(id, "builder returned size %d, stored tree sums to %d", size, s.stored)
		}
		if wantContent >= 0 && s.content != uint64(wantContent) {
			r.Fail(id, "tree holds %d content bytes, input had %d", s.content, wantContent)
		}
	})
}

// class generates n chunks of 4 bytes each (the caller cuts a short tail off).
type class struct {
	name string
	gen  func(n int, salt int64) []byte
}

const chunkLen = 4

func periodic(p int) func(n int, salt int64) []byte {
	return func(n int, salt int64) []byte {
		pat := vp.Content(p*chunkLen, salt)
		pat[0] |= 1 // not the zeros class
		for j := 1; j < p; j++ {
			pat[j*chunkLen] = pat[0] + byte(2*j) // the p chunk patterns differ pairwise
		}
		out := make([]byte, 0, n*chunkLen)
		for i := 0; i < n; i++ {
			j := i % p
			out = append(out, pat[j*chunkLen:(j+1)*chunkLen]...)
		}
		return out
	}
}

var classes = []class{
	{"zeros", func(n int, _ int64) []byte { return make([]byte, n*chunkLen) }},
	{"period1", periodic(1)},
	{"period2", periodic(2)},
	{"period3", periodic(3)},
	{"period4", periodic(4)},
	{"halves", func(n int, salt int64) []byte {
		h := vp.Content((n+1)/2*chunkLen, salt)
		return append(append([]byte(nil), h...), h...)[:n*chunkLen]
	}},
}

// checkRepetitive builds the class's content for n chunks with a short and a full last chunk and
// audits both trees; whatever goes wrong is folded into ONE failure for the case id.
func checkRepetitive(r *vp.Run, id string, cl class, w, n int) {
	var first string    // first inconsistency, with its variant
	var more int        // further inconsistencies of that variant
	var others []string // further failing variants
	for _, short := range []int{1, 0} {
		size := n*chunkLen - short
		variant := fmt.Sprintf("len=%d", size)
		r.Eval(id + "," + variant)
		content := cl.gen(n, int64(w*1000+n))[:size]
		var probs []string
		note := func(f string, a ...any) { probs = append(probs, fmt.Sprintf(f, a...)) }
		func() {
			defer func() {
				if p := recover(); p != nil {
					note("panic: %v", p)
				}
			}()
			st := vp.NewStore()
			l, sz, err := builder.BuildUnixFSFile(bytes.NewReader(content), "size-4", st.LS())
			if err != nil {
				note("build error %v", err)
				return
			}
			if w == 2 && n == w*w+1 && short == 0 && cl.name == "zeros" {
				r.Sample(map[string]any{"case": id, "variant": variant, "link": l.String(), "size": sz, "blocks": st.Len()})
			}
			s := audit(r, note, st, l, map[string]sums{})
			if s.stored != sz {
				note("builder returned size %d, stored tree sums to %d", sz, s.stored)
			}
			if s.content != uint64(size) {
				note("tree holds %d content bytes, input had %d", s.content, size)
			}
			if got, _, _, err := st.FileSpans(l); err != nil || !bytes.Equal(got, content) {
				note("stored tree does not spell the input back (err=%v)", err)
			}
		}()
		switch {
		case len(probs) == 0:
		case first == "":
			first, more = variant+": "+probs[0], len(probs)-1
		default:
			others = append(others, fmt.Sprintf("%s (%d inconsistencies)", variant, len(probs)))
		}
	}
	if first == "" {
		return
	}
	if more > 0 {
		first += fmt.Sprintf(" [+%d further inconsistencies]", more)
	}
	if len(others) > 0 {
		first += " [also fails for: " + strings.Join(others, "; ") + "]"
	}
	r.Fail(id, "%s", first)
}

func TestBounded(t *testing.T) {
	r := vp.New(t)
	defer r.Done()
	saved := builder.DefaultLinksPerBlock
	defer func() { builder.DefaultLinksPerBlock = saved }()

	for _, w := range vp.Pick([]int{2, 3, 174}, []int{2, 3, 4, 5, 174}) {
		builder.DefaultLinksPerBlock = w
		var ns []int
		for n := 0; n <= w*w*w+w && w != 174; n++ {
			ns = append(ns, n)
		}
		if w == 174 {
			ns = []int{175, 400}
		}
		for _, n := range ns {
			size := max(n*4-1, 0)
			st := vp.NewStore()
			l, sz, err := builder.BuildUnixFSFile(bytes.NewReader(vp.Content(size, int64(w*1000+n))), "size-4", st.LS())
			if err != nil {
				t.Fatal(err)
			}
			id := fmt.Sprintf("file:W=%d,n=%d", w, n)
			if n == w+1 {
				r.Sample(map[string]any{"case": id, "link": l.String(), "size": sz, "blocks": st.Len()})
			}
			check(r, id, st, l, sz, size)
			for _, cl := range classes {
				if n > 0 {
					checkRepetitive(r, id+",content="+cl.name, cl, w, n)
				}
			}
		}
	}

	builder.DefaultLinksPerBlock = 3
	rng := vp.Rng(11)
	st := vp.NewStore()
	ls := st.LS()
	type tgt struct {
		l  datamodel.Link
		sz uint64
	}
	var targets []tgt
	for _, n := range []int{0, 1, 4, 13, 40} {
		l, sz, err := builder.BuildUnixFSFile(bytes.NewReader(vp.Content(n, int64(n))), "size-4", ls)
		if err != nil {
			t.Fatal(err)
		}
		targets = append(targets, tgt{l, sz})
	}
	sl, ssz, err := builder.BuildUnixFSSymlink("../some/where", ls)
	if err != nil {
		t.Fatal(err)
	}
	targets = append(targets, tgt{sl, ssz})
	check(r, "symlink", st, sl, ssz, -1)
	mk := func(names []string) []dagpb.PBLink {
		var out []dagpb.PBLink
		for i, n := range names {
			tg := targets[i%len(targets)]
			e, err := builder.BuildUnixFSDirectoryEntry(n, int64(tg.sz), tg.l)
			if err != nil {
				t.Fatal(err)
			}
			out = append(out, e)
		}
		return out
	}
	sets := map[string][]string{"one": {"a"}, "collide": append(vp.Colliding(4, 21, rng), vp.Colliding(3, 12, rng)...),
		"rand40": vp.Names(40, rng), "randN": vp.Names(vp.Pick(300, 3000), rng)}
	for _, label := range []string{"one", "collide", "rand40", "randN"} {
		ents := mk(vp.Dedup(sets[label]))
		l, sz, err := builder.BuildUnixFSDirectory(ents, ls)
		if err != nil {
			t.Fatal(err)
		}
		check(r, "plaindir:"+label, st, l, sz, -1)
		targets = append(targets, tgt{l, sz}) // later directories nest earlier ones
		for _, fanout := range vp.Pick([]int{8, 256}, []int{8, 16, 64, 256, 1024}) {
			l, sz, err := builder.BuildUnixFSShardedDirectory(fanout, 0x22, ents, ls)
			if err != nil {
				t.Fatal(err)
			}
			id := fmt.Sprintf("sharded:fanout=%d,%s", fanout, label)
			r.Sample(map[string]any{"case": id, "entries": len(ents), "size": sz})
			check(r, id, st, l, sz, -1)
			targets = append(targets, tgt{l, sz})
		}
	}
	// nested: everything so far under one more plain and one more sharded root
	top := mk(vp.Names(len(targets), rng))
	l, sz, err := builder.BuildUnixFSDirectory(top, ls)
	if err != nil {
		t.Fatal(err)
	}
	check(r, "nested:plain-root", st, l, sz, -1)
	l, sz, err = builder.BuildUnixFSShardedDirectory(16, 0x22, top, ls)
	if err != nil {
		t.Fatal(err)
	}
	check(r, "nested:sharded-root", st, l, sz, -1)

	// filesystem import
	dir := t.TempDir()
	os.MkdirAll(filepath.Join(dir, "sub", "empty"), 0o755)
	os.WriteFile(filepath.Join(dir, "sub", "f1"), vp.Content(50, 1), 0o644)
	os.WriteFile(filepath.Join(dir, "sub", "same"), vp.Content(50, 1), 0o644)
	os.WriteFile(filepath.Join(dir, "zero"), nil, 0o644)
	os.WriteFile(filepath.Join(dir, "big"), vp.Content(300000, 2), 0o644)
	os.Symlink("sub/f1", filepath.Join(dir, "ln"))
	builder.DefaultLinksPerBlock = saved
	st = vp.NewStore()
	l, sz, err = builder.BuildUnixFSRecursive(dir, st.LS())
	if err != nil {
		t.Fatal(err)
	}
	check(r, "recursive:tempdir", st, l, sz, -1)

	symlinks(t, r)
}
