// C11 bounded stand-in: cumulative sizes and declared file sizes equal what is stored.
//
// Bounds (quick | thorough):
//
//	files: width W in {2,3} | {2,3,4,5}, chunker size-4, EVERY chunk count 0..W^3+W (last chunk
//	  short), plus width 174 with 175 and 400 chunks;
//	directories: plain and sharded (fanouts {8,256} | {8,16,64,256,1024}) over 1, 7 colliding,
//	  40 and 300 | 3000 entries whose targets are real stored files / symlinks / directories of
//	  different sizes; a nested tree (plain root -> sharded dir -> plain dir -> files) and a
//	  filesystem import of a small temp tree via BuildUnixFSRecursive.
//
// Checks, on every dag-pb block reachable from the returned root: Tsize of each link == encoded
// length of the target block + (recursively, NOT de-duplicated) the sums of its links; returned
// size == that sum for the root; for file nodes with links: FileSize == content bytes beneath,
// one BlockSizes entry per link, each == content bytes beneath that child.
// Oracle: vp's protowire walker + gogo unixfs_pb over the stored bytes.
package c11

import (
	"bytes"
	"fmt"
	"os"
	"path/filepath"
	"testing"

	upb "github.com/ipfs/boxo/ipld/unixfs/pb"
	"github.com/ipfs/go-unixfsnode/data/builder"
	dagpb "github.com/ipld/go-codec-dagpb"
	"github.com/ipld/go-ipld-prime/datamodel"

	"replay/vp"
)

type sums struct{ stored, content uint64 }

// audit walks the DAG under l and reports every inconsistency; memoised per block.
func audit(r *vp.Run, id string, st *vp.Store, l datamodel.Link, memo map[string]sums) sums {
	if s, ok := memo[l.String()]; ok {
		return s
	}
	raw, ok := st.Raw(l)
	if !ok {
		r.Fail(id, "block %s is linked but not stored", vp.Short(l.String()))
		return sums{}
	}
	r.Eval("")
	out := sums{stored: uint64(len(raw))}
	if !vp.IsPB(l) {
		out.content = uint64(len(raw))
		memo[l.String()] = out
		return out
	}
	b, err := vp.ParsePB(raw)
	if err != nil {
		r.Fail(id, "block %s: %v", vp.Short(l.String()), err)
		return out
	}
	u, err := b.UnixFS()
	if err != nil {
		r.Fail(id, "block %s: UnixFS data: %v", vp.Short(l.String()), err)
		return out
	}
	isFile := u.GetType() == upb.Data_File || u.GetType() == upb.Data_Raw
	if isFile {
		out.content = uint64(len(u.Data))
		if len(b.Links) > 0 && len(u.Blocksizes) != len(b.Links) {
			r.Fail(id, "file node %s: %d BlockSizes for %d links", vp.Short(l.String()), len(u.Blocksizes), len(b.Links))
		}
	}
	for i, k := range b.Links {
		c := audit(r, id, st, k.Link(), memo)
		out.stored += c.stored
		if !k.HasTsize || k.Tsize != c.stored {
			r.Fail(id, "block %s link %d (%q): Tsize %d (present=%v), target's cumulative size is %d", vp.Short(l.String()), i, k.Name, k.Tsize, k.HasTsize, c.stored)
		}
		if isFile {
			out.content += c.content
			if i < len(u.Blocksizes) && u.Blocksizes[i] != c.content {
				r.Fail(id, "file node %s: BlockSizes[%d]=%d, child holds %d content bytes", vp.Short(l.String()), i, u.Blocksizes[i], c.content)
			}
		}
	}
	if isFile && len(b.Links) > 0 && (u.Filesize == nil || u.GetFilesize() != out.content) {
		r.Fail(id, "file node %s: FileSize %d (present=%v), %d content bytes beneath", vp.Short(l.String()), u.GetFilesize(), u.Filesize != nil, out.content)
	}
	memo[l.String()] = out
	return out
}

func check(r *vp.Run, id string, st *vp.Store, root datamodel.Link, size uint64, wantContent int) {
	r.Eval(id)
	r.Guard(id, func() {
		s := audit(r, id, st, root, map[string]sums{})
		if s.stored != size {
			r.Fail(id, "builder returned size %d, stored tree sums to %d", size, s.stored)
		}
		if wantContent >= 0 && s.content != uint64(wantContent) {
			r.Fail(id, "tree holds %d content bytes, input had %d", s.content, wantContent)
		}
	})
}

func TestBounded(t *testing.T) {
	r := vp.New(t)
	defer r.Done()
	saved := builder.DefaultLinksPerBlock
	defer func() { builder.DefaultLinksPerBlock = saved }()

	for _, w := range vp.Pick([]int{2, 3, 174}, []int{2, 3, 4, 5, 174}) {
		builder.DefaultLinksPerBlock = w
		var ns []int
		for n := 0; n <= w*w*w+w && w != 174; n++ {
			ns = append(ns, n)
		}
		if w == 174 {
			ns = []int{175, 400}
		}
		for _, n := range ns {
			size := max(n*4-1, 0)
			st := vp.NewStore()
			l, sz, err := builder.BuildUnixFSFile(bytes.NewReader(vp.Content(size, int64(w*1000+n))), "size-4", st.LS())
			if err != nil {
				t.Fatal(err)
			}
			id := fmt.Sprintf("file:W=%d,n=%d", w, n)
			if n == w+1 {
				r.Sample(map[string]any{"case": id, "link": l.String(), "size": sz, "blocks": st.Len()})
			}
			check(r, id, st, l, sz, size)
		}
	}

	builder.DefaultLinksPerBlock = 3
	rng := vp.Rng(11)
	st := vp.NewStore()
	ls := st.LS()
	type tgt struct {
		l  datamodel.Link
		sz uint64
	}
	var targets []tgt
	for _, n := range []int{0, 1, 4, 13, 40} {
		l, sz, err := builder.BuildUnixFSFile(bytes.NewReader(vp.Content(n, int64(n))), "size-4", ls)
		if err != nil {
			t.Fatal(err)
		}
		targets = append(targets, tgt{l, sz})
	}
	sl, ssz, err := builder.BuildUnixFSSymlink("../some/where", ls)
	if err != nil {
		t.Fatal(err)
	}
	targets = append(targets, tgt{sl, ssz})
	check(r, "symlink", st, sl, ssz, -1)
	mk := func(names []string) []dagpb.PBLink {
		var out []dagpb.PBLink
		for i, n := range names {
			tg := targets[i%len(targets)]
			e, err := builder.BuildUnixFSDirectoryEntry(n, int64(tg.sz), tg.l)
			if err != nil {
				t.Fatal(err)
			}
			out = append(out, e)
		}
		return out
	}
	sets := map[string][]string{"one": {"a"}, "collide": append(vp.Colliding(4, 21, rng), vp.Colliding(3, 12, rng)...),
		"rand40": vp.Names(40, rng), "randN": vp.Names(vp.Pick(300, 3000), rng)}
	for _, label := range []string{"one", "collide", "rand40", "randN"} {
		ents := mk(vp.Dedup(sets[label]))
		l, sz, err := builder.BuildUnixFSDirectory(ents, ls)
		if err != nil {
			t.Fatal(err)
		}
		check(r, "plaindir:"+label, st, l, sz, -1)
		targets = append(targets, tgt{l, sz}) // later directories nest earlier ones
		for _, fanout := range vp.Pick([]int{8, 256}, []int{8, 16, 64, 256, 1024}) {
			l, sz, err := builder.BuildUnixFSShardedDirectory(fanout, 0x22, ents, ls)
			if err != nil {
				t.Fatal(err)
			}
			id := fmt.Sprintf("sharded:fanout=%d,%s", fanout, label)
			r.Sample(map[string]any{"case": id, "entries": len(ents), "size": sz})
			check(r, id, st, l, sz, -1)
			targets = append(targets, tgt{l, sz})
		}
	}
	// nested: everything so far under one more plain and one more sharded root
	top := mk(vp.Names(len(targets), rng))
	l, sz, err := builder.BuildUnixFSDirectory(top, ls)
	if err != nil {
		t.Fatal(err)
	}
	check(r, "nested:plain-root", st, l, sz, -1)
	l, sz, err = builder.BuildUnixFSShardedDirectory(16, 0x22, top, ls)
	if err != nil {
		t.Fatal(err)
	}
	check(r, "nested:sharded-root", st, l, sz, -1)

	// filesystem import
	dir := t.TempDir()
	os.MkdirAll(filepath.Join(dir, "sub", "empty"), 0o755)
	os.WriteFile(filepath.Join(dir, "sub", "f1"), vp.Content(50, 1), 0o644)
	os.WriteFile(filepath.Join(dir, "sub", "same"), vp.Content(50, 1), 0o644)
	os.WriteFile(filepath.Join(dir, "zero"), nil, 0o644)
	os.WriteFile(filepath.Join(dir, "big"), vp.Content(300000, 2), 0o644)
	os.Symlink("sub/f1", filepath.Join(dir, "ln"))
	builder.DefaultLinksPerBlock = saved
	st = vp.NewStore()
	l, sz, err = builder.BuildUnixFSRecursive(dir, st.LS())
	if err != nil {
		t.Fatal(err)
	}
	check(r, "recursive:tempdir", st, l, sz, -1)
}
