// C09 bounded stand-in: UnixFS Data / Metadata / timestamp codec vs boxo's gogo unixfs_pb.
//
// Bounds (quick | thorough):
//
//	grid: 6 data types x 128 presence masks (Data, filesize, blocksizes, hashType, fanout, mode,
//	  mtime) x 7 boundary values {0,1,420/493 (the default modes),2^31,2^32-1,2^63,2^64-1}; each
//	  message marshalled by gogo and decoded here; encoded here and decoded by gogo; canonical
//	  bytes re-encoded; Permissions() before and after a round trip.
//	presentations: 20000 | 1500000 random messages (VERIF_SEED) written by hand with protowire:
//	  random field order (unpacked block sizes interleaved anywhere), BlockSizes packed as one run,
//	  unknown fields 9..40 of every wire type (varint, fixed64, bytes, group, fixed32) at random
//	  positions, non-minimal varints for values and lengths. gogo decodes the same bytes and is the
//	  reference; the library must decode to the same logical message.
//	Metadata (MimeType absent / "" / text / unicode, unknown fields) and IPFSTimestamp messages.
//
// Oracle: gogo-generated github.com/ipfs/boxo/ipld/unixfs/pb.
package c09

import (
	"bytes"
	"fmt"
	"math/rand"
	"sort"
	"testing"

	"github.com/gogo/protobuf/proto"
	pb "github.com/ipfs/boxo/ipld/unixfs/pb"
	"github.com/ipfs/go-unixfsnode/data"
	"google.golang.org/protobuf/encoding/protowire"

	"replay/vp"
)

func u64(v uint64) *uint64 { return &v }

// defaultPerm is the statement's table, not the library's function.
func defaultPerm(t pb.Data_DataType) int {
	switch t {
	case pb.Data_File:
		return 0o644
	case pb.Data_Directory, pb.Data_HAMTShard:
		return 0o755
	}
	return 0
}

// diff compares a decoded node with the reference message field by field.
func diff(d data.UnixFSData, m *pb.Data) string {
	if d.FieldDataType().Int() != int64(m.GetType()) {
		return fmt.Sprintf("DataType %d, ref %d", d.FieldDataType().Int(), m.GetType())
	}
	if d.FieldData().Exists() != (m.Data != nil) {
		return fmt.Sprintf("Data present=%v, ref %v", d.FieldData().Exists(), m.Data != nil)
	}
	if m.Data != nil && !bytes.Equal(d.FieldData().Must().Bytes(), m.Data) {
		return fmt.Sprintf("Data %x, ref %x", d.FieldData().Must().Bytes(), m.Data)
	}
	opt := func(name string, got data.MaybeInt, ref *uint64) string {
		if got.Exists() != (ref != nil) {
			return fmt.Sprintf("%s present=%v, ref %v", name, got.Exists(), ref != nil)
		}
		if ref != nil && uint64(got.Must().Int()) != *ref {
			return fmt.Sprintf("%s %d, ref %d", name, uint64(got.Must().Int()), *ref)
		}
		return ""
	}
	if s := opt("FileSize", d.FieldFileSize(), m.Filesize); s != "" {
		return s
	}
	if s := opt("HashType", d.FieldHashType(), m.HashType); s != "" {
		return s
	}
	if s := opt("Fanout", d.FieldFanout(), m.Fanout); s != "" {
		return s
	}
	var mode *uint64
	if m.Mode != nil {
		mode = u64(uint64(*m.Mode))
	}
	if s := opt("Mode", d.FieldMode(), mode); s != "" {
		return s
	}
	if d.FieldBlockSizes().Length() != int64(len(m.Blocksizes)) {
		return fmt.Sprintf("%d BlockSizes, ref %d", d.FieldBlockSizes().Length(), len(m.Blocksizes))
	}
	for i, v := range m.Blocksizes {
		if got := uint64(d.FieldBlockSizes().Lookup(int64(i)).Int()); got != v {
			return fmt.Sprintf("BlockSizes[%d]=%d, ref %d", i, got, v)
		}
	}
	if d.FieldMtime().Exists() != (m.Mtime != nil) {
		return fmt.Sprintf("Mtime present=%v, ref %v", d.FieldMtime().Exists(), m.Mtime != nil)
	}
	if m.Mtime != nil {
		mt := d.FieldMtime().Must()
		if mt.FieldSeconds().Int() != m.Mtime.GetSeconds() {
			return fmt.Sprintf("Mtime.Seconds %d, ref %d", mt.FieldSeconds().Int(), m.Mtime.GetSeconds())
		}
		if mt.FieldFractionalNanoseconds().Exists() != (m.Mtime.Nanos != nil) {
			return fmt.Sprintf("Mtime.Nanos present=%v, ref %v", mt.FieldFractionalNanoseconds().Exists(), m.Mtime.Nanos != nil)
		}
		if m.Mtime.Nanos != nil && uint32(mt.FieldFractionalNanoseconds().Must().Int()) != *m.Mtime.Nanos {
			return fmt.Sprintf("Mtime.Nanos %d, ref %d", mt.FieldFractionalNanoseconds().Must().Int(), *m.Mtime.Nanos)
		}
	}
	return ""
}

// roundTrip checks decode, library-encode -> gogo, canonical re-encode and permissions for the
// wire bytes enc whose reference meaning is m.
func roundTrip(r *vp.Run, id string, enc []byte, m *pb.Data, canonical bool) {
	r.Guard(id, func() {
		d, err := data.DecodeUnixFSData(enc)
		if err != nil {
			r.Fail(id, "decode of %x failed: %v", enc, err)
			return
		}
		if s := diff(d, m); s != "" {
			r.Fail(id, "decode of %x: %s", enc, s)
			return
		}
		wantPerm := defaultPerm(m.GetType())
		if m.Mode != nil {
			wantPerm = int(*m.Mode & 0xFFF)
		}
		if d.Permissions() != wantPerm {
			r.Fail(id, "Permissions()=%o, want %o", d.Permissions(), wantPerm)
		}
		re := data.EncodeUnixFSData(d)
		var back pb.Data
		if err := proto.Unmarshal(re, &back); err != nil {
			r.Fail(id, "gogo cannot decode library encoding %x: %v", re, err)
			return
		}
		want := proto.Clone(m).(*pb.Data)
		want.XXX_unrecognized = nil
		if want.Mtime != nil {
			want.Mtime.XXX_unrecognized = nil
		}
		elided := want.Mode != nil && int(*want.Mode) == defaultPerm(m.GetType())
		if elided {
			want.Mode = nil
		}
		if !proto.Equal(want, &back) {
			r.Fail(id, "library encoding %x means %v to gogo, want %v", re, &back, want)
			return
		}
		d2, err := data.DecodeUnixFSData(re)
		if err != nil {
			r.Fail(id, "library cannot decode its own encoding %x: %v", re, err)
			return
		}
		if d2.Permissions() != wantPerm {
			r.Fail(id, "Permissions() after round trip %o, want %o", d2.Permissions(), wantPerm)
		}
		if re2 := data.EncodeUnixFSData(d2); !bytes.Equal(re2, re) {
			r.Fail(id, "re-encoding is not stable: %x then %x", re, re2)
		}
		if canonical && !elided && !bytes.Equal(re, enc) {
			r.Fail(id, "canonical bytes %x re-encode to %x", enc, re)
		}
	})
}

func varint(b []byte, v uint64, pad int) []byte {
	start := len(b)
	b = protowire.AppendVarint(b, v)
	for i := 0; i < pad && len(b)-start < 10; i++ {
		b[len(b)-1] |= 0x80
		b = append(b, 0)
	}
	return b
}

// fields renders each field of m as separate wire fragments.
func fields(m *pb.Data, packed bool, rng *rand.Rand, padProb int) [][]byte {
	pad := func() int {
		if padProb > 0 && rng.Intn(padProb) == 0 {
			return 1 + rng.Intn(3)
		}
		return 0
	}
	vi := func(num protowire.Number, v uint64) []byte {
		return varint(protowire.AppendTag(nil, num, protowire.VarintType), v, pad())
	}
	by := func(num protowire.Number, v []byte) []byte {
		b := varint(protowire.AppendTag(nil, num, protowire.BytesType), uint64(len(v)), pad())
		return append(b, v...)
	}
	out := [][]byte{vi(1, uint64(m.GetType()))}
	if m.Data != nil {
		out = append(out, by(2, m.Data))
	}
	if m.Filesize != nil {
		out = append(out, vi(3, *m.Filesize))
	}
	if packed && len(m.Blocksizes) > 0 {
		var run []byte
		for _, v := range m.Blocksizes {
			run = varint(run, v, pad())
		}
		out = append(out, by(4, run))
	} else {
		for _, v := range m.Blocksizes {
			out = append(out, vi(4, v))
		}
	}
	if m.HashType != nil {
		out = append(out, vi(5, *m.HashType))
	}
	if m.Fanout != nil {
		out = append(out, vi(6, *m.Fanout))
	}
	if m.Mode != nil {
		out = append(out, vi(7, uint64(*m.Mode)))
	}
	if m.Mtime != nil {
		parts := [][]byte{vi(1, uint64(m.Mtime.GetSeconds()))}
		if m.Mtime.Nanos != nil {
			parts = append(parts, protowire.AppendFixed32(protowire.AppendTag(nil, 2, protowire.Fixed32Type), *m.Mtime.Nanos))
		}
		if rng.Intn(3) == 0 {
			parts = append(parts, unknown(rng))
		}
		rng.Shuffle(len(parts), func(i, j int) { parts[i], parts[j] = parts[j], parts[i] })
		out = append(out, by(8, bytes.Join(parts, nil)))
	}
	return out
}

func unknown(rng *rand.Rand) []byte {
	num := protowire.Number(9 + rng.Intn(32))
	switch rng.Intn(5) {
	case 0:
		return protowire.AppendVarint(protowire.AppendTag(nil, num, protowire.VarintType), rng.Uint64())
	case 1:
		return protowire.AppendFixed64(protowire.AppendTag(nil, num, protowire.Fixed64Type), rng.Uint64())
	case 2:
		return protowire.AppendBytes(protowire.AppendTag(nil, num, protowire.BytesType), []byte("zz\x08\x01"))
	case 3:
		b := protowire.AppendTag(nil, num, protowire.StartGroupType)
		if rng.Intn(2) == 0 {
			b = protowire.AppendVarint(protowire.AppendTag(b, 1, protowire.VarintType), 7)
		}
		return protowire.AppendTag(b, num, protowire.EndGroupType)
	}
	return protowire.AppendFixed32(protowire.AppendTag(nil, num, protowire.Fixed32Type), rng.Uint32())
}

var boundary = []uint64{0, 1, 0o644, 0o755, 1 << 31, 1<<32 - 1, 1 << 63, 1<<64 - 1}

func randomMsg(rng *rand.Rand) *pb.Data {
	val := func() uint64 {
		switch rng.Intn(3) {
		case 0:
			return boundary[rng.Intn(len(boundary))]
		case 1:
			return uint64(rng.Intn(70000))
		}
		return rng.Uint64()
	}
	m := &pb.Data{}
	ty := pb.Data_DataType(rng.Intn(6))
	m.Type = &ty
	if rng.Intn(2) == 0 {
		m.Data = make([]byte, rng.Intn(5))
		rng.Read(m.Data)
	}
	if rng.Intn(2) == 0 {
		m.Filesize = u64(val())
	}
	for n := rng.Intn(5) * rng.Intn(2); n > 0; n-- {
		m.Blocksizes = append(m.Blocksizes, val())
	}
	if rng.Intn(2) == 0 {
		m.HashType = u64(val())
	}
	if rng.Intn(2) == 0 {
		m.Fanout = u64(val())
	}
	if rng.Intn(2) == 0 {
		mode := uint32(val())
		m.Mode = &mode
	}
	if rng.Intn(2) == 0 {
		secs := int64(val())
		m.Mtime = &pb.IPFSTimestamp{Seconds: &secs}
		if rng.Intn(2) == 0 {
			nn := uint32(val() % 1000000000)
			m.Mtime.Nanos = &nn
		}
	}
	return m
}

func TestBounded(t *testing.T) {
	r := vp.New(t)
	defer r.Done()

	for typ := int32(0); typ < 6; typ++ {
		for mask := 0; mask < 128; mask++ {
			for vi, v := range boundary {
				m := &pb.Data{}
				ty := pb.Data_DataType(typ)
				m.Type = &ty
				if mask&1 != 0 {
					m.Data = []byte{byte(vi), 2, 3}
				}
				if mask&2 != 0 {
					m.Filesize = u64(v)
				}
				if mask&4 != 0 {
					m.Blocksizes = []uint64{v, 0, 300}
				}
				if mask&8 != 0 {
					m.HashType = u64(v)
				}
				if mask&16 != 0 {
					m.Fanout = u64(v)
				}
				if mask&32 != 0 {
					mode := uint32(v)
					m.Mode = &mode
				}
				if mask&64 != 0 {
					secs := int64(v)
					m.Mtime = &pb.IPFSTimestamp{Seconds: &secs}
					if vi%2 == 0 {
						nn := uint32(v % 1000000000)
						m.Mtime.Nanos = &nn
					}
				}
				enc, err := proto.Marshal(m)
				if err != nil {
					t.Fatal(err)
				}
				id := fmt.Sprintf("grid:type=%d,mask=%07b,v=%d", typ, mask, v)
				r.Eval(id)
				roundTrip(r, id, enc, m, true)
				if mask == 0b1100101 && vi == 2 && typ == 2 {
					r.Sample(map[string]any{"case": id, "wire": fmt.Sprintf("%x", enc)})
				}
			}
		}
	}

	rng := vp.Rng(9)
	for i := 0; i < vp.Pick(20000, 1500000); i++ {
		m := randomMsg(rng)
		style := i % 4 // 0 permuted, 1 +packed, 2 +unknown fields, 3 +non-minimal varints
		padProb := 0
		if style == 3 {
			padProb = 2
		}
		parts := fields(m, style >= 1 && rng.Intn(2) == 0, rng, padProb)
		seq := map[*byte]int{} // original position of each fragment
		for k, p := range parts {
			seq[&p[0]] = k
		}
		if style >= 2 {
			for k := rng.Intn(4); k >= 0; k-- {
				parts = append(parts, unknown(rng))
			}
		}
		rng.Shuffle(len(parts), func(a, b int) { parts[a], parts[b] = parts[b], parts[a] })
		// repeated elements keep their relative order wherever they end up
		var bsAt []int
		var bs [][]byte
		for k, p := range parts {
			if p[0] == 4<<3|0 {
				bsAt, bs = append(bsAt, k), append(bs, p)
			}
		}
		sort.Slice(bs, func(a, b int) bool { return seq[&bs[a][0]] < seq[&bs[b][0]] })
		for k, at := range bsAt {
			parts[at] = bs[k]
		}
		wire := bytes.Join(parts, nil)
		var ref pb.Data
		if err := proto.Unmarshal(wire, &ref); err != nil {
			t.Fatalf("harness: gogo rejects hand-written wire %x: %v", wire, err)
		}
		// gogo is the reference, but it must agree with what was written
		m.XXX_unrecognized, ref.XXX_unrecognized = nil, nil
		if ref.Mtime != nil {
			ref.Mtime.XXX_unrecognized = nil
		}
		if !proto.Equal(m, &ref) {
			t.Fatalf("harness: wire %x means %v to gogo, written from %v", wire, &ref, m)
		}
		id := fmt.Sprintf("wire:%x", wire)
		r.Eval(id)
		roundTrip(r, id, wire, &ref, false)
		if i < 4 {
			r.Sample(map[string]any{"style": style, "wire": fmt.Sprintf("%x", wire), "msg": ref.String()})
		}
	}

	// Metadata and timestamp messages
	for i, mt := range []*string{nil, ptr(""), ptr("text/plain"), ptr("application/é世界")} {
		for _, extra := range []bool{false, true} {
			m := &pb.Metadata{MimeType: mt}
			enc, _ := proto.Marshal(m)
			if extra {
				enc = append(unknown(rng), append(enc, unknown(rng)...)...)
			}
			id := fmt.Sprintf("metadata:%d,unknown=%v", i, extra)
			r.Eval(id)
			r.Guard(id, func() {
				d, err := data.DecodeUnixFSMetadata(enc)
				if err != nil {
					r.Fail(id, "decode %x: %v", enc, err)
					return
				}
				if d.FieldMimeType().Exists() != (mt != nil) || (mt != nil && d.FieldMimeType().Must().String() != *mt) {
					r.Fail(id, "decode %x: MimeType differs from %v", enc, mt)
				}
				var back pb.Metadata
				if err := proto.Unmarshal(data.EncodeUnixFSMetadata(d), &back); err != nil || !proto.Equal(&back, m) {
					r.Fail(id, "encode: gogo reads %v err=%v, want %v", &back, err, m)
				}
			})
		}
	}
	for _, secs := range []int64{0, 1, -1, 1 << 40, -1 << 63, 1<<63 - 1} {
		for _, nanos := range []*uint32{nil, ptr(uint32(0)), ptr(uint32(999999999))} {
			s := secs
			m := &pb.IPFSTimestamp{Seconds: &s, Nanos: nanos}
			enc, _ := proto.Marshal(m)
			id := fmt.Sprintf("time:%d,%v", secs, nanos != nil)
			r.Eval(id)
			r.Guard(id, func() {
				d, err := data.DecodeUnixTime(enc)
				if err != nil {
					r.Fail(id, "decode %x: %v", enc, err)
					return
				}
				if d.FieldSeconds().Int() != secs || d.FieldFractionalNanoseconds().Exists() != (nanos != nil) ||
					(nanos != nil && uint32(d.FieldFractionalNanoseconds().Must().Int()) != *nanos) {
					r.Fail(id, "decode %x differs from %v", enc, m)
				}
				if re := data.AppendEncodeUnixTime(nil, d); !bytes.Equal(re, enc) {
					r.Fail(id, "canonical bytes %x re-encode to %x", enc, re)
				}
			})
		}
	}
}

func ptr[T any](v T) *T { return &v }
