// C10 bounded stand-in: builders are functions of the logical input.
//
// Bounds (quick | thorough):
//
//	directories: entry sets {1, colliding(7), 9, 60, 300} | + {2000}; for each, 6 | 30 random
//	  permutations (VERIF_SEED) plus the reversed order, built with BuildUnixFSDirectory, with
//	  BuildUnixFSShardedDirectory for fanouts {8,256} | {8,16,64,256,1024}, and through the quick
//	  builder's map (Go map order) -> link and size identical to the first build; a second store
//	  gets the same result (repeated build).
//	files: widths {2,3,174}; chunkers size-4 (lengths 0..41), size-7, rabin-16-32-64 (3000 bytes),
//	  default "" (300000 bytes) | + buzhash (700000 bytes), size-262144 (600001 bytes); readers:
//	  bytes.Reader (baseline), iotest.OneByteReader, HalfReader, DataErrReader, a random fragmenter
//	  (1..9 byte reads, 5 | 40 draws) -> link and size identical to the baseline.
package c10

import (
	"bytes"
	"fmt"
	"io"
	"math/rand"
	"testing"
	"testing/iotest"

	"github.com/ipfs/go-unixfsnode/data/builder"
	quick "github.com/ipfs/go-unixfsnode/data/builder/quick"
	dagpb "github.com/ipld/go-codec-dagpb"
	"github.com/ipld/go-ipld-prime"
	"github.com/ipld/go-ipld-prime/datamodel"
	cidlink "github.com/ipld/go-ipld-prime/linking/cid"

	"replay/vp"
)

type frag struct {
	r   io.Reader
	rng *rand.Rand
}

func (f *frag) Read(p []byte) (int, error) {
	if len(p) == 0 {
		return 0, nil
	}
	k := 1 + f.rng.Intn(9)
	if k > len(p) {
		k = len(p)
	}
	return f.r.Read(p[:k])
}

type result struct {
	link string
	size uint64
	err  string
}

func res(l datamodel.Link, sz uint64, err error) result {
	if err != nil {
		return result{err: err.Error()}
	}
	return result{link: l.String(), size: sz}
}

func TestBounded(t *testing.T) {
	r := vp.New(t)
	defer r.Done()
	saved := builder.DefaultLinksPerBlock
	defer func() { builder.DefaultLinksPerBlock = saved }()
	rng := vp.Rng(10)

	sets := map[string][]string{
		"one":     {"a"},
		"collide": append(vp.Colliding(4, 21, rng), vp.Colliding(3, 12, rng)...),
		"rand9":   vp.Names(9, rng),
		"rand60":  vp.Names(60, rng),
		"rand300": vp.Names(300, rng),
	}
	if vp.Thorough() {
		sets["rand2000"] = vp.Names(2000, rng)
	}
	for _, label := range []string{"one", "collide", "rand9", "rand60", "rand300", "rand2000"} {
		names, ok := sets[label]
		if !ok {
			continue
		}
		names = vp.Dedup(names)
		ents := make([]dagpb.PBLink, len(names))
		for i, n := range names {
			c, _ := vp.V1Raw.Prefix.Sum([]byte(n))
			ents[i], _ = builder.BuildUnixFSDirectoryEntry(n, int64(i*13+1), cidlink.Link{Cid: c})
		}
		type variant struct {
			name  string
			build func(es []dagpb.PBLink, ls *ipld.LinkSystem) result
		}
		variants := []variant{{"plain", func(es []dagpb.PBLink, ls *ipld.LinkSystem) result { return res(builder.BuildUnixFSDirectory(es, ls)) }}}
		for _, fanout := range vp.Pick([]int{8, 256}, []int{8, 16, 64, 256, 1024}) {
			fanout := fanout
			variants = append(variants, variant{fmt.Sprintf("sharded%d", fanout), func(es []dagpb.PBLink, ls *ipld.LinkSystem) result {
				return res(builder.BuildUnixFSShardedDirectory(fanout, 0x22, es, ls))
			}})
		}
		for _, v := range variants {
			base := v.build(ents, vp.NewStore().LS())
			if base.err != "" {
				t.Fatalf("%s/%s: %s", label, v.name, base.err)
			}
			id := fmt.Sprintf("dir:%s,%s", v.name, label)
			r.Sample(map[string]any{"case": id, "entries": len(ents), "link": base.link, "size": base.size})
			for p := -2; p < vp.Pick(6, 30); p++ {
				es := append([]dagpb.PBLink(nil), ents...)
				switch {
				case p == -2: // same order, fresh store: repeated build
				case p == -1:
					for i, j := 0, len(es)-1; i < j; i, j = i+1, j-1 {
						es[i], es[j] = es[j], es[i]
					}
				default:
					rng.Shuffle(len(es), func(i, j int) { es[i], es[j] = es[j], es[i] })
				}
				r.Eval(fmt.Sprintf("%s,perm=%d", id, p))
				r.Guard(id, func() {
					if got := v.build(es, vp.NewStore().LS()); got != base {
						r.Fail(id, "permutation %d gives %+v, first build gave %+v", p, got, base)
					}
				})
			}
		}
		// quick builder: Go map iteration order varies between runs
		var qbase result
		for rep := 0; rep < vp.Pick(4, 12); rep++ {
			id := fmt.Sprintf("dir:quick,%s", label)
			r.Eval(fmt.Sprintf("%s,rep=%d", id, rep))
			var got result
			_ = quick.Store(vp.NewStore().LS(), func(b *quick.Builder) error {
				m := map[string]quick.Node{}
				for i, n := range names {
					m[n] = b.NewBytesFile([]byte{byte(i % 3)})
				}
				d := b.NewMapDirectory(m)
				sz, _ := d.Size()
				got = result{link: d.Link().String(), size: uint64(sz)}
				return nil
			})
			if rep == 0 {
				qbase = got
			} else if got != qbase {
				r.Fail(id, "repetition %d gives %+v, first build gave %+v", rep, got, qbase)
			}
		}
	}

	type fcase struct {
		chunker string
		size    int
	}
	var fcases []fcase
	for n := 0; n <= 41; n++ {
		fcases = append(fcases, fcase{"size-4", n})
	}
	fcases = append(fcases, fcase{"size-7", 100}, fcase{"rabin-16-32-64", 3000}, fcase{"", 300000})
	if vp.Thorough() {
		fcases = append(fcases, fcase{"buzhash", 700000}, fcase{"size-262144", 600001})
	}
	for _, w := range []int{2, 3, 174} {
		builder.DefaultLinksPerBlock = w
		for _, fc := range fcases {
			if fc.size > 10000 && w == 3 {
				continue
			}
			content := vp.Content(fc.size, int64(fc.size))
			id := fmt.Sprintf("file:W=%d,chunker=%q,len=%d", w, fc.chunker, fc.size)
			base := res(builder.BuildUnixFSFile(bytes.NewReader(content), fc.chunker, vp.NewStore().LS()))
			if base.err != "" {
				t.Fatalf("%s: %s", id, base.err)
			}
			readers := map[string]func() io.Reader{
				"repeat":  func() io.Reader { return bytes.NewReader(content) },
				"onebyte": func() io.Reader { return iotest.OneByteReader(bytes.NewReader(content)) },
				"half":    func() io.Reader { return iotest.HalfReader(bytes.NewReader(content)) },
				"dataerr": func() io.Reader { return iotest.DataErrReader(bytes.NewReader(content)) },
				"buffered": func() io.Reader {
					return io.MultiReader(bytes.NewReader(content[:len(content)/2]), bytes.NewReader(content[len(content)/2:]))
				},
			}
			draws := vp.Pick(5, 40)
			if fc.size > 10000 {
				draws = 1
				delete(readers, "onebyte")
			}
			for d := 0; d < draws; d++ {
				seed := rng.Int63()
				readers[fmt.Sprintf("frag#%d", d)] = func() io.Reader {
					return &frag{bytes.NewReader(content), rand.New(rand.NewSource(seed))}
				}
			}
			for name, mk := range readers {
				r.Eval(id + "," + name)
				r.Guard(id, func() {
					if got := res(builder.BuildUnixFSFile(mk(), fc.chunker, vp.NewStore().LS())); got != base {
						r.Fail(id, "reader %s gives %+v, bytes.Reader gave %+v", name, got, base)
					}
				})
			}
		}
	}
}
