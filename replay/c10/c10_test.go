// C10 bounded stand-in: builders are functions of the logical input.
//
// Bounds (quick | thorough):
//
//	directories: entry sets {1, colliding(7), 9, 60, 300} | + {2000}; for each, 6 | 30 random
//	  permutations (VERIF_SEED) plus the reversed order, built with BuildUnixFSDirectory, with
//	  BuildUnixFSShardedDirectory for fanouts {8,256} | {8,16,64,256,1024}, and through the quick
//	  builder's map (Go map order) -> link and size identical to the first build; a second store
//	  gets the same result (repeated build).
//	sharded directories with other HAMT hash functions: hashers murmur3 (0x22), sha2-256 (0x12),
//	  sha2-512 (0x13), sha3-256 (0x16), blake2b-256 (0xb220), blake3 (0x1e) - those that
//	  multihash.GetHasher rejects are skipped, 0x12 must exist - x fanouts {8,16,256,1024} x entry
//	  counts {2,3,17,150}; for each: the same order into a fresh store ("repeat"), for n <= 3
//	  EVERY other permutation, else the reversed order and 6 | 30 random permutations -> link and
//	  size identical to the first build. Only builder outputs are compared (the HAMT reader need
//	  not accept these hashers). One case per permutation:
//	  "sharded:hasher=0x<code>,fanout=<f>,n=<n>,repeat|reversed|perm#<k>".
//	files: widths {2,3,174}; chunkers size-4 (lengths 0..41), size-7, rabin-16-32-64 (3000 bytes),
//	  default "" (300000 bytes) | + buzhash (700000 bytes), size-262144 (600001 bytes); readers:
//	  bytes.Reader (baseline), iotest.OneByteReader, HalfReader, DataErrReader, a random fragmenter
//	  (1..9 byte reads, 5 | 40 draws) -> link and size identical to the baseline.
package c10

import (
	"bytes"
	"fmt"
	"io"
	"math/rand"
	"testing"
	"testing/iotest"

	"github.com/ipfs/go-unixfsnode/data/builder"
	quick "github.com/ipfs/go-unixfsnode/data/builder/quick"
	dagpb "github.com/ipld/go-codec-dagpb"
	"github.com/ipld/go-ipld-prime"
	"github.com/ipld/go-ipld-prime/datamodel"
	cidlink "github.com/ipld/go-ipld-prime/linking/cid"
	"github.com/multiformats/go-multihash"

	"replay/vp"
)

type frag struct {
	r   io.Reader
	rng *rand.Rand
}

func (f *frag) Read(p []byte) (int, error) {
	if len(p) == 0 {
		return 0, nil
	}
	k := 1 + f.rng.Intn(9)
	if k > len(p) {
		k = len(p)
	}
	return f.r.Read(p[:k])
}

type result struct {
	link string
	size uint64
	err  string
}

func res(l datamodel.Link, sz uint64, err error) result {
	if err != nil {
		return result{err: err.Error()}
	}
	return result{link: l.String(), size: sz}
}

// permutations returns every permutation of 0..n-1 in lexicographic order (identity first).
func permutations(n int) [][]int {
	var out [][]int
	var rec func(cur []int, used []bool)
	rec = func(cur []int, used []bool) {
		if len(cur) == n {
			out = append(out, append([]int(nil), cur...))
			return
		}
		for i := 0; i < n; i++ {
			if !used[i] {
				used[i] = true
				rec(append(cur, i), used)
				used[i] = false
			}
		}
	}
	rec(nil, make([]bool, n))
	return out
}

// hasherCases: BuildUnixFSShardedDirectory with every available HAMT hash function is a function
// of the SET of entries: order of the entries and earlier builds do not matter.
func hasherCases(t *testing.T, r *vp.Run) {
	rng := vp.Rng(1010) // own stream: the draws of the older cases stay what they were
	hashers := []uint64{0x22}
	for _, code := range []uint64{multihash.SHA2_256, multihash.SHA2_512, multihash.SHA3_256, multihash.BLAKE2B_MIN + 31, multihash.BLAKE3} {
		if _, err := multihash.GetHasher(code); err != nil {
			if code == multihash.SHA2_256 {
				t.Fatalf("multihash.GetHasher(sha2-256): %v", err)
			}
			t.Logf("hasher 0x%x not available, skipped: %v", code, err)
			continue
		}
		hashers = append(hashers, code)
	}
	for _, n := range []int{2, 3, 17, 150} {
		names := vp.Names(n, rng)
		ents := make([]dagpb.PBLink, n)
		for i, nm := range names {
			c, _ := vp.V1Raw.Prefix.Sum([]byte(nm))
			ents[i], _ = builder.BuildUnixFSDirectoryEntry(nm, int64(i*13+1), cidlink.Link{Cid: c})
		}
		// the orders to try, shared by every hasher and fanout
		type order struct {
			name string
			idx  []int
		}
		ident := make([]int, n)
		for i := range ident {
			ident[i] = i
		}
		orders := []order{{"repeat", ident}}
		if n <= 3 {
			for k, p := range permutations(n)[1:] {
				orders = append(orders, order{fmt.Sprintf("perm#%d", k+1), p})
			}
		} else {
			rev := make([]int, n)
			for i := range rev {
				rev[i] = n - 1 - i
			}
			orders = append(orders, order{"reversed", rev})
			for k := 0; k < vp.Pick(6, 30); k++ {
				orders = append(orders, order{fmt.Sprintf("perm#%d", k), rng.Perm(n)})
			}
		}
		for _, code := range hashers {
			for _, fanout := range []int{8, 16, 256, 1024} {
				cfg := fmt.Sprintf("sharded:hasher=0x%x,fanout=%d,n=%d", code, fanout, n)
				base := res(builder.BuildUnixFSShardedDirectory(fanout, code, ents, vp.NewStore().LS()))
				if base.err != "" {
					if code == 0x22 || code == multihash.SHA2_256 {
						t.Fatalf("%s: %s", cfg, base.err)
					}
					t.Logf("%s: first build fails (%s), skipped", cfg, base.err)
					continue
				}
				for _, o := range orders {
					id := cfg + "," + o.name
					es := make([]dagpb.PBLink, n)
					for i, j := range o.idx {
						es[i] = ents[j]
					}
					r.Eval(id)
					r.Guard(id, func() {
						if got := res(builder.BuildUnixFSShardedDirectory(fanout, code, es, vp.NewStore().LS())); got != base {
							r.Fail(id, "entry order %v... gives %+v, first build (order 0,1,2,...) gave %+v", o.idx[:min(n, 6)], got, base)
						}
					})
				}
			}
		}
	}
}

func TestBounded(t *testing.T) {
	r := vp.New(t)
	defer r.Done()
	saved := builder.DefaultLinksPerBlock
	defer func() { builder.DefaultLinksPerBlock = saved }()
	rng := vp.Rng(10)

	sets := map[string][]string{
		"one":     {"a"},
		"collide": append(vp.Colliding(4, 21, rng), vp.Colliding(3, 12, rng)...),
		"rand9":   vp.Names(9, rng),
		"rand60":  vp.Names(60, rng),
		"rand300": vp.Names(300, rng),
		// two distinct names with the SAME 64-bit murmur3 digest (f5016fd5450e4616): no depth of
		// sharding separates them, so the sharded builder must give the same outcome (today: the
		// same "too deep" error) whichever comes first -- never keep one and drop the other
		"fullcollision": append(vp.Names(9, rng), "report-2024.docx", "]?A?U>}>0,raHb:v"),
	}
	if vp.Thorough() {
		sets["rand2000"] = vp.Names(2000, rng)
	}
	for _, label := range []string{"one", "collide", "fullcollision", "rand9", "rand60", "rand300", "rand2000"} {
		names, ok := sets[label]
		if !ok {
			continue
		}
		names = vp.Dedup(names)
		ents := make([]dagpb.PBLink, len(names))
		for i, n := range names {
			// targets hashed with different functions (every third one sha2-512): the directory's own
			// link must not depend on which of them comes first
			pfx := vp.V1Raw.Prefix
			if i%3 == 1 {
				pfx.MhType, pfx.MhLength = 0x13, 64
			}
			c, _ := pfx.Sum([]byte(n))
			ents[i], _ = builder.BuildUnixFSDirectoryEntry(n, int64(i*13+1), cidlink.Link{Cid: c})
		}
		type variant struct {
			name  string
			build func(es []dagpb.PBLink, ls *ipld.LinkSystem) result
		}
		variants := []variant{{"plain", func(es []dagpb.PBLink, ls *ipld.LinkSystem) result { return res(builder.BuildUnixFSDirectory(es, ls)) }}}
		for _, fanout := range vp.Pick([]int{8, 256}, []int{8, 16, 64, 256, 1024}) {
			fanout := fanout
			variants = append(variants, variant{fmt.Sprintf("sharded%d", fanout), func(es []dagpb.PBLink, ls *ipld.LinkSystem) result {
				return res(builder.BuildUnixFSShardedDirectory(fanout, 0x22, es, ls))
			}})
		}
		for _, v := range variants {
			st0 := vp.NewStore()
			base := v.build(ents, st0.LS())
			if base.err != "" && label != "fullcollision" {
				t.Fatalf("%s/%s: %s", label, v.name, base.err)
			}
			id := fmt.Sprintf("dir:%s,%s", v.name, label)
			r.Sample(map[string]any{"case": id, "entries": len(ents), "link": base.link, "size": base.size})
			for p := -3; p < vp.Pick(6, 30); p++ {
				es := append([]dagpb.PBLink(nil), ents...)
				if p == -3 { // same order, into the store that already holds every block of the first build
					r.Eval(fmt.Sprintf("%s,perm=again-same-store", id))
					r.Guard(id, func() {
						if got := v.build(es, st0.LS()); got != base {
							r.Fail(id, "a second build into the same store gives %+v, the first build gave %+v", got, base)
						}
					})
					continue
				}
				switch {
				case p == -2: // same order, fresh store: repeated build
				case p == -1:
					for i, j := 0, len(es)-1; i < j; i, j = i+1, j-1 {
						es[i], es[j] = es[j], es[i]
					}
				default:
					rng.Shuffle(len(es), func(i, j int) { es[i], es[j] = es[j], es[i] })
				}
				r.Eval(fmt.Sprintf("%s,perm=%d", id, p))
				r.Guard(id, func() {
					if got := v.build(es, vp.NewStore().LS()); got != base {
						r.Fail(id, "permutation %d gives %+v, first build gave %+v", p, got, base)
					}
				})
			}
		}
		// quick builder: Go map iteration order varies between runs
		var qbase result
		for rep := 0; rep < vp.Pick(4, 12); rep++ {
			id := fmt.Sprintf("dir:quick,%s", label)
			r.Eval(fmt.Sprintf("%s,rep=%d", id, rep))
			var got result
			_ = quick.Store(vp.NewStore().LS(), func(b *quick.Builder) error {
				m := map[string]quick.Node{}
				for i, n := range names {
					m[n] = b.NewBytesFile([]byte{byte(i % 3)})
				}
				d := b.NewMapDirectory(m)
				sz, _ := d.Size()
				got = result{link: d.Link().String(), size: uint64(sz)}
				return nil
			})
			if rep == 0 {
				qbase = got
			} else if got != qbase {
				r.Fail(id, "repetition %d gives %+v, first build gave %+v", rep, got, qbase)
			}
		}
	}

	hasherCases(t, r)

	type fcase struct {
		chunker string
		size    int
	}
	var fcases []fcase
	for n := 0; n <= 41; n++ {
		fcases = append(fcases, fcase{"size-4", n})
	}
	fcases = append(fcases, fcase{"size-7", 100}, fcase{"rabin-16-32-64", 3000}, fcase{"", 300000})
	if vp.Thorough() {
		fcases = append(fcases, fcase{"buzhash", 700000}, fcase{"size-262144", 600001})
	}
	for _, w := range []int{2, 3, 174} {
		builder.DefaultLinksPerBlock = w
		for _, fc := range fcases {
			if fc.size > 10000 && w == 3 {
				continue
			}
			content := vp.Content(fc.size, int64(fc.size))
			id := fmt.Sprintf("file:W=%d,chunker=%q,len=%d", w, fc.chunker, fc.size)
			base := res(builder.BuildUnixFSFile(bytes.NewReader(content), fc.chunker, vp.NewStore().LS()))
			if base.err != "" {
				t.Fatalf("%s: %s", id, base.err)
			}
			readers := map[string]func() io.Reader{
				"repeat":  func() io.Reader { return bytes.NewReader(content) },
				"onebyte": func() io.Reader { return iotest.OneByteReader(bytes.NewReader(content)) },
				"half":    func() io.Reader { return iotest.HalfReader(bytes.NewReader(content)) },
				"dataerr": func() io.Reader { return iotest.DataErrReader(bytes.NewReader(content)) },
				"buffered": func() io.Reader {
					return io.MultiReader(bytes.NewReader(content[:len(content)/2]), bytes.NewReader(content[len(content)/2:]))
				},
			}
			draws := vp.Pick(5, 40)
			if fc.size > 10000 {
				draws = 1
				delete(readers, "onebyte")
			}
			for d := 0; d < draws; d++ {
				seed := rng.Int63()
				readers[fmt.Sprintf("frag#%d", d)] = func() io.Reader {
					return &frag{bytes.NewReader(content), rand.New(rand.NewSource(seed))}
				}
			}
			for name, mk := range readers {
				r.Eval(id + "," + name)
				r.Guard(id, func() {
					if got := res(builder.BuildUnixFSFile(mk(), fc.chunker, vp.NewStore().LS())); got != base {
						r.Fail(id, "reader %s gives %+v, bytes.Reader gave %+v", name, got, base)
					}
				})
			}
		}
	}
}
