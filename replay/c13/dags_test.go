// Hand-built hostile DAGs: HAMT shards, file DAGs, directories, every data type, absent and
// garbage Data. Every case id is descriptive and does not depend on CIDs.
package c13

import (
	"fmt"
	"math"
	"math/bits"
	"sort"
	"strings"

	"github.com/ipfs/go-cid"

	"replay/vp"
)

// ---------------------------------------------------------------------------------------------
// HAMT

func lg2(fan uint64) uint {
	if fan <= 1 {
		return 0
	}
	return uint(bits.Len64(fan - 1))
}

func padLen(fan uint64) int { return len(fmt.Sprintf("%X", fan-1)) }

// bucket is the index the library derives for key in a shard of the given fanout after
// `consumed` bits of the murmur3 hash have been used (0 once the hash is used up).
func bucket(key string, consumed, lg uint) uint64 {
	if lg == 0 || consumed+lg > 64 {
		return 0
	}
	return (vp.Hash64(key) << consumed) >> (64 - lg)
}

// bitfield of fan/8 bytes (at least one) with the given buckets set.
func bitfieldOf(fan uint64, idx ...uint64) []byte {
	n := int(fan / 8)
	if fan > 1<<16 || n == 0 {
		n = 1
	}
	bf := make([]byte, n)
	for _, i := range idx {
		if int(i/8) < n {
			bf[n-1-int(i/8)] |= 1 << (i % 8)
		}
	}
	return bf
}

func prefix(fan, idx uint64) string { return fmt.Sprintf("%0*X", padLen(fan), idx) }

// level is one shard of a chain before it is stored; a mutation may change anything.
type level struct {
	u     ufs
	links []lnk
	fan   uint64
	idx   uint64 // bucket of the chain's key at this level
	depth int
}

// chain stores a HAMT in which looking up key descends through one shard per entry of fans; the
// bottom shard holds key (-> a raw leaf) and, like every other level, a few correctly placed
// other entries. mut (optional) is applied to every level before it is stored, bottom first.
func chain(w *world, key string, fans []uint64, mut func(l *level)) cid.Cid {
	consumed := make([]uint, len(fans))
	c := uint(0)
	for i, f := range fans {
		consumed[i] = c
		c += lg2(f)
	}
	var below cid.Cid
	for d := len(fans) - 1; d >= 0; d-- {
		fan := fans[d]
		lv := &level{fan: fan, depth: d, idx: bucket(key, consumed[d], lg2(fan))}
		type ent struct {
			idx uint64
			l   lnk
		}
		var ents []ent
		if d == len(fans)-1 {
			ents = append(ents, ent{lv.idx, named(w.raw([]byte("value of "+key)), prefix(fan, lv.idx)+key)})
		} else {
			ents = append(ents, ent{lv.idx, named(below, prefix(fan, lv.idx))})
		}
		for i := 0; i < 3; i++ {
			other := fmt.Sprintf("other-%d-%d", d, i)
			oi := bucket(other, consumed[d], lg2(fan))
			dup := false
			for _, e := range ents {
				dup = dup || e.idx == oi
			}
			if !dup && fan >= 8 {
				ents = append(ents, ent{oi, named(w.raw([]byte(other)), prefix(fan, oi)+other)})
			}
		}
		sort.Slice(ents, func(i, j int) bool { return ents[i].idx < ents[j].idx })
		var idxs []uint64
		for _, e := range ents {
			idxs = append(idxs, e.idx)
			lv.links = append(lv.links, e.l)
		}
		lv.u = ufs{Type: u64(tHAMT), HasData: true, Data: bitfieldOf(fan, idxs...), HashType: u64(0x22), Fanout: u64(fan)}
		if mut != nil {
			mut(lv)
		}
		below = w.node(lv.u, lv.links...)
	}
	return below
}

// keyLink returns the position in lv.links of the link on the chain's path.
func (lv *level) keyLink() int {
	p := prefix(lv.fan, lv.idx)
	for i, l := range lv.links {
		if l.Name != nil && strings.HasPrefix(*l.Name, p) && (len(*l.Name) == len(p) || strings.HasSuffix(*l.Name, "key")) {
			return i
		}
	}
	return 0
}

const hkey = "the-key"

type hmut struct {
	name string
	f    func(w *world, lv *level)
}

// shardMuts are defects of one shard block.
func shardMuts() []hmut {
	var ms []hmut
	add := func(name string, f func(w *world, lv *level)) { ms = append(ms, hmut{name, f}) }
	add("well-formed", func(w *world, lv *level) {})
	// bitfield
	add("bitfield-long+1,zero", func(w *world, lv *level) { lv.u.Data = append([]byte{0}, lv.u.Data...) })
	add("bitfield-long+1,ones", func(w *world, lv *level) { lv.u.Data = append([]byte{0xff}, lv.u.Data...) })
	add("bitfield-long+100", func(w *world, lv *level) { lv.u.Data = append(rep(0xff, 100), lv.u.Data...) })
	add("bitfield-long-trailing", func(w *world, lv *level) { lv.u.Data = append(lv.u.Data, 0xff) })
	add("bitfield-short-1", func(w *world, lv *level) { lv.u.Data = lv.u.Data[1:] })
	add("bitfield-short-half", func(w *world, lv *level) { lv.u.Data = lv.u.Data[len(lv.u.Data)/2:] })
	add("bitfield-short-tail-cut", func(w *world, lv *level) { lv.u.Data = lv.u.Data[:len(lv.u.Data)-1] })
	add("bitfield-empty", func(w *world, lv *level) { lv.u.Data = nil })
	add("bitfield-absent", func(w *world, lv *level) { lv.u.HasData = false })
	add("bitfield-zeros", func(w *world, lv *level) { lv.u.Data = make([]byte, len(lv.u.Data)) })
	add("bitfield-ones", func(w *world, lv *level) { lv.u.Data = rep(0xff, len(lv.u.Data)) })
	add("bitfield-ones,no-links", func(w *world, lv *level) { lv.u.Data = rep(0xff, len(lv.u.Data)); lv.links = nil })
	add("bitfield-ones,one-link", func(w *world, lv *level) {
		lv.u.Data = rep(0xff, len(lv.u.Data))
		lv.links = lv.links[lv.keyLink() : lv.keyLink()+1]
	})
	add("bitfield-one-bit-short-of-links", func(w *world, lv *level) { lv.u.Data = bitfieldOf(lv.fan, lv.idx) })
	add("no-links", func(w *world, lv *level) { lv.links = nil })
	add("links-doubled", func(w *world, lv *level) { lv.links = append(lv.links, lv.links...) })
	add("links-reversed", func(w *world, lv *level) {
		for i, j := 0, len(lv.links)-1; i < j; i, j = i+1, j-1 {
			lv.links[i], lv.links[j] = lv.links[j], lv.links[i]
		}
	})
	// fanout
	for _, f := range []uint64{0, 1, 2, 3, 4, 7, 8, 9, 12, 16, 24, 255, 256, 257, 1000, 1024, 1025, 2048, 4096, 1 << 16, 1 << 20, 1<<31 - 1, 1 << 31, 1 << 32, 1<<32 + 8, 1 << 40, 1 << 62, math.MaxInt64, 1 << 63, 1<<63 + 8, math.MaxUint64 - 7, math.MaxUint64} {
		f := f
		add(fmt.Sprintf("fanout=%d", f), func(w *world, lv *level) { lv.u.Fanout = u64(f) })
	}
	add("fanout-absent", func(w *world, lv *level) { lv.u.Fanout = nil })
	add("fanout=1024,bitfield-128-ones", func(w *world, lv *level) { lv.u.Fanout = u64(1024); lv.u.Data = rep(0xff, 128) })
	add("fanout=8,bitfield-ff", func(w *world, lv *level) { lv.u.Fanout = u64(8); lv.u.Data = []byte{0xff} })
	// hash type
	for _, h := range []uint64{0, 1, 0x12, 0x21, 0x23, 0x22 + 1<<32, 1 << 63, math.MaxUint64} {
		h := h
		add(fmt.Sprintf("hashtype=%#x", h), func(w *world, lv *level) { lv.u.HashType = u64(h) })
	}
	add("hashtype-absent", func(w *world, lv *level) { lv.u.HashType = nil })
	// other UnixFS fields that do not belong to a shard
	add("with-filesize+blocksizes", func(w *world, lv *level) {
		lv.u.FileSize = u64(1 << 63)
		lv.u.BlockSizes = []uint64{math.MaxUint64, 0}
	})
	// link names
	onKey := func(f func(lv *level, l *lnk)) func(w *world, lv *level) {
		return func(w *world, lv *level) { f(lv, &lv.links[lv.keyLink()]) }
	}
	onAll := func(f func(lv *level, l *lnk)) func(w *world, lv *level) {
		return func(w *world, lv *level) {
			for i := range lv.links {
				f(lv, &lv.links[i])
			}
		}
	}
	nameMuts := []struct {
		name string
		f    func(lv *level, l *lnk)
	}{
		{"name-absent", func(lv *level, l *lnk) { l.Name = nil }},
		{"name-empty", func(lv *level, l *lnk) { l.Name = str("") }},
		{"name-short", func(lv *level, l *lnk) { l.Name = str((*l.Name)[:padLen(lv.fan)-1]) }},
		{"name-prefix-only", func(lv *level, l *lnk) { l.Name = str((*l.Name)[:padLen(lv.fan)]) }},
		{"name-prefix+1", func(lv *level, l *lnk) { l.Name = str((*l.Name)[:padLen(lv.fan)] + "x") }},
		{"name-nonhex", func(lv *level, l *lnk) {
			l.Name = str(strings.Repeat("Z", padLen(lv.fan)) + (*l.Name)[padLen(lv.fan):])
		}},
		{"name-lowerhex", func(lv *level, l *lnk) {
			l.Name = str(strings.ToLower((*l.Name)[:padLen(lv.fan)]) + (*l.Name)[padLen(lv.fan):])
		}},
		{"name-other-bucket", func(lv *level, l *lnk) { l.Name = str(prefix(lv.fan, (lv.idx+1)%lv.fan) + (*l.Name)[padLen(lv.fan):]) }},
		{"name-bucket-beyond-fanout", func(lv *level, l *lnk) {
			l.Name = str(strings.Repeat("F", padLen(lv.fan)+1) + (*l.Name)[padLen(lv.fan):])
		}},
		{"name-multibyte-across-prefix", func(lv *level, l *lnk) {
			l.Name = str(strings.Repeat("é", padLen(lv.fan))[:padLen(lv.fan)*2-1] + "é")
		}},
		{"name-not-utf8", func(lv *level, l *lnk) { l.Name = str(string(rep(0xff, padLen(lv.fan)+2))) }},
		{"name-nul", func(lv *level, l *lnk) { l.Name = str(string(rep(0, padLen(lv.fan)+1))) }},
		{"name-4k", func(lv *level, l *lnk) { l.Name = str((*l.Name)[:padLen(lv.fan)] + strings.Repeat("n", 4096)) }},
		{"tsize-absent", func(lv *level, l *lnk) { l.Tsize = nil }},
		{"tsize-huge", func(lv *level, l *lnk) { l.Tsize = u64(math.MaxUint64) }},
	}
	for _, nm := range nameMuts {
		add(nm.name+",key-link", onKey(nm.f))
		add(nm.name+",all-links", onAll(nm.f))
	}
	return ms
}

// hostileChildren are the things a shard's child link (a link named by the prefix alone) may
// point to; build returns the CID to link.
func hostileChildren() []struct {
	name  string
	build func(w *world, fan uint64) cid.Cid
} {
	shard := func(w *world, u ufs, links ...lnk) cid.Cid {
		u.Type = u64(tHAMT)
		if u.HashType == nil {
			u.HashType = u64(0x22)
		}
		return w.node(u, links...)
	}
	leaf := func(w *world) lnk { return named(w.raw([]byte("leaf")), "0leaf") }
	return []struct {
		name  string
		build func(w *world, fan uint64) cid.Cid
	}{
		{"child-empty", func(w *world, fan uint64) cid.Cid {
			return shard(w, ufs{HasData: true, Data: bitfieldOf(fan), Fanout: u64(fan)})
		}},
		{"child-empty,bitfield-ones", func(w *world, fan uint64) cid.Cid {
			return shard(w, ufs{HasData: true, Data: rep(0xff, int(fan/8)), Fanout: u64(fan)})
		}},
		{"child-empty,bitfield-empty", func(w *world, fan uint64) cid.Cid {
			return shard(w, ufs{HasData: true, Fanout: u64(fan)})
		}},
		{"child-missing", func(w *world, fan uint64) cid.Cid { return gone(cid.DagProtobuf, "shard") }},
		{"child-missing-raw", func(w *world, fan uint64) cid.Cid { return gone(cid.Raw, "shard") }},
		{"child-raw", func(w *world, fan uint64) cid.Cid { return w.raw([]byte("raw bytes, not a shard")) }},
		{"child-raw-empty", func(w *world, fan uint64) cid.Cid { return w.raw(nil) }},
		{"child-raw-that-parses-as-dagpb", func(w *world, fan uint64) cid.Cid {
			return w.raw(encPB(ufs{Type: u64(tHAMT), HasData: true, Data: []byte{1}, HashType: u64(0x22), Fanout: u64(8)}.enc(), true, []lnk{leaf(w)}))
		}},
		{"child-file", func(w *world, fan uint64) cid.Cid {
			return w.node(ufs{Type: u64(tFile), HasData: true, Data: []byte("file"), FileSize: u64(4)})
		}},
		{"child-file-with-links", func(w *world, fan uint64) cid.Cid {
			r := w.raw([]byte("chunk"))
			return w.node(ufs{Type: u64(tFile), FileSize: u64(5), BlockSizes: []uint64{5}}, unnamed(r, 5))
		}},
		{"child-directory", func(w *world, fan uint64) cid.Cid {
			return w.node(ufs{Type: u64(tDirectory)}, named(w.raw([]byte("x")), "x"))
		}},
		{"child-symlink", func(w *world, fan uint64) cid.Cid {
			return w.node(ufs{Type: u64(tSymlink), HasData: true, Data: []byte("../target")})
		}},
		{"child-unknown-type", func(w *world, fan uint64) cid.Cid { return w.node(ufs{Type: u64(100)}) }},
		{"child-no-data", func(w *world, fan uint64) cid.Cid { return w.pb(nil, false, []lnk{leaf(w)}) }},
		{"child-no-data,no-links", func(w *world, fan uint64) cid.Cid { return w.pb(nil, false, nil) }},
		{"child-data-empty", func(w *world, fan uint64) cid.Cid { return w.pb(nil, true, []lnk{leaf(w)}) }},
		{"child-data-garbage", func(w *world, fan uint64) cid.Cid { return w.pb([]byte{0xff, 0xff, 0x01}, true, []lnk{leaf(w)}) }},
		{"child-undecodable-dagpb", func(w *world, fan uint64) cid.Cid {
			return w.other(cid.DagProtobuf, []byte{0xff, 0x00, 0x13, 0x37})
		}},
		{"child-dagjson", func(w *world, fan uint64) cid.Cid {
			return w.other(cid.DagJSON, []byte(`{"Data":{"/":{"bytes":"CAU"}},"Links":[]}`))
		}},
		{"child-dagcbor", func(w *world, fan uint64) cid.Cid {
			return w.other(cid.DagCBOR, []byte{0xa1, 0x65, 'L', 'i', 'n', 'k', 's', 0x80})
		}},
		{"child-cidv0", func(w *world, fan uint64) cid.Cid {
			return v0(shard(w, ufs{HasData: true, Data: bitfieldOf(fan, 0), Fanout: u64(fan)}, named(w.raw([]byte("v")), prefix(fan, 0)+"v")))
		}},
		{"child-fanout-invalid=3", func(w *world, fan uint64) cid.Cid {
			return shard(w, ufs{HasData: true, Data: []byte{1}, Fanout: u64(3)}, leaf(w))
		}},
		{"child-fanout-invalid=0", func(w *world, fan uint64) cid.Cid {
			return shard(w, ufs{HasData: true, Data: []byte{1}, Fanout: u64(0)}, leaf(w))
		}},
		{"child-fanout-invalid=2048", func(w *world, fan uint64) cid.Cid {
			return shard(w, ufs{HasData: true, Data: []byte{1}, Fanout: u64(2048)}, leaf(w))
		}},
		{"child-fanout-absent", func(w *world, fan uint64) cid.Cid {
			return shard(w, ufs{HasData: true, Data: []byte{1}}, leaf(w))
		}},
		{"child-bitfield-too-long", func(w *world, fan uint64) cid.Cid {
			return shard(w, ufs{HasData: true, Data: rep(0xff, int(fan/8)+1), Fanout: u64(fan)}, leaf(w))
		}},
		{"child-bitfield-absent", func(w *world, fan uint64) cid.Cid {
			return shard(w, ufs{Fanout: u64(fan)}, leaf(w))
		}},
		{"child-hashtype-sha256", func(w *world, fan uint64) cid.Cid {
			return shard(w, ufs{HasData: true, Data: []byte{1}, HashType: u64(0x12), Fanout: u64(fan)}, leaf(w))
		}},
		{"child-nameless-links", func(w *world, fan uint64) cid.Cid {
			return shard(w, ufs{HasData: true, Data: rep(0xff, int(fan/8)), Fanout: u64(fan)}, lnk{C: w.raw([]byte("a"))}, lnk{C: w.raw([]byte("b"))})
		}},
		{"child-short-names", func(w *world, fan uint64) cid.Cid {
			return shard(w, ufs{HasData: true, Data: rep(0xff, int(fan/8)), Fanout: u64(fan)}, named(w.raw([]byte("a")), ""), named(w.raw([]byte("b")), ""))
		}},
	}
}

func runHamt(r *vp.Run) {
	fans := vp.Pick([]uint64{8, 256}, []uint64{8, 16, 32, 64, 128, 256, 512, 1024})
	n := 0
	// a defect in the shard at depth 0 (the root), 1 or 2 of a 3-level HAMT
	for _, fan := range fans {
		for _, m := range shardMuts() {
			for depth := 0; depth <= 2; depth++ {
				m, depth := m, depth
				w := newWorld()
				root := chain(w, hkey, []uint64{fan, fan, fan}, func(lv *level) {
					if lv.depth == depth {
						m.f(w, lv)
					}
				})
				runCase(r, fmt.Sprintf("hamt:%s,fanout=%d,depth=%d", m.name, fan, depth), w, root, []string{hkey, "other-0-0", "other-1-1", "other-2-2"}, depth == 0 && (fan == 8 || fan == 256))
				n++
			}
		}
		// hostile children, linked from the root or from a shard one level down
		for _, hc := range hostileChildren() {
			for depth := 0; depth <= 1; depth++ {
				hc, depth := hc, depth
				w := newWorld()
				root := chain(w, hkey, []uint64{fan, fan}[:depth+1], func(lv *level) {
					if lv.depth == depth {
						k := lv.keyLink()
						lv.links[k] = named(hc.build(w, fan), prefix(fan, lv.idx))
					}
				})
				runCase(r, fmt.Sprintf("%s:%s,fanout=%d,depth=%d", classOf("hamt", hc.name), hc.name, fan, depth+1), w, root, []string{hkey, "leaf", "v"}, depth == 0)
				n++
			}
		}
		// child shards with another fanout than their parent
		for _, cf := range []uint64{8, 16, 64, 256, 1024} {
			if cf == fan {
				continue
			}
			w := newWorld()
			root := chain(w, hkey, []uint64{fan, cf, fan}, nil)
			runCase(r, fmt.Sprintf("hamt:child-fanout=%d,fanout=%d", cf, fan), w, root, []string{hkey, "other-0-0", "other-1-1", "other-2-2"}, true)
			n++
		}
	}
	// chains that use up the 64 hash bits, exactly and with bits to spare
	for _, c := range []struct {
		name string
		fans []uint64
	}{
		{"8x21", repFan(8, 21)}, {"8x22", repFan(8, 22)}, {"8x30", repFan(8, 30)},
		{"256x8", repFan(256, 8)}, {"256x9", repFan(256, 9)}, {"256x8+8", append(repFan(256, 8), 8)},
		{"1024x6+16", append(repFan(1024, 6), 16)}, {"1024x6+16+8", append(repFan(1024, 6), 16, 8)}, {"1024x6+8+8", append(repFan(1024, 6), 8, 8)},
		{"1024x7", repFan(1024, 7)}, {"16x16", repFan(16, 16)}, {"16x17", repFan(16, 17)}, {"32x12+16", append(repFan(32, 12), 16)}, {"32x13", repFan(32, 13)},
		{"128x9", repFan(128, 9)}, {"128x9+8", append(repFan(128, 9), 8)}, {"64x10+16", append(repFan(64, 10), 16)}, {"512x7", repFan(512, 7)}, {"512x7+8", append(repFan(512, 7), 8)},
	} {
		w := newWorld()
		root := chain(w, hkey, c.fans, nil)
		runCase(r, "hamt:deep-chain="+c.name, w, root, []string{hkey}, false)
		n++
	}
	// fan-in: the same child shard linked from every bucket, level after level. The DAG has
	// `depth` shard blocks and 8*depth links; a walk that does not notice yields 8^depth pairs.
	for _, depth := range vp.Pick([]int{1, 2, 3, 5, 12}, []int{1, 2, 3, 4, 5, 8, 12, 20}) {
		w := newWorld()
		var links []lnk
		for i := uint64(0); i < 8; i++ {
			links = append(links, named(w.raw([]byte{byte(i)}), prefix(8, i)+fmt.Sprintf("e%d", i)))
		}
		c := w.node(ufs{Type: u64(tHAMT), HasData: true, Data: []byte{0xff}, HashType: u64(0x22), Fanout: u64(8)}, links...)
		for d := 1; d < depth; d++ {
			links = links[:0]
			for i := uint64(0); i < 8; i++ {
				links = append(links, named(c, prefix(8, i)))
			}
			// Mode makes the levels differ
			c = w.node(ufs{Type: u64(tHAMT), HasData: true, Data: []byte{0xff}, HashType: u64(0x22), Fanout: u64(8), Mode: u64(uint64(d))}, links...)
		}
		runCase(r, fmt.Sprintf("hamt:shared-child-all-buckets,fanout=8,depth=%d", depth), w, c, []string{"e0", "e7"}, false)
		n++
	}
	// fan-in as a lattice: two different shards per level, each linking both shards of the next
	// level. 2*depth blocks and 4*depth links; 2^depth paths.
	for _, depth := range vp.Pick([]int{2, 4, 8, 9, 10, 16, 40}, []int{2, 3, 4, 6, 8, 9, 10, 12, 16, 24, 40, 64}) {
		w := newWorld()
		mk := func(which uint64, a, b lnk) cid.Cid {
			return w.node(ufs{Type: u64(tHAMT), HasData: true, Data: []byte{0x03}, HashType: u64(0x22), Fanout: u64(8), Mode: u64(which)}, a, b)
		}
		a := mk(0, named(w.raw([]byte("a0")), "0ea"), named(w.raw([]byte("a1")), "1eb"))
		b := mk(1, named(w.raw([]byte("b0")), "0ec"), named(w.raw([]byte("b1")), "1ed"))
		for d := 1; d < depth; d++ {
			a, b = mk(uint64(2*d), named(a, "0"), named(b, "1")), mk(uint64(2*d+1), named(a, "0"), named(b, "1"))
		}
		runCase(r, fmt.Sprintf("hamt:shared-lattice,fanout=8,depth=%d", depth), w, a, []string{"ea", "ed"}, false)
		n++
	}
	r.Sample(map[string]any{"family": "hamt", "cases": n})
}

// classOf is the class of a case id (the text before the first ':'). Cases whose hostile child
// is a block of another codec than dag-pb / raw (dag-json, dag-cbor) get a class of their own,
// "<family>-foreign": the property quantifies over dag-pb DAGs with "any child blocks", and a
// reader may want to tell the strictly dag-pb + raw DAGs from these.
func classOf(family, name string) string {
	if strings.Contains(name, "dagjson") || strings.Contains(name, "dagcbor") {
		return family + "-foreign"
	}
	return family
}

func repFan(f uint64, n int) []uint64 {
	out := make([]uint64, n)
	for i := range out {
		out[i] = f
	}
	return out
}

// ---------------------------------------------------------------------------------------------
// files

// kid is a stored file (sub)DAG: what a parent needs to know to link it.
type kid struct {
	c      cid.Cid
	size   uint64 // file bytes beneath (what a well-formed parent records as block size)
	stored uint64 // cumulative stored size (what a well-formed parent records as Tsize)
}

func (w *world) leafPB(b []byte) kid {
	c := w.node(ufs{Type: u64(tFile), HasData: true, Data: b, FileSize: u64(uint64(len(b)))})
	return kid{c, uint64(len(b)), uint64(len(b) + 8)}
}

func (w *world) leafRaw(b []byte) kid { return kid{w.raw(b), uint64(len(b)), uint64(len(b))} }

// interior stores a well-formed interior file node over kids unless mut changes it.
func (w *world) interior(kids []kid, mut func(u *ufs, links *[]lnk)) kid {
	u := ufs{Type: u64(tFile)}
	var links []lnk
	var total, stored uint64
	for _, k := range kids {
		u.BlockSizes = append(u.BlockSizes, k.size)
		total += k.size
		stored += k.stored
		links = append(links, unnamed(k.c, k.stored))
	}
	u.FileSize = u64(total)
	if mut != nil {
		mut(&u, &links)
	}
	c := w.node(u, links...)
	return kid{c, total, stored + 40}
}

type fmut struct {
	name string
	f    func(u *ufs, links *[]lnk)
}

// fileMuts are defects of one interior file node.
func fileMuts() []fmut {
	var ms []fmut
	add := func(name string, f func(u *ufs, links *[]lnk)) { ms = append(ms, fmut{name, f}) }
	each := func(u *ufs, f func(uint64) uint64) {
		for i, s := range u.BlockSizes {
			u.BlockSizes[i] = f(s)
		}
	}
	add("well-formed", func(u *ufs, links *[]lnk) {})
	add("blocksizes-packed", func(u *ufs, links *[]lnk) { u.Packed = true })
	add("blocksizes-none", func(u *ufs, links *[]lnk) { u.BlockSizes = nil })
	add("blocksizes-short", func(u *ufs, links *[]lnk) { u.BlockSizes = u.BlockSizes[:len(u.BlockSizes)-1] })
	add("blocksizes-short-by-head", func(u *ufs, links *[]lnk) { u.BlockSizes = u.BlockSizes[1:] })
	add("blocksizes-only-one", func(u *ufs, links *[]lnk) { u.BlockSizes = u.BlockSizes[:1] })
	add("blocksizes-long+1", func(u *ufs, links *[]lnk) { u.BlockSizes = append(u.BlockSizes, 7) })
	add("blocksizes-long+100", func(u *ufs, links *[]lnk) { u.BlockSizes = append(u.BlockSizes, make([]uint64, 100)...) })
	add("blocksizes-zero", func(u *ufs, links *[]lnk) { each(u, func(uint64) uint64 { return 0 }) })
	add("blocksizes-too-small", func(u *ufs, links *[]lnk) {
		each(u, func(s uint64) uint64 {
			if s > 0 {
				return s - 1
			}
			return 0
		})
	})
	add("blocksizes-too-big", func(u *ufs, links *[]lnk) { each(u, func(s uint64) uint64 { return s + 5 }) })
	add("blocksizes-maxint64", func(u *ufs, links *[]lnk) { each(u, func(uint64) uint64 { return math.MaxInt64 }) })
	add("blocksizes-sum-past-int64", func(u *ufs, links *[]lnk) { each(u, func(uint64) uint64 { return 1 << 62 }) })
	add("blocksizes-first-maxint64", func(u *ufs, links *[]lnk) { u.BlockSizes[0] = math.MaxInt64 })
	add("blocksizes-negative", func(u *ufs, links *[]lnk) { each(u, func(uint64) uint64 { return 1 << 63 }) })
	add("blocksizes-minus1", func(u *ufs, links *[]lnk) { each(u, func(uint64) uint64 { return math.MaxUint64 }) })
	add("blocksizes-first-minus1", func(u *ufs, links *[]lnk) { u.BlockSizes[0] = math.MaxUint64 })
	add("blocksizes-last-negative", func(u *ufs, links *[]lnk) { u.BlockSizes[len(u.BlockSizes)-1] = 1<<63 + 3 })
	add("blocksizes-without-links", func(u *ufs, links *[]lnk) { *links = nil })
	for _, fs := range []uint64{0, 1, 1 << 20, math.MaxInt64, 1 << 63, math.MaxUint64} {
		fs := fs
		add(fmt.Sprintf("filesize=%d", fs), func(u *ufs, links *[]lnk) { u.FileSize = u64(fs) })
		add(fmt.Sprintf("filesize=%d,blocksizes-none", fs), func(u *ufs, links *[]lnk) { u.FileSize = u64(fs); u.BlockSizes = nil })
	}
	add("filesize-absent", func(u *ufs, links *[]lnk) { u.FileSize = nil })
	add("sizes-absent", func(u *ufs, links *[]lnk) { u.FileSize = nil; u.BlockSizes = nil })
	add("sizes-absent,tsize-absent", func(u *ufs, links *[]lnk) {
		u.FileSize, u.BlockSizes = nil, nil
		for i := range *links {
			(*links)[i].Tsize = nil
		}
	})
	for _, ts := range []uint64{0, 1, 1 << 40, math.MaxInt64, 1 << 63, math.MaxUint64} {
		ts := ts
		add(fmt.Sprintf("tsize=%d", ts), func(u *ufs, links *[]lnk) {
			for i := range *links {
				(*links)[i].Tsize = u64(ts)
			}
		})
	}
	add("tsize-absent", func(u *ufs, links *[]lnk) {
		for i := range *links {
			(*links)[i].Tsize = nil
		}
	})
	add("links-named", func(u *ufs, links *[]lnk) {
		for i := range *links {
			(*links)[i].Name = str(fmt.Sprintf("part%d", i))
		}
	})
	add("inline-data+links", func(u *ufs, links *[]lnk) { u.HasData, u.Data = true, []byte("inline") })
	add("type-raw+links", func(u *ufs, links *[]lnk) { u.Type = u64(tRaw) })
	add("hamt-fields", func(u *ufs, links *[]lnk) { u.Fanout, u.HashType = u64(3), u64(0) })
	add("links-doubled", func(u *ufs, links *[]lnk) { *links = append(*links, *links...) })
	return ms
}

// hostileKids are things a file's link may point to; size is what the parent is told.
func hostileKids() []struct {
	name  string
	build func(w *world) kid
} {
	rawKid := func(w *world) lnk { return unnamed(w.raw([]byte("abc")), 3) }
	return []struct {
		name  string
		build func(w *world) kid
	}{
		{"child-empty-pb", func(w *world) kid { return w.leafPB(nil) }},
		{"child-empty-pb-no-data-field", func(w *world) kid {
			return kid{w.node(ufs{Type: u64(tFile), FileSize: u64(0)}), 0, 4}
		}},
		{"child-empty-raw", func(w *world) kid { return w.leafRaw(nil) }},
		{"child-empty-interior", func(w *world) kid { return w.interior(nil, nil) }},
		{"child-missing-pb", func(w *world) kid { return kid{gone(cid.DagProtobuf, "file child"), 5, 13} }},
		{"child-missing-raw", func(w *world) kid { return kid{gone(cid.Raw, "file child"), 5, 5} }},
		{"child-directory", func(w *world) kid {
			return kid{w.node(ufs{Type: u64(tDirectory)}, named(w.raw([]byte("abc")), "abc")), 5, 60}
		}},
		{"child-directory-empty", func(w *world) kid { return kid{w.node(ufs{Type: u64(tDirectory)}), 5, 4} }},
		{"child-shard", func(w *world) kid {
			return kid{w.node(ufs{Type: u64(tHAMT), HasData: true, Data: []byte{1}, HashType: u64(0x22), Fanout: u64(8)}, named(w.raw([]byte("abc")), "0abc")), 5, 60}
		}},
		{"child-shard-empty", func(w *world) kid {
			return kid{w.node(ufs{Type: u64(tHAMT), HasData: true, Data: []byte{0}, HashType: u64(0x22), Fanout: u64(8)}), 5, 10}
		}},
		{"child-symlink", func(w *world) kid {
			return kid{w.node(ufs{Type: u64(tSymlink), HasData: true, Data: []byte("/etc/passwd")}), 5, 20}
		}},
		{"child-metadata", func(w *world) kid {
			return kid{w.node(ufs{Type: u64(tMetadata), HasData: true, Data: lenDelim(1, []byte("text/plain"))}, rawKid(w)), 5, 20}
		}},
		{"child-unknown-type", func(w *world) kid { return kid{w.node(ufs{Type: u64(100)}, rawKid(w)), 5, 20} }},
		{"child-unknown-type,no-links", func(w *world) kid {
			return kid{w.node(ufs{Type: u64(6), HasData: true, Data: []byte("abcde")}), 5, 20}
		}},
		{"child-no-data", func(w *world) kid { return kid{w.pb(nil, false, nil), 5, 0} }},
		{"child-no-data,with-links", func(w *world) kid { return kid{w.pb(nil, false, []lnk{rawKid(w), rawKid(w)}), 6, 60} }},
		{"child-data-empty", func(w *world) kid { return kid{w.pb(nil, true, nil), 5, 2} }},
		{"child-data-garbage", func(w *world) kid { return kid{w.pb([]byte{0xff, 0xfe, 0x01}, true, nil), 5, 5} }},
		{"child-data-garbage,with-links", func(w *world) kid {
			return kid{w.pb([]byte{0xff, 0xfe, 0x01}, true, []lnk{rawKid(w)}), 5, 50}
		}},
		{"child-type-missing", func(w *world) kid {
			return kid{w.pb(cat(lenDelim(2, []byte("abcde")), vfield(3, 5)), true, nil), 5, 12}
		}},
		{"child-undecodable-dagpb", func(w *world) kid {
			return kid{w.other(cid.DagProtobuf, []byte{0xff, 0x00, 0x13, 0x37}), 4, 4}
		}},
		{"child-dagjson-map", func(w *world) kid {
			return kid{w.other(cid.DagJSON, []byte(`{"Data":{"/":{"bytes":"CAIYAA"}},"Links":[]}`)), 5, 40}
		}},
		{"child-dagjson-links-is-map", func(w *world) kid {
			return kid{w.other(cid.DagJSON, []byte(`{"Links":{"a":1}}`)), 5, 17}
		}},
		{"child-dagjson-links-is-string", func(w *world) kid {
			return kid{w.other(cid.DagJSON, []byte(`{"Links":"abc"}`)), 5, 15}
		}},
		{"child-dagjson-links-of-ints", func(w *world) kid {
			return kid{w.other(cid.DagJSON, []byte(`{"Links":[1,2,3]}`)), 5, 17}
		}},
		{"child-dagjson-list", func(w *world) kid { return kid{w.other(cid.DagJSON, []byte(`[1,2,3]`)), 5, 7} }},
		{"child-dagjson-string", func(w *world) kid { return kid{w.other(cid.DagJSON, []byte(`"abcde"`)), 5, 7} }},
		{"child-dagjson-bytes", func(w *world) kid {
			return kid{w.other(cid.DagJSON, []byte(`{"/":{"bytes":"YWJjZGU"}}`)), 5, 25}
		}},
		{"child-dagcbor-links-is-map", func(w *world) kid {
			return kid{w.other(cid.DagCBOR, []byte{0xa1, 0x65, 'L', 'i', 'n', 'k', 's', 0xa1, 0x61, 'a', 0x01}), 5, 11}
		}},
		{"child-cidv0", func(w *world) kid { k := w.leafPB([]byte("v0 leaf")); k.c = v0(k.c); return k }},
		{"child-raw-claims-more", func(w *world) kid { k := w.leafRaw([]byte("abc")); k.size, k.stored = 10, 10; return k }},
		{"child-raw-claims-less", func(w *world) kid { k := w.leafRaw([]byte("abcdef")); k.size, k.stored = 2, 2; return k }},
		{"child-raw-claims-zero", func(w *world) kid { k := w.leafRaw([]byte("abcdef")); k.size, k.stored = 0, 0; return k }},
		{"child-raw-claims-negative", func(w *world) kid { k := w.leafRaw([]byte("abc")); k.size, k.stored = 1<<63+1, 1<<63+1; return k }},
		{"child-pb-claims-more", func(w *world) kid { k := w.leafPB([]byte("abc")); k.size = 10; return k }},
		{"child-pb-claims-less", func(w *world) kid { k := w.leafPB([]byte("abcdef")); k.size = 2; return k }},
		{"child-pb-filesize-lies", func(w *world) kid {
			return kid{w.node(ufs{Type: u64(tFile), HasData: true, Data: []byte("abc"), FileSize: u64(1 << 62)}), 3, 11}
		}},
		{"child-interior-filesize-negative", func(w *world) kid {
			return w.interior([]kid{w.leafRaw([]byte("ab")), w.leafRaw([]byte("cd"))}, func(u *ufs, links *[]lnk) { u.FileSize = u64(1 << 63) })
		}},
		{"child-interior-no-sizes", func(w *world) kid {
			return w.interior([]kid{w.leafPB([]byte("ab")), w.leafPB([]byte("cd"))}, func(u *ufs, links *[]lnk) { u.FileSize, u.BlockSizes = nil, nil })
		}},
	}
}

// wrap puts the kid under `levels` well-formed interior nodes with a sibling on either side.
func wrap(w *world, k kid, levels int, salt string) kid {
	for l := 0; l < levels; l++ {
		k = w.interior([]kid{w.leafPB([]byte(fmt.Sprintf("<%s%d", salt, l))), k, w.leafRaw([]byte(fmt.Sprintf("%s%d>", salt, l)))}, nil)
	}
	return k
}

func runFiles(r *vp.Run) {
	n := 0
	kidSets := []struct {
		name string
		mk   func(w *world) []kid
	}{
		{"pb", func(w *world) []kid {
			return []kid{w.leafPB([]byte("one")), w.leafPB([]byte("three")), w.leafPB([]byte("fiver"))}
		}},
		{"raw", func(w *world) []kid {
			return []kid{w.leafRaw([]byte("one")), w.leafRaw([]byte("three")), w.leafRaw([]byte("fiver"))}
		}},
		{"mixed", func(w *world) []kid {
			return []kid{w.leafRaw([]byte("one")), w.leafPB([]byte("three")), w.interior([]kid{w.leafPB([]byte("x")), w.leafRaw([]byte("yz"))}, nil), w.leafRaw(nil)}
		}},
	}
	// a defective interior node as the root (depth 1) or below 1 or 2 well-formed levels
	for _, m := range fileMuts() {
		for _, ks := range kidSets {
			for depth := 1; depth <= 3; depth++ {
				if !vp.Thorough() && depth == 2 && ks.name != "mixed" {
					continue
				}
				w := newWorld()
				root := wrap(w, w.interior(ks.mk(w), m.f), depth-1, "w")
				runCase(r, fmt.Sprintf("file:%s,kids=%s,depth=%d", m.name, ks.name, depth), w, root.c, nil, depth == 1 && ks.name == "mixed")
				n++
			}
		}
	}
	// hostile children, first / middle / last, with the parent recording sizes or not
	for _, hk := range hostileKids() {
		for _, pos := range []string{"first", "middle", "last", "only"} {
			for _, sizes := range []string{"recorded", "absent"} {
				for depth := 1; depth <= 3; depth++ {
					if !vp.Thorough() && (depth == 2 || (depth == 3 && pos != "middle")) {
						continue
					}
					if classOf("file", hk.name) != "file" && (pos == "first" || pos == "last") {
						continue // one root cause, no need to show it in every position
					}
					w := newWorld()
					bad := hk.build(w)
					a, b := w.leafPB([]byte("before")), w.leafRaw([]byte("after"))
					kids := map[string][]kid{"first": {bad, a, b}, "middle": {a, bad, b}, "last": {a, b, bad}, "only": {bad}}[pos]
					root := wrap(w, w.interior(kids, func(u *ufs, links *[]lnk) {
						if sizes == "absent" {
							u.FileSize, u.BlockSizes = nil, nil
						}
					}), depth-1, "w")
					runCase(r, fmt.Sprintf("%s:%s,pos=%s,sizes=%s,depth=%d", classOf("file", hk.name), hk.name, pos, sizes, depth), w, root.c, nil, depth == 1 && pos == "middle")
					n++
				}
			}
		}
	}
	// deep chains: every level an interior node with one leaf and the next level
	for _, sizes := range []string{"recorded", "absent"} {
		for _, depth := range vp.Pick([]int{3, 10, 30, 80, 100, 300}, []int{3, 10, 30, 80, 90, 100, 300, 1000}) {
			w := newWorld()
			k := w.leafPB([]byte("bottom"))
			for d := 0; d < depth; d++ {
				k = w.interior([]kid{w.leafRaw([]byte{byte(d), byte(d >> 8)}), k}, func(u *ufs, links *[]lnk) {
					if sizes == "absent" {
						u.FileSize, u.BlockSizes = nil, nil
					}
				})
			}
			runCase(r, fmt.Sprintf("file:deep-chain,sizes=%s,depth=%d", sizes, depth), w, k.c, nil, false)
			n++
		}
	}
	// wide nodes
	for _, sizes := range []string{"recorded", "absent"} {
		for _, leaf := range []string{"raw", "pb"} {
			w := newWorld()
			var kids []kid
			for i := 0; i < vp.Pick(500, 5000); i++ {
				b := []byte(fmt.Sprintf("%04d", i))
				if leaf == "raw" {
					kids = append(kids, w.leafRaw(b))
				} else {
					kids = append(kids, w.leafPB(b))
				}
			}
			root := w.interior(kids, func(u *ufs, links *[]lnk) {
				if sizes == "absent" {
					u.FileSize, u.BlockSizes = nil, nil
				}
			})
			runCase(r, fmt.Sprintf("file:wide,leaves=%s,sizes=%s", leaf, sizes), w, root.c, nil, false)
			n++
		}
	}
	// fan-in: the same child under every link. The content itself is k^depth leaves long (108
	// bytes out of a 4-byte leaf): producing it is legitimate work, so it counts as w.output.
	for _, sizes := range []string{"recorded", "absent"} {
		w := newWorld()
		k := w.leafPB([]byte("leaf"))
		for d := 0; d < 3; d++ {
			k = w.interior([]kid{k, k, k}, func(u *ufs, links *[]lnk) {
				if sizes == "absent" {
					u.FileSize, u.BlockSizes = nil, nil
				}
			})
		}
		w.output = int(k.size)
		runCase(r, "file:shared-child,k=3,depth=3,sizes="+sizes, w, k.c, nil, false)
		n++
	}
	// fan-in as a lattice with EMPTY leaves: two different interior nodes per level, each linking
	// both nodes of the next level; the file is 0 bytes long, the DAG has 2*depth+2 blocks and
	// 4*depth links, and there are 2^depth paths to the leaves.
	for _, sizes := range []string{"recorded", "absent"} {
		for _, depth := range vp.Pick([]int{2, 4, 8, 10, 16, 40}, []int{2, 4, 6, 8, 9, 10, 12, 16, 24, 40, 64}) {
			w := newWorld()
			a := kid{w.node(ufs{Type: u64(tFile), FileSize: u64(0), Mode: u64(1)}), 0, 6}
			b := kid{w.node(ufs{Type: u64(tFile), FileSize: u64(0), Mode: u64(2)}), 0, 6}
			for d := 0; d < depth; d++ {
				mk := func(which uint64) kid {
					return w.interior([]kid{a, b}, func(u *ufs, links *[]lnk) {
						u.Mode = u64(which)
						if sizes == "absent" {
							u.FileSize, u.BlockSizes = nil, nil
						}
					})
				}
				a, b = mk(1), mk(2)
			}
			runCase(r, fmt.Sprintf("file:shared-lattice,leaves=empty,sizes=%s,depth=%d", sizes, depth), w, a.c, nil, false)
			n++
		}
	}
	r.Sample(map[string]any{"family": "file", "cases": n})
}

// ---------------------------------------------------------------------------------------------
// directories, data types, absent and garbage Data

const noName = "\x00absent"

func dirLinks(w *world, names []string) []lnk {
	var links []lnk
	for i, nm := range names {
		l := lnk{C: w.raw([]byte(fmt.Sprintf("entry %d", i))), Tsize: u64(uint64(i))}
		if nm != noName {
			l.Name = str(nm)
		}
		if i%3 == 2 {
			l.Tsize = nil
		}
		links = append(links, l)
	}
	return links
}

func nameLabel(names []string) string {
	var out []string
	for _, n := range names {
		if n == noName {
			out = append(out, "-")
		} else if len(n) > 12 {
			out = append(out, fmt.Sprintf("%q..(%d)", n[:8], len(n)))
		} else {
			out = append(out, fmt.Sprintf("%q", n))
		}
	}
	return "[" + strings.Join(out, ",") + "]"
}

func runDirsAndTypes(r *vp.Run) {
	n := 0
	nameLists := [][]string{
		{}, {noName}, {""}, {noName, noName}, {"", ""}, {noName, ""}, {"a", "a"}, {"a", noName, "a", "", "a"},
		{"a", "b", "c"}, {"c", "b", "a"}, {"a/b", "..", ".", "/"}, {"\x00", "\xff\xfe", "é"}, {strings.Repeat("n", 70000)},
		{"Links", "Data", "Hash", "Name", "Tsize"}, {"0", "00", "000", "0000"},
	}
	big := make([]string, 2000)
	for i := range big {
		big[i] = []string{noName, "", "dup", fmt.Sprintf("n%d", i)}[i%4]
	}
	nameLists = append(nameLists, big)
	dirData := []struct {
		name string
		u    ufs
	}{
		{"plain", ufs{Type: u64(tDirectory)}},
		{"with-file-fields", ufs{Type: u64(tDirectory), HasData: true, Data: []byte("junk"), FileSize: u64(1 << 63), BlockSizes: []uint64{1, math.MaxUint64}}},
		{"with-hamt-fields", ufs{Type: u64(tDirectory), HasData: true, Data: rep(0xff, 64), HashType: u64(0x22), Fanout: u64(3)}},
		{"with-mtime+mode", ufs{Type: u64(tDirectory), Mode: u64(math.MaxUint32), HasMtime: true, Mtime: vfield(1, math.MaxUint64)}},
	}
	for _, names := range nameLists {
		for _, dd := range dirData {
			w := newWorld()
			c := w.node(dd.u, dirLinks(w, names)...)
			id := fmt.Sprintf("dir:%s,names=%s", dd.name, nameLabel(names))
			if len(names) > 100 {
				id = fmt.Sprintf("dir:%s,names=%d-mixed", dd.name, len(names))
			}
			runCase(r, id, w, c, []string{"dup", "n3", "b"}, dd.name == "plain")
			n++
		}
	}
	// directory entries that point at missing / hostile blocks (lookups hand out links only)
	{
		w := newWorld()
		c := w.node(ufs{Type: u64(tDirectory)},
			named(gone(cid.DagProtobuf, "dir entry"), "gone-pb"), named(gone(cid.Raw, "dir entry"), "gone-raw"),
			named(w.other(cid.DagProtobuf, []byte{0xff}), "undecodable"), named(w.other(cid.DagCBOR, []byte{0xff}), "bad-cbor"))
		runCase(r, "dir:entries-missing-or-undecodable", w, c, nil, true)
		n++
	}

	// every data type x link shape x inline data
	tn := 0
	types := []uint64{0, 1, 2, 3, 4, 5, 6, 100, math.MaxInt32, math.MaxUint32 + 3, 1 << 63, math.MaxUint64}
	shapes := []struct {
		name string
		mk   func(w *world) []lnk
	}{
		{"none", func(w *world) []lnk { return nil }},
		{"raw", func(w *world) []lnk { return []lnk{unnamed(w.raw([]byte("abc")), 3), unnamed(w.raw([]byte("de")), 2)} }},
		{"pb", func(w *world) []lnk {
			return []lnk{unnamed(w.leafPB([]byte("abc")).c, 11), unnamed(w.leafPB(nil).c, 8)}
		}},
		{"named", func(w *world) []lnk {
			return []lnk{named(w.raw([]byte("abc")), "0abc"), named(w.leafPB([]byte("de")).c, "1")}
		}},
		{"nameless-no-tsize", func(w *world) []lnk { return []lnk{{C: w.raw([]byte("abc"))}, {C: w.leafPB([]byte("de")).c}} }},
		{"missing", func(w *world) []lnk {
			return []lnk{unnamed(gone(cid.Raw, "t"), 3), named(gone(cid.DagProtobuf, "t"), "0")}
		}},
	}
	for _, ty := range types {
		for _, sh := range shapes {
			for _, inline := range []string{"none", "empty", "bytes", "bitfield"} {
				w := newWorld()
				u := ufs{Type: u64(ty)}
				switch inline {
				case "empty":
					u.HasData = true
				case "bytes":
					u.HasData, u.Data = true, []byte("inline data")
				case "bitfield":
					u.HasData, u.Data, u.HashType, u.Fanout = true, []byte{0x03}, u64(0x22), u64(8)
				}
				c := w.node(u, sh.mk(w)...)
				runCase(r, fmt.Sprintf("type:t=%d,links=%s,data=%s", ty, sh.name, inline), w, c, []string{"abc", "de"}, ty <= 6 && inline != "empty")
				tn++
			}
		}
	}

	// Data absent, empty, and every hand-written decoder input as the Data of a block with links
	dn := 0
	for _, sh := range shapes {
		w := newWorld()
		runCase(r, "data:absent,links="+sh.name, w, w.pb(nil, false, sh.mk(w)), []string{"abc"}, true)
		w = newWorld()
		runCase(r, "data:empty,links="+sh.name, w, w.pb(nil, true, sh.mk(w)), []string{"abc"}, true)
		dn += 2
	}
	for _, in := range corpus() {
		if len(in.b) > 4096 && !vp.Thorough() {
			continue
		}
		w := newWorld()
		c := w.pb(in.b, true, []lnk{named(w.raw([]byte("abc")), "0abc"), named(w.leafPB([]byte("de")).c, "1")})
		runCase(r, "data:"+in.name, w, c, []string{"abc"}, false)
		dn++
	}
	r.Sample(map[string]any{"family": "dir+type+data", "dir": n, "type": tn, "data": dn})
}
