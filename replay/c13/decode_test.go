// Decoder inputs: a hand-written corpus of protobuf edge cases, pseudo-random byte strings and
// mutations of valid encodings, each given to DecodeUnixFSData, DecodeUnixTime and
// DecodeUnixFSMetadata. An error or a value is fine; a panic, or not coming back, is a failure.
package c13

import (
	"encoding/binary"
	"encoding/hex"
	"fmt"
	"math"
	"math/rand"
	"sync/atomic"

	"github.com/ipfs/go-unixfsnode/data"
	"github.com/ipld/go-ipld-prime/datamodel"
	"google.golang.org/protobuf/encoding/protowire"

	"replay/vp"
)

type input struct {
	name string
	b    []byte
}

func tag(num uint64, wt protowire.Type) []byte {
	return protowire.AppendVarint(nil, num<<3|uint64(wt))
}
func varint(v uint64) []byte { return protowire.AppendVarint(nil, v) }
func cat(parts ...[]byte) []byte {
	var out []byte
	for _, p := range parts {
		out = append(out, p...)
	}
	return out
}
func lenDelim(num uint64, payload []byte) []byte {
	return cat(tag(num, protowire.BytesType), varint(uint64(len(payload))), payload)
}
func vfield(num, v uint64) []byte { return cat(tag(num, protowire.VarintType), varint(v)) }
func rep(b byte, n int) []byte {
	out := make([]byte, n)
	for i := range out {
		out[i] = b
	}
	return out
}

// payloadFor is a well-formed value of the wire type.
func payloadFor(num uint64, wt protowire.Type) []byte {
	switch wt {
	case protowire.VarintType:
		return []byte{0x01}
	case protowire.Fixed64Type:
		return rep(0x01, 8)
	case protowire.BytesType:
		return []byte{0x02, 0x08, 0x01}
	case protowire.StartGroupType:
		return tag(num, protowire.EndGroupType)
	case protowire.Fixed32Type:
		return rep(0x01, 4)
	}
	return nil
}

// corpus is the deterministic list of hand-written decoder inputs.
func corpus() []input {
	var out []input
	add := func(name string, parts ...[]byte) { out = append(out, input{name, cat(parts...)}) }
	typeFile := vfield(1, tFile)

	add("empty")
	add("one-zero-byte", []byte{0})
	add("trunc-tag", []byte{0x80})
	add("trunc-tag-long", rep(0x80, 9))
	add("tag-overlong", rep(0xff, 10), []byte{0x01})
	add("tag-11-bytes", rep(0x80, 10), []byte{0x01})
	add("all-ff-64", rep(0xff, 64))
	add("all-80-64", rep(0x80, 64))
	add("all-00-64", rep(0x00, 64))

	// every wire type for every field number 1..9, alone and after a valid type field, whole
	// and with the value cut off
	for num := uint64(1); num <= 9; num++ {
		for wt := protowire.Type(0); wt <= 7; wt++ {
			p := payloadFor(num, wt)
			add(fmt.Sprintf("field=%d,wire=%d", num, wt), tag(num, wt), p)
			add(fmt.Sprintf("field=%d,wire=%d,after-type", num, wt), typeFile, tag(num, wt), p)
			add(fmt.Sprintf("field=%d,wire=%d,no-value", num, wt), typeFile, tag(num, wt))
			if len(p) > 1 {
				add(fmt.Sprintf("field=%d,wire=%d,half-value", num, wt), typeFile, tag(num, wt), p[:len(p)/2])
			}
		}
	}
	// field numbers at and beyond the limits
	add("field=0,varint", []byte{0x00, 0x01})
	add("field=0,bytes", []byte{0x02, 0x01, 0x00})
	add("field=0,after-type", typeFile, []byte{0x00, 0x01})
	add("field=2^29-1", typeFile, tag(1<<29-1, protowire.VarintType), []byte{0x01})
	add("field=2^29", typeFile, tag(1<<29, protowire.VarintType), []byte{0x01})
	add("field=2^32", typeFile, tag(1<<32, protowire.VarintType), []byte{0x01})
	add("field=2^60", typeFile, tag(1<<60, protowire.VarintType), []byte{0x01})
	add("field=max", typeFile, rep(0xff, 9), []byte{0x01, 0x01})

	// varints
	full := ufs{Type: u64(tFile), Data: []byte("hello"), HasData: true, FileSize: u64(300), BlockSizes: []uint64{200, 100},
		HashType: u64(0x22), Fanout: u64(256), Mode: u64(0644), HasMtime: true, Mtime: cat(vfield(1, 1700000000), tag(2, protowire.Fixed32Type), []byte{1, 2, 3, 4})}.enc()
	for k := 0; k <= len(full); k++ {
		add(fmt.Sprintf("trunc-varint@%d", k), full[:k])
	}
	fullPacked := ufs{Type: u64(tFile), FileSize: u64(1 << 40), BlockSizes: []uint64{1 << 39, 1 << 39, 0, 127, 128}, Packed: true}.enc()
	for k := 0; k <= len(fullPacked); k++ {
		add(fmt.Sprintf("trunc-packed@%d", k), fullPacked[:k])
	}
	for num := uint64(1); num <= 8; num++ {
		add(fmt.Sprintf("varint-10-bytes-max,field=%d", num), tag(num, 0), rep(0xff, 9), []byte{0x01})
		add(fmt.Sprintf("varint-10-bytes-overflow,field=%d", num), tag(num, 0), rep(0xff, 9), []byte{0x02})
		add(fmt.Sprintf("varint-11-bytes,field=%d", num), tag(num, 0), rep(0xff, 10), []byte{0x01})
		add(fmt.Sprintf("varint-non-minimal,field=%d", num), tag(num, 0), []byte{0x82, 0x80, 0x80, 0x00})
		add(fmt.Sprintf("varint-unterminated,field=%d", num), tag(num, 0), rep(0x80, 5))
		for _, v := range []uint64{0, 1, 127, 128, math.MaxInt32, math.MaxUint32, math.MaxUint32 + 1, math.MaxInt64, 1 << 63, math.MaxUint64} {
			add(fmt.Sprintf("value=%d,field=%d", v, num), vfield(num, v))
			add(fmt.Sprintf("value=%d,field=%d,after-type", v, num), typeFile, vfield(num, v))
		}
	}
	// lengths that promise more than there is
	for _, num := range []uint64{2, 4, 8, 9, 1} {
		for _, l := range []uint64{1, 2, 127, 128, 1 << 20, 1 << 31, 1<<31 + 1, 1 << 32, 1 << 62, 1 << 63, math.MaxUint64} {
			add(fmt.Sprintf("huge-length=%d,field=%d", l, num), typeFile, tag(num, protowire.BytesType), varint(l), []byte{0x08})
			add(fmt.Sprintf("huge-length=%d,field=%d,nothing-follows", l, num), typeFile, tag(num, protowire.BytesType), varint(l))
		}
	}
	// repeated fields
	for num := uint64(1); num <= 7; num++ {
		if num == 2 || num == 4 {
			continue
		}
		add(fmt.Sprintf("repeated,field=%d", num), typeFile, vfield(num, 1), vfield(num, 2))
		add(fmt.Sprintf("repeated-x100,field=%d", num), typeFile, cat(func() (p [][]byte) {
			for i := 0; i < 100; i++ {
				p = append(p, vfield(num, uint64(i)))
			}
			return
		}()...))
	}
	add("repeated,field=2", typeFile, lenDelim(2, []byte("a")), lenDelim(2, []byte("b")))
	add("repeated,field=8", typeFile, lenDelim(8, vfield(1, 1)), lenDelim(8, vfield(1, 2)))
	add("type-missing,data-only", lenDelim(2, []byte("abc")))
	add("type-missing,everything-else", full[2:])
	add("type-last", full[2:], typeFile)
	add("data-empty", typeFile, lenDelim(2, nil))
	add("data-64k", typeFile, lenDelim(2, rep(0xab, 1<<16)))

	// blocksizes
	packed := func(vs ...uint64) []byte {
		var p []byte
		for _, v := range vs {
			p = append(p, varint(v)...)
		}
		return lenDelim(4, p)
	}
	add("blocksizes:unpacked", typeFile, vfield(4, 1), vfield(4, 2))
	add("blocksizes:packed", typeFile, packed(1, 2, 300))
	add("blocksizes:packed-empty", typeFile, packed())
	add("blocksizes:packed-twice", typeFile, packed(1), packed(2))
	add("blocksizes:packed-empty-twice", typeFile, packed(), packed())
	add("blocksizes:unpacked-then-packed", typeFile, vfield(4, 1), packed(2))
	add("blocksizes:packed-then-unpacked", typeFile, packed(2), vfield(4, 1))
	add("blocksizes:packed-empty-then-unpacked", typeFile, packed(), vfield(4, 1))
	add("blocksizes:unpacked-then-packed-empty", typeFile, vfield(4, 1), packed())
	add("blocksizes:unpacked,split-by-other-fields", typeFile, vfield(4, 1), vfield(3, 9), vfield(4, 2), lenDelim(2, []byte("x")), vfield(4, 3))
	add("blocksizes:before-type", vfield(4, 1), vfield(4, 2), typeFile)
	add("blocksizes:packed-before-type", packed(1, 2), typeFile)
	add("blocksizes:packed,trunc-varint", typeFile, lenDelim(4, []byte{0x01, 0x80}))
	add("blocksizes:packed,only-continuation-bytes", typeFile, lenDelim(4, rep(0x80, 7)))
	add("blocksizes:packed,overlong-varint", typeFile, lenDelim(4, cat(rep(0xff, 10), []byte{0x01})))
	add("blocksizes:packed,overflow-varint", typeFile, lenDelim(4, cat(rep(0xff, 9), []byte{0x7f})))
	add("blocksizes:packed,overflow-then-more", typeFile, lenDelim(4, cat(rep(0xff, 9), []byte{0x7f, 0x01, 0x02})))
	add("blocksizes:packed,non-minimal", typeFile, lenDelim(4, []byte{0x81, 0x00, 0x80, 0x00}))
	add("blocksizes:packed,max-values", typeFile, packed(math.MaxUint64, 1<<63, math.MaxInt64))
	add("blocksizes:unpacked,max-values", typeFile, vfield(4, math.MaxUint64), vfield(4, 1<<63), vfield(4, math.MaxInt64))
	add("blocksizes:packed,10000", typeFile, lenDelim(4, rep(0x01, 10000)))
	add("blocksizes:packed,10000-two-byte", typeFile, lenDelim(4, cat(func() (p [][]byte) {
		for i := 0; i < 10000; i++ {
			p = append(p, []byte{0x80, 0x01})
		}
		return
	}()...)))
	add("blocksizes:unpacked,10000", typeFile, cat(func() (p [][]byte) {
		for i := 0; i < 10000; i++ {
			p = append(p, vfield(4, uint64(i)))
		}
		return
	}()...))
	add("blocksizes:fixed32", typeFile, tag(4, protowire.Fixed32Type), rep(1, 4))
	add("blocksizes:fixed64", typeFile, tag(4, protowire.Fixed64Type), rep(1, 8))
	add("blocksizes:group", typeFile, tag(4, protowire.StartGroupType), tag(4, protowire.EndGroupType))
	add("blocksizes:unpacked-then-wrong-wire", typeFile, vfield(4, 1), tag(4, protowire.Fixed32Type), rep(1, 4))
	add("blocksizes:unpacked-then-error", typeFile, vfield(4, 1), []byte{0xff})
	add("blocksizes:unpacked-then-repeated-type", typeFile, vfield(4, 1), typeFile)

	// mode
	for _, v := range []uint64{0, 0777, math.MaxUint32, math.MaxUint32 + 1, 1 << 40, math.MaxUint64} {
		add(fmt.Sprintf("mode=%d", v), typeFile, vfield(7, v))
	}
	add("mode-too-big-then-garbage", typeFile, vfield(7, 1<<33), []byte{0xff, 0xff})

	// nested Mtime (the same payloads also go to DecodeUnixTime directly, as "time:...")
	times := []input{
		{"empty", nil},
		{"seconds", vfield(1, 1700000000)},
		{"seconds=0", vfield(1, 0)},
		{"seconds-negative", vfield(1, math.MaxUint64)},
		{"seconds-minint64", vfield(1, 1<<63)},
		{"seconds-twice", cat(vfield(1, 1), vfield(1, 2))},
		{"nanos-only", cat(tag(2, protowire.Fixed32Type), []byte{1, 0, 0, 0})},
		{"seconds+nanos", cat(vfield(1, 5), tag(2, protowire.Fixed32Type), []byte{1, 0, 0, 0})},
		{"nanos+seconds", cat(tag(2, protowire.Fixed32Type), []byte{1, 0, 0, 0}, vfield(1, 5))},
		{"nanos-max", cat(vfield(1, 5), tag(2, protowire.Fixed32Type), []byte{0xff, 0xff, 0xff, 0xff})},
		{"nanos-twice", cat(vfield(1, 5), tag(2, protowire.Fixed32Type), []byte{1, 0, 0, 0}, tag(2, protowire.Fixed32Type), []byte{2, 0, 0, 0})},
		{"nanos-as-varint", cat(vfield(1, 5), vfield(2, 7))},
		{"nanos-as-fixed64", cat(vfield(1, 5), tag(2, protowire.Fixed64Type), rep(1, 8))},
		{"nanos-as-bytes", cat(vfield(1, 5), lenDelim(2, []byte{1, 2, 3, 4}))},
		{"nanos-trunc", cat(vfield(1, 5), tag(2, protowire.Fixed32Type), []byte{1, 0})},
		{"seconds-as-fixed64", cat(tag(1, protowire.Fixed64Type), rep(1, 8))},
		{"seconds-as-fixed32", cat(tag(1, protowire.Fixed32Type), rep(1, 4))},
		{"seconds-as-bytes", lenDelim(1, []byte{1})},
		{"seconds-trunc", cat(tag(1, 0), []byte{0x80})},
		{"seconds-overflow", cat(tag(1, 0), rep(0xff, 9), []byte{0x02})},
		{"unknown-fields", cat(vfield(1, 5), vfield(3, 9), lenDelim(4, []byte("xx")), tag(5, protowire.Fixed64Type), rep(0, 8))},
		{"unknown-field-trunc", cat(vfield(1, 5), tag(3, protowire.BytesType), varint(100), []byte{1})},
		{"group", cat(vfield(1, 5), tag(3, protowire.StartGroupType), vfield(1, 1), tag(3, protowire.EndGroupType))},
		{"group-unclosed", cat(vfield(1, 5), tag(3, protowire.StartGroupType), vfield(1, 1))},
		{"group-mismatched", cat(vfield(1, 5), tag(3, protowire.StartGroupType), tag(4, protowire.EndGroupType))},
		{"end-group-alone", cat(vfield(1, 5), tag(3, protowire.EndGroupType))},
		{"field-0", []byte{0x00, 0x00}},
		{"garbage", []byte{0xde, 0xad, 0xbe, 0xef, 0xff}},
		{"all-ff", rep(0xff, 32)},
	}
	for _, tm := range times {
		add("mtime:"+tm.name, typeFile, lenDelim(8, tm.b))
		add("mtime-first:"+tm.name, lenDelim(8, tm.b), typeFile)
		add("time:"+tm.name, tm.b)
	}
	add("mtime:huge-nested-length", typeFile, tag(8, protowire.BytesType), varint(6), tag(1, protowire.BytesType), varint(1<<40), []byte{1, 2, 3})
	add("mtime:as-varint", typeFile, vfield(8, 5))
	add("mtime:as-fixed64", typeFile, tag(8, protowire.Fixed64Type), rep(1, 8))
	add("mtime:nested-x3", typeFile, lenDelim(8, lenDelim(8, lenDelim(8, vfield(1, 1)))))

	// groups
	add("group:field=9", typeFile, tag(9, protowire.StartGroupType), vfield(1, 1), tag(9, protowire.EndGroupType))
	add("group:field=1", tag(1, protowire.StartGroupType), vfield(1, 1), tag(1, protowire.EndGroupType))
	add("group:unclosed", typeFile, tag(9, protowire.StartGroupType), vfield(1, 1))
	add("group:mismatched-end", typeFile, tag(9, protowire.StartGroupType), tag(10, protowire.EndGroupType))
	add("group:end-alone", typeFile, tag(9, protowire.EndGroupType))
	for _, depth := range []int{100, 9999, 10000, 10001, 100000} {
		var open, closing []byte
		for i := 0; i < depth; i++ {
			open = append(open, tag(9, protowire.StartGroupType)...)
			closing = append(closing, tag(9, protowire.EndGroupType)...)
		}
		add(fmt.Sprintf("group:nested=%d", depth), typeFile, open, closing)
		add(fmt.Sprintf("group:nested=%d,unclosed", depth), typeFile, open)
	}

	// every data type, plain and with every other field present
	for _, ty := range []uint64{0, 1, 2, 3, 4, 5, 6, 100, math.MaxInt32, math.MaxUint32 + 2, 1 << 63, math.MaxUint64} {
		add(fmt.Sprintf("type=%d", ty), vfield(1, ty))
		add(fmt.Sprintf("type=%d,all-fields", ty), vfield(1, ty), full[2:])
	}
	// HAMT fields
	for _, v := range []uint64{0, 1, 3, 8, 256, 1 << 20, 1 << 62, 1 << 63, math.MaxUint64} {
		add(fmt.Sprintf("hamt:fanout=%d", v), vfield(1, tHAMT), lenDelim(2, []byte{0xff}), vfield(5, 0x22), vfield(6, v))
		add(fmt.Sprintf("hamt:hashtype=%d", v), vfield(1, tHAMT), lenDelim(2, []byte{0xff}), vfield(5, v), vfield(6, 8))
	}

	// metadata (field 1 is MimeType there)
	add("meta:mime", lenDelim(1, []byte("text/plain")))
	add("meta:mime-empty", lenDelim(1, nil))
	add("meta:mime-twice", lenDelim(1, []byte("a")), lenDelim(1, []byte("b")))
	add("meta:mime-not-utf8", lenDelim(1, []byte{0xff, 0xfe, 0x80, 0x00}))
	add("meta:mime-64k", lenDelim(1, rep('a', 1<<16)))
	add("meta:mime-trunc", tag(1, protowire.BytesType), varint(10), []byte("abc"))
	add("meta:mime-huge-length", tag(1, protowire.BytesType), varint(1<<62))
	add("meta:mime-as-fixed32", tag(1, protowire.Fixed32Type), rep(1, 4))
	add("meta:unknown-only", vfield(2, 5), lenDelim(3, []byte("zz")))
	add("meta:unknown-then-mime", vfield(2, 5), lenDelim(1, []byte("a")))
	return out
}

// walkValue visits everything reachable from a decoded value.
func walkValue(n datamodel.Node, depth int) {
	if n == nil || depth > 4 {
		return
	}
	switch n.Kind() {
	case datamodel.Kind_Map:
		n.Length()
		for it := n.MapIterator(); it != nil && !it.Done(); {
			k, v, err := it.Next()
			if err != nil {
				return
			}
			walkValue(k, depth+1)
			walkValue(v, depth+1)
		}
	case datamodel.Kind_List:
		l := n.Length()
		it := n.ListIterator()
		for i := int64(0); it != nil && !it.Done() && i <= l; i++ {
			_, v, err := it.Next()
			if err != nil {
				return
			}
			walkValue(v, depth+1)
		}
	case datamodel.Kind_Int:
		n.AsInt()
	case datamodel.Kind_Bytes:
		n.AsBytes()
	case datamodel.Kind_String:
		n.AsString()
	}
	n.IsNull()
	n.IsAbsent()
}

type decoder struct {
	name string
	fn   func([]byte) (datamodel.Node, error)
}

var decoders = []decoder{
	{"data", func(b []byte) (datamodel.Node, error) {
		v, err := data.DecodeUnixFSData(b)
		if err != nil {
			return nil, err
		}
		// the accessors reification relies on
		v.FieldDataType().Int()
		v.FieldBlockSizes().Length()
		v.FieldData().Exists()
		v.FieldFileSize().Exists()
		v.FieldFanout().Exists()
		v.FieldHashType().Exists()
		return v, nil
	}},
	{"time", func(b []byte) (datamodel.Node, error) {
		v, err := data.DecodeUnixTime(b)
		if err != nil {
			return nil, err
		}
		return v, nil
	}},
	{"meta", func(b []byte) (datamodel.Node, error) {
		v, err := data.DecodeUnixFSMetadata(b)
		if err != nil {
			return nil, err
		}
		return v, nil
	}},
}

func hexOf(b []byte) string {
	if len(b) > 48 {
		return fmt.Sprintf("%s...(%d bytes)", hex.EncodeToString(b[:48]), len(b))
	}
	return hex.EncodeToString(b)
}

// decodeAll gives every input of the batch to the three decoders, the batch under one watchdog.
func decodeAll(r *vp.Run, batch []input) {
	if len(batch) == 0 {
		return
	}
	var cur atomic.Value
	cur.Store("start")
	watchdog(r, "decode:batch:"+batch[0].name+"..", &cur, func() {
		for _, in := range batch {
			for _, d := range decoders {
				id := "decode:" + d.name + ":" + in.name
				r.Eval(id)
				cur.Store(id + " input=" + hexOf(in.b))
				r.Guard(id, func() {
					defer func() {
						if p := recover(); p != nil {
							r.Fail(id, "Decode: panic: %v [%s] input=%s", p, stackTop(), hexOf(in.b))
						}
					}()
					v, err := d.fn(in.b)
					if err == nil {
						if v == nil {
							r.Fail(id, "Decode: neither a value nor an error; input=%s", hexOf(in.b))
							return
						}
						walkValue(v, 0)
					}
				})
			}
		}
	})
}

// randomValid is a random well-formed UnixFSData / UnixTime / Metadata encoding.
func randomValid(rng *rand.Rand) []byte {
	special := []uint64{0, 1, 2, 127, 128, 255, 256, 1 << 20, math.MaxInt32, math.MaxUint32, math.MaxInt64, 1 << 63, math.MaxUint64}
	num := func() uint64 {
		if rng.Intn(3) == 0 {
			return special[rng.Intn(len(special))]
		}
		return uint64(rng.Intn(100000))
	}
	tm := func() []byte {
		b := vfield(1, num())
		if rng.Intn(2) == 0 {
			b = cat(b, tag(2, protowire.Fixed32Type), binary.LittleEndian.AppendUint32(nil, uint32(rng.Intn(1000000000))))
		}
		return b
	}
	switch rng.Intn(8) {
	case 0:
		return tm()
	case 1:
		return lenDelim(1, []byte("text/"+fmt.Sprint(rng.Intn(100))))
	}
	u := ufs{Type: u64(uint64(rng.Intn(6)))}
	if rng.Intn(2) == 0 {
		u.HasData = true
		u.Data = make([]byte, rng.Intn(12))
		rng.Read(u.Data)
	}
	if rng.Intn(2) == 0 {
		u.FileSize = u64(num())
	}
	for k := rng.Intn(5); k > 0; k-- {
		u.BlockSizes = append(u.BlockSizes, num())
	}
	u.Packed = rng.Intn(2) == 0 && len(u.BlockSizes) > 0
	if rng.Intn(3) == 0 {
		u.HashType = u64(0x22)
		u.Fanout = u64(1 << uint(rng.Intn(11)))
	}
	if rng.Intn(3) == 0 {
		u.Mode = u64(uint64(rng.Intn(1 << 12)))
	}
	if rng.Intn(3) == 0 {
		u.HasMtime, u.Mtime = true, tm()
	}
	return u.enc()
}

// structured is a random sequence of (tag, value) pairs over small field numbers: closer to
// the decoders' branches than uniform noise.
func structured(rng *rand.Rand) []byte {
	var b []byte
	for k := 1 + rng.Intn(6); k > 0; k-- {
		num := uint64(rng.Intn(11))
		wt := protowire.Type(rng.Intn(8))
		if rng.Intn(4) != 0 {
			wt = []protowire.Type{0, 2, 0, 2, 5}[rng.Intn(5)]
		}
		b = append(b, tag(num, wt)...)
		switch rng.Intn(6) {
		case 0: // nothing, or noise
			p := make([]byte, rng.Intn(4))
			rng.Read(p)
			b = append(b, p...)
		case 1:
			b = append(b, varint(rng.Uint64())...)
		case 2:
			p := make([]byte, rng.Intn(10))
			rng.Read(p)
			b = append(b, varint(uint64(len(p)))...)
			b = append(b, p...)
		case 3:
			b = append(b, varint(uint64(rng.Intn(8)))...)
		case 4:
			inner := structuredShallow(rng)
			b = append(b, varint(uint64(len(inner)))...)
			b = append(b, inner...)
		default:
			b = append(b, payloadFor(num, wt)...)
		}
	}
	return b
}

func structuredShallow(rng *rand.Rand) []byte {
	var b []byte
	for k := rng.Intn(4); k > 0; k-- {
		b = append(b, tag(uint64(rng.Intn(4)), protowire.Type(rng.Intn(6)))...)
		b = append(b, varint(uint64(rng.Intn(300)))...)
	}
	return b
}

// mutate applies 1..3 bit flips, truncations, splices, duplications or byte overwrites.
func mutate(rng *rand.Rand, b []byte) []byte {
	b = append([]byte(nil), b...)
	for k := 1 + rng.Intn(3); k > 0; k-- {
		switch op := rng.Intn(7); {
		case len(b) == 0 || op == 0: // splice in a piece of another valid encoding
			o := randomValid(rng)
			if len(o) > 0 {
				lo := rng.Intn(len(o))
				piece := o[lo : lo+rng.Intn(len(o)-lo+1)]
				at := rng.Intn(len(b) + 1)
				b = cat(b[:at], piece, b[at:])
			}
		case op == 1: // bit flip
			i := rng.Intn(len(b))
			b[i] ^= 1 << uint(rng.Intn(8))
		case op == 2: // truncate
			b = b[:rng.Intn(len(b))]
		case op == 3: // drop the head
			b = b[rng.Intn(len(b)):]
		case op == 4: // overwrite with an interesting byte
			b[rng.Intn(len(b))] = []byte{0x00, 0x7f, 0x80, 0xff, 0x01, 0x08, 0x22, 0x42}[rng.Intn(8)]
		case op == 5: // duplicate a range
			lo := rng.Intn(len(b))
			hi := lo + rng.Intn(len(b)-lo+1)
			b = cat(b[:hi], b[lo:hi], b[hi:])
		default: // cut a range out
			lo := rng.Intn(len(b))
			hi := lo + rng.Intn(len(b)-lo+1)
			b = cat(b[:lo], b[hi:])
		}
	}
	return b
}

func runDecoders(r *vp.Run) {
	cp := corpus()
	decodeAll(r, cp)

	n := vp.Pick(3000, 100000)
	rng := vp.Rng(1301)
	var batch []input
	flush := func() {
		decodeAll(r, batch)
		batch = batch[:0]
	}
	for i := 0; i < n; i++ {
		var b []byte
		switch i % 3 {
		case 0: // uniform noise, short
			b = make([]byte, rng.Intn(1+rng.Intn(48)))
			rng.Read(b)
		case 1: // noise over the bytes that matter to a protobuf parser
			b = make([]byte, rng.Intn(24))
			for j := range b {
				b[j] = []byte{0x00, 0x01, 0x02, 0x08, 0x0a, 0x10, 0x12, 0x18, 0x20, 0x22, 0x28, 0x30, 0x38, 0x42, 0x45, 0x80, 0xff, 0x7f, 0x15, 0x0d}[rng.Intn(20)]
			}
		default:
			b = structured(rng)
		}
		batch = append(batch, input{fmt.Sprintf("rand=%d", i), b})
		batch = append(batch, input{fmt.Sprintf("mut=%d", i), mutate(rng, randomValid(rng))})
		if len(batch) >= 2000 {
			flush()
		}
	}
	flush()
	r.Sample(map[string]any{"family": "decode", "hand-written": len(cp), "rand": n, "mut": n, "decoders": len(decoders)})
}
