// Hand encoders for dag-pb blocks and UnixFS Data payloads (protowire only), and the metered
// block store ("world") the hostile DAGs live in. Nothing here uses the library under test, so
// that fields can be left out, repeated, given the wrong size or filled with negative-looking
// numbers at will. Every dag-pb block that is stored is first decoded with go-codec-dagpb: a
// block that does not decode is a harness bug (the property is about structurally valid dag-pb).
package c13

import (
	"errors"
	"fmt"
	"io"
	"sync/atomic"

	"github.com/ipfs/go-cid"
	dagpb "github.com/ipld/go-codec-dagpb"
	"github.com/ipld/go-ipld-prime"
	"github.com/ipld/go-ipld-prime/datamodel"
	"github.com/ipld/go-ipld-prime/linking"
	cidlink "github.com/ipld/go-ipld-prime/linking/cid"
	mh "github.com/multiformats/go-multihash"
	"google.golang.org/protobuf/encoding/protowire"

	"replay/vp"
)

func u64(v uint64) *uint64 { return &v }
func str(s string) *string { return &s }

// ---------------------------------------------------------------------------------------------
// UnixFS Data payload

// ufs is a UnixFS Data message; nil pointers / false flags leave the field out.
type ufs struct {
	Type       *uint64
	Data       []byte
	HasData    bool
	FileSize   *uint64
	BlockSizes []uint64
	Packed     bool // blocksizes as one packed field instead of repeated varints
	HashType   *uint64
	Fanout     *uint64
	Mode       *uint64
	Mtime      []byte // raw bytes of the nested UnixTime message
	HasMtime   bool
	Extra      []byte // appended verbatim (unknown fields and the like)
}

func (u ufs) enc() []byte {
	var b []byte
	if u.Type != nil {
		b = protowire.AppendTag(b, 1, protowire.VarintType)
		b = protowire.AppendVarint(b, *u.Type)
	}
	if u.HasData {
		b = protowire.AppendTag(b, 2, protowire.BytesType)
		b = protowire.AppendBytes(b, u.Data)
	}
	if u.FileSize != nil {
		b = protowire.AppendTag(b, 3, protowire.VarintType)
		b = protowire.AppendVarint(b, *u.FileSize)
	}
	if u.Packed {
		var p []byte
		for _, s := range u.BlockSizes {
			p = protowire.AppendVarint(p, s)
		}
		b = protowire.AppendTag(b, 4, protowire.BytesType)
		b = protowire.AppendBytes(b, p)
	} else {
		for _, s := range u.BlockSizes {
			b = protowire.AppendTag(b, 4, protowire.VarintType)
			b = protowire.AppendVarint(b, s)
		}
	}
	if u.HashType != nil {
		b = protowire.AppendTag(b, 5, protowire.VarintType)
		b = protowire.AppendVarint(b, *u.HashType)
	}
	if u.Fanout != nil {
		b = protowire.AppendTag(b, 6, protowire.VarintType)
		b = protowire.AppendVarint(b, *u.Fanout)
	}
	if u.Mode != nil {
		b = protowire.AppendTag(b, 7, protowire.VarintType)
		b = protowire.AppendVarint(b, *u.Mode)
	}
	if u.HasMtime {
		b = protowire.AppendTag(b, 8, protowire.BytesType)
		b = protowire.AppendBytes(b, u.Mtime)
	}
	return append(b, u.Extra...)
}

// UnixFS data types.
const (
	tRaw = iota
	tDirectory
	tFile
	tMetadata
	tSymlink
	tHAMT
)

// ---------------------------------------------------------------------------------------------
// dag-pb block

// lnk is one dag-pb link; nil Name / Tsize leave the field out.
type lnk struct {
	C     cid.Cid
	Name  *string
	Tsize *uint64
}

func (l lnk) withName(n string) lnk   { l.Name = str(n); return l }
func (l lnk) withTsize(t uint64) lnk  { l.Tsize = u64(t); return l }
func named(c cid.Cid, n string) lnk   { return lnk{C: c, Name: str(n), Tsize: u64(1)} }
func unnamed(c cid.Cid, t uint64) lnk { return lnk{C: c, Tsize: u64(t)} }

// encPB encodes a dag-pb block: the links in the order given (go-codec-dagpb accepts any order),
// then Data when hasData.
func encPB(data []byte, hasData bool, links []lnk) []byte {
	var b []byte
	for _, l := range links {
		var lb []byte
		lb = protowire.AppendTag(lb, 1, protowire.BytesType)
		lb = protowire.AppendBytes(lb, l.C.Bytes())
		if l.Name != nil {
			lb = protowire.AppendTag(lb, 2, protowire.BytesType)
			lb = protowire.AppendBytes(lb, []byte(*l.Name))
		}
		if l.Tsize != nil {
			lb = protowire.AppendTag(lb, 3, protowire.VarintType)
			lb = protowire.AppendVarint(lb, *l.Tsize)
		}
		b = protowire.AppendTag(b, 2, protowire.BytesType)
		b = protowire.AppendBytes(b, lb)
	}
	if hasData {
		b = protowire.AppendTag(b, 1, protowire.BytesType)
		b = protowire.AppendBytes(b, data)
	}
	return b
}

// ---------------------------------------------------------------------------------------------
// world: a store with accounting and a metered link system

var errBudget = errors.New("c13: block load budget exhausted")

// world is the block store of one case together with what was put into it (the yardstick for
// "work proportional to the data") and a meter on block loads.
type world struct {
	st     *vp.Store
	blocks int // blocks stored
	links  int // links in all stored dag-pb blocks
	bytes  int // bytes stored
	output int // bytes a full read of the root legitimately yields beyond what is stored (fan-in)
	names  []string

	loads  atomic.Int64 // block loads since the last reset
	budget atomic.Int64
	blown  atomic.Bool
}

func newWorld() *world { return &world{st: vp.NewStore()} }

func cidOf(codec uint64, raw []byte) cid.Cid {
	c, err := cid.Prefix{Version: 1, Codec: codec, MhType: mh.SHA2_256, MhLength: 32}.Sum(raw)
	if err != nil {
		panic(err)
	}
	return c
}

func (w *world) store(c cid.Cid, raw []byte) {
	k := string(c.Hash())
	if _, dup := w.st.Blocks[k]; !dup {
		w.blocks++
		w.bytes += len(raw)
	}
	w.st.Blocks[k] = raw
}

// pb stores a dag-pb block (CIDv1) and returns its CID.
func (w *world) pb(data []byte, hasData bool, links []lnk) cid.Cid {
	raw := encPB(data, hasData, links)
	nb := dagpb.Type.PBNode.NewBuilder()
	if err := dagpb.DecodeBytes(nb, raw); err != nil {
		panic(fmt.Sprintf("harness bug: hand-built dag-pb block does not decode: %v", err))
	}
	c := cidOf(cid.DagProtobuf, raw)
	if _, dup := w.st.Blocks[string(c.Hash())]; !dup {
		w.links += len(links)
		for _, l := range links {
			if l.Name != nil {
				w.names = append(w.names, *l.Name)
			}
		}
	}
	w.store(c, raw)
	return c
}

// node stores a dag-pb block whose Data is the UnixFS message u.
func (w *world) node(u ufs, links ...lnk) cid.Cid { return w.pb(u.enc(), true, links) }

// raw stores a raw block.
func (w *world) raw(b []byte) cid.Cid {
	c := cidOf(cid.Raw, b)
	w.store(c, b)
	return c
}

// other stores bytes under a CID of the given codec without checking that they decode.
func (w *world) other(codec uint64, b []byte) cid.Cid {
	c := cidOf(codec, b)
	w.store(c, b)
	return c
}

// gone returns the CID of a block that is not in the store.
func gone(codec uint64, tag string) cid.Cid { return cidOf(codec, []byte("never stored: "+tag)) }

// v0 turns a dag-pb CIDv1 into the CIDv0 of the same block.
func v0(c cid.Cid) cid.Cid { return cid.NewCidV0(c.Hash()) }

// yardstick is the number of block loads / iterator steps / read calls one operation may spend:
// ten times everything the case was given (and every byte of output it legitimately has to
// produce beyond that), plus ten.
func (w *world) yardstick() int64 { return 10*int64(w.blocks+w.links+w.output) + 10 }

// stepCap is the cap on pairs one iterator may yield: ten times the links of the DAG plus ten.
func (w *world) stepCap() int64 { return 10*int64(w.links) + 10 }

// ls returns a link system over the store whose reads are metered: past the budget every load
// fails with errBudget (so that runaway work ends) and the meter is marked blown.
func (w *world) ls() *ipld.LinkSystem {
	ls := w.st.LS()
	inner := ls.StorageReadOpener
	ls.StorageReadOpener = func(lc linking.LinkContext, l datamodel.Link) (io.Reader, error) {
		if n := w.loads.Add(1); n > w.budget.Load() {
			w.blown.Store(true)
			return nil, errBudget
		}
		return inner(lc, l)
	}
	return ls
}

func (w *world) reset() {
	w.loads.Store(0)
	w.budget.Store(w.yardstick())
	w.blown.Store(false)
	w.st.ResetLog()
}

func link(c cid.Cid) datamodel.Link { return cidlink.Link{Cid: c} }
