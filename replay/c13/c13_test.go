// C13 bounded stand-in: malformed or hostile blocks produce errors, never panics or unbounded
// work.
//
// What is run (quick | thorough):
//
//	decode:  ~1000 hand-written protobuf edge cases, 3000 | 100000 pseudo-random byte strings
//	         and as many mutations (bit flips, truncations, splices, ...) of valid encodings, each
//	         given to DecodeUnixFSData, DecodeUnixTime and DecodeUnixFSMetadata;
//	hamt:    hand-built HAMTs (fanouts {8,256} | {8..1024}): every shard defect (bitfield, fanout,
//	         hash type, link names, Tsize) at the root and one and two levels down, every hostile
//	         kind of child under a child link, children of another fanout, chains that use up
//	         the 64 hash bits, shared children (same child in every bucket; a two-wide lattice);
//	file:    hand-built file DAGs: every defect of an interior node (blocksizes, FileSize, Tsize)
//	         over pb / raw / mixed children at depth 1..3, every hostile kind of child first /
//	         middle / last / alone with sizes recorded or not, deep chains, wide nodes, shared
//	         children;
//	dir, type, data: directories with absent / empty / duplicate names, every DataType 0..5 and
//	         unknown ones over six link shapes, Data absent / empty / each hand-written decoder
//	         input as the Data of a block with links;
//	rand:    300 | 5000 seeded random DAGs assembled from the same ingredients.
//
// Every root is loaded as dag-pb and reified through unixfsnode.Reify and the "unixfs-preload"
// reifier registered by AddUnixFSReificationToLinkSystem (hand cases marked full also through
// "unixfs" and through traversals with the entity / preload selectors). A reify error is an
// acceptable outcome. Every node that comes back is put through Kind, Length, the four lookups
// (+ native Lookup), full MapIterator / native Iterator iteration (going on after errors, and
// stopping at the first), AsBytes, AsLargeBytes + Read to EOF + Seek with all whence values and
// negative / past-the-end / extreme offsets.
//
// A case fails when an operation
//   - panics (the detail names the operation, the panic value and the top of the stack);
//   - loads more than 10*(blocks+links of the whole DAG)+10 blocks, makes an iterator yield more
//     than 10*links+10 pairs, or a reader more than that many read calls / more than
//     10*stored bytes+4096 bytes ("unbounded work"); past the load budget the store refuses
//     further loads so that runaway work comes to an end;
//   - or the case as a whole does not finish within 5 s | 20 s (watchdog).
package c13

import (
	"testing"

	_ "github.com/ipld/go-ipld-prime/codec/dagcbor"
	_ "github.com/ipld/go-ipld-prime/codec/dagjson"
	_ "github.com/ipld/go-ipld-prime/codec/raw"

	"replay/vp"
)

func TestBounded(t *testing.T) {
	r := vp.New(t)
	defer r.Done()
	runDecoders(r)
	runHamt(r)
	runFiles(r)
	runDirsAndTypes(r)
	runRandom(r)
}
