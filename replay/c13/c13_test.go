// C13 bounded stand-in: malformed or hostile blocks produce errors, never panics or unbounded
// work.
//
// What is run (quick | thorough):
//
//	decode:  848 hand-written protobuf edge cases, 3000 | 100000 pseudo-random byte strings and
//	         as many mutations (bit flips, truncations, splices, ...) of valid encodings, each
//	         given to DecodeUnixFSData, DecodeUnixTime and DecodeUnixFSMetadata
//	         (decode:<data|time|meta>:<input>);
//	hamt:    hand-built HAMTs (fanouts {8,256} | {8,16,...,1024}): every shard defect (bitfield,
//	         fanout, hash type, link names, Tsize) at the root and one and two levels down, every
//	         hostile kind of child under a child link, children of another fanout, chains that
//	         use up the 64 hash bits, shared children (the same child in every bucket; a two-wide
//	         lattice);
//	file:    hand-built file DAGs: every defect of an interior node (blocksizes, FileSize, Tsize)
//	         over pb / raw / mixed children at depth 1..3, every hostile kind of child first /
//	         middle / last / alone with sizes recorded or not, deep chains, wide nodes, shared
//	         children (with content, and a lattice over empty leaves);
//	dir, type, data: directories with absent / empty / duplicate names, every DataType 0..5 and
//	         unknown ones over six link shapes, Data absent / empty / each hand-written decoder
//	         input as the Data of a block with links;
//	rand:    300 | 5000 seeded random DAGs (dag-pb and raw blocks only) assembled from the same
//	         ingredients; DAG i depends on (VERIF_SEED, i) alone.
//
// Cases whose hostile child is a block of another codec than dag-pb / raw (dag-json, dag-cbor)
// have a class of their own: "hamt-foreign:", "file-foreign:".
//
// Every root is loaded as dag-pb and reified through unixfsnode.Reify and through the
// "unixfs-preload" reifier registered by AddUnixFSReificationToLinkSystem; "full" cases (a
// choice of hand-built ones | every hand-built one of at most 300 blocks) also through the
// "unixfs" reifier and through traversals with the entity / preload / explore-all selectors and
// BytesConsumingMatcher. A reify error is an acceptable outcome. Every node that comes back is
// put through Kind, Length, LookupByString / ByNode / BySegment (+ native Lookup) for up to
// ~50 | ~90 keys, LookupByIndex, full MapIterator / native Iterator iteration (going on after
// errors, and stopping at the first; one call past the end), AsBytes, AsLargeBytes + Read to
// EOF + Seek with whence 0, 1, 2 (full: also invalid ones) and zero / negative / past-the-end /
// extreme offsets, a Read after every Seek.
//
// A case fails when an operation
//   - panics (the detail names the operation, the panic value and the innermost frames);
//   - loads more than 10*(blocks+links of the whole DAG)+10 blocks ("the yardstick"), makes an
//     iterator yield more than 10*links+10 pairs, a reader need more read calls than the
//     yardstick or yield more than 10*stored bytes+4096 bytes, or a traversal visit more than ten
//     yardsticks of nodes: "unbounded work". Past the load budget the store refuses further
//     loads, so that runaway work comes to an end;
//   - or when the case as a whole does not finish within 5 s | 20 s (watchdog; the detail names
//     the operation under way).
//
// One root cause usually shows in many operations of a case: failures are reported once per
// (case, signature), naming the first operation and counting the others; a case that has blown
// the same budget in six operations is abandoned (every such operation costs the whole budget).
package c13

import (
	"testing"

	_ "github.com/ipld/go-ipld-prime/codec/dagcbor"
	_ "github.com/ipld/go-ipld-prime/codec/dagjson"
	_ "github.com/ipld/go-ipld-prime/codec/raw"

	"replay/vp"
)

func TestBounded(t *testing.T) {
	r := vp.New(t)
	defer r.Done()
	runDecoders(r)
	runHamt(r)
	runFiles(r)
	runDirsAndTypes(r)
	runRandom(r)
}
