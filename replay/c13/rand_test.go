// Seeded random DAGs assembled from the ingredients of the hand-built families. DAG i is a
// function of (VERIF_SEED, i) alone, so "rand:dag=17" names the same DAG in both tiers.
package c13

import (
	"fmt"
	"math"
	"math/rand"
	"sort"

	"github.com/ipfs/go-cid"

	"replay/vp"
)

type gen struct {
	h             float64 // hostility: the probability that a choice goes wrong
	rng           *rand.Rand
	w             *world
	pool          []kid // everything built so far (for fan-in)
	files, shards []kid // the file subtrees / shards among them
	count         int
	names         []string
}

var specialNums = []uint64{0, 1, 2, 3, 5, 127, 128, 1 << 20, math.MaxInt32, math.MaxUint32, 1 << 40, 1 << 62, math.MaxInt64, 1 << 63, 1<<63 + 1, math.MaxUint64 - 1, math.MaxUint64}

// bad decides whether the next choice is a hostile one. Mostly well-formed DAGs with a few
// defects let walks get deep before they meet one; thoroughly broken ones are in the mix too.
func (g *gen) bad() bool { return g.rng.Float64() < g.h }

func (g *gen) special() uint64 { return specialNums[g.rng.Intn(len(specialNums))] }

// lie returns v most of the time, otherwise something near it or something hostile.
func (g *gen) lie(v uint64) uint64 {
	switch g.rng.Intn(10) {
	case 0:
		return g.special()
	case 1:
		return v + uint64(g.rng.Intn(4))
	case 2:
		if v > 0 {
			return v - 1
		}
	}
	return v
}

func (g *gen) bytes(max int) []byte {
	b := make([]byte, g.rng.Intn(max+1))
	g.rng.Read(b)
	return b
}

func (g *gen) name() string {
	n := []string{"a", "b", "cc", "the-key", "é", "", "0", "00", "F", "x y", "long-name-long-name"}[g.rng.Intn(11)]
	if g.rng.Intn(3) == 0 {
		n += fmt.Sprint(g.rng.Intn(50))
	}
	return n
}

func (g *gen) keep(k kid) kid {
	g.pool = append(g.pool, k)
	return k
}

// leaf is a block without children.
func (g *gen) leaf() kid {
	g.count++
	w := g.w
	if !g.bad() {
		k := w.leafPB(g.bytes(12))
		if g.rng.Intn(2) == 0 {
			k = w.leafRaw(g.bytes(12))
		}
		g.files = append(g.files, k)
		return g.keep(k)
	}
	switch g.rng.Intn(16) {
	case 0, 1, 2:
		return g.keep(w.leafRaw(g.bytes(12)))
	case 3, 4, 5:
		return g.keep(w.leafPB(g.bytes(12)))
	case 6:
		return g.keep(w.leafPB(nil))
	case 7: // file leaf whose sizes lie
		b := g.bytes(8)
		u := ufs{Type: u64(tFile), HasData: true, Data: b, FileSize: u64(g.lie(uint64(len(b))))}
		if g.rng.Intn(3) == 0 {
			u.BlockSizes = []uint64{g.special()}
		}
		return g.keep(kid{w.node(u), uint64(len(b)), uint64(len(b)) + 8})
	case 8:
		return g.keep(kid{w.pb(nil, false, nil), 0, 0})
	case 9:
		return g.keep(kid{w.pb(g.bytes(6), true, nil), 3, 8})
	case 10:
		return g.keep(kid{w.node(ufs{Type: u64(tDirectory)}), 0, 4})
	case 11:
		return g.keep(kid{w.node(ufs{Type: u64(tSymlink), HasData: true, Data: []byte("../x")}), 4, 10})
	case 12:
		return g.keep(kid{w.node(ufs{Type: u64([]uint64{3, 6, 100, math.MaxUint64}[g.rng.Intn(4)]), HasData: true, Data: g.bytes(5)}), 5, 10})
	case 13: // not stored
		codec := []uint64{cid.Raw, cid.DagProtobuf}[g.rng.Intn(2)]
		return kid{gone(codec, fmt.Sprint("rand", g.count)), uint64(g.rng.Intn(9)), uint64(g.rng.Intn(9))}
	case 14:
		// a raw block whose bytes would parse as a dag-pb file node / shard
		inner := [][]byte{
			encPB(ufs{Type: u64(tFile), HasData: true, Data: []byte("abc"), FileSize: u64(3)}.enc(), true, nil),
			encPB(ufs{Type: u64(tHAMT), HasData: true, Data: []byte{0}, HashType: u64(0x22), Fanout: u64(8)}.enc(), true, nil),
		}[g.rng.Intn(2)]
		return g.keep(w.leafRaw(inner))
	default:
		return g.keep(kid{w.other(cid.DagProtobuf, append([]byte{0xff}, g.bytes(4)...)), 3, 5})
	}
}

// child picks a child for an interior node. want is 'f' (something a file links: a file
// subtree or a leaf), 's' (a shard) or 0 (anything). Unless the choice goes wrong the child is of
// the wanted kind; it is a fresh subtree, or (fan-in) one built before.
func (g *gen) child(depth int, want byte) kid {
	if g.bad() || want == 0 {
		if len(g.pool) > 0 && g.rng.Intn(3) == 0 {
			return g.pool[g.rng.Intn(len(g.pool))]
		}
		return g.build(depth - 1)
	}
	pool := g.files
	if want == 's' {
		pool = g.shards
	}
	if len(pool) > 0 && g.rng.Intn(5) == 0 {
		return pool[g.rng.Intn(len(pool))]
	}
	g.count++
	switch {
	case want == 's' && depth > 1 && g.count <= 80:
		k := g.keep(g.shard(depth - 1))
		g.shards = append(g.shards, k)
		return k
	case want == 's':
		k := g.keep(g.shardLeaf())
		g.shards = append(g.shards, k)
		return k
	case depth > 1 && g.count <= 80 && g.rng.Intn(3) == 0:
		k := g.keep(g.file(depth - 1))
		g.files = append(g.files, k)
		return k
	}
	return g.leaf()
}

func (g *gen) build(depth int) kid {
	if depth <= 0 || g.count > 80 || g.rng.Intn(5) == 0 {
		return g.leaf()
	}
	g.count++
	switch g.rng.Intn(10) {
	case 0, 1, 2, 3:
		k := g.keep(g.file(depth))
		g.files = append(g.files, k)
		return k
	case 4, 5, 6, 7:
		k := g.keep(g.shard(depth))
		g.shards = append(g.shards, k)
		return k
	case 8:
		return g.keep(g.dir(depth))
	default:
		return g.keep(g.linkMap(depth))
	}
}

func (g *gen) tsize(l *lnk, honest uint64) {
	if !g.bad() {
		l.Tsize = u64(honest)
		return
	}
	switch g.rng.Intn(3) {
	case 0:
		l.Tsize = nil
	case 1:
		l.Tsize = u64(g.special())
	default:
		l.Tsize = u64(honest)
	}
}

func (g *gen) file(depth int) kid {
	n := 1 + g.rng.Intn(4)
	if g.rng.Intn(12) == 0 {
		n = 0
	}
	u := ufs{Type: u64(tFile)}
	if g.bad() && g.rng.Intn(3) == 0 {
		u.Type = u64(tRaw)
	}
	var links []lnk
	var total, stored uint64
	honest := !g.bad()
	for i := 0; i < n; i++ {
		k := g.child(depth, 'f')
		l := lnk{C: k.c}
		g.tsize(&l, k.stored)
		if k.c.Prefix().Codec == cid.Raw && !honest {
			l.Tsize = u64(g.lie(k.size))
		}
		if g.bad() && g.rng.Intn(3) == 0 {
			l.Name = str(g.name())
		}
		links = append(links, l)
		sz := k.size
		if !honest {
			sz = g.lie(sz)
		}
		u.BlockSizes = append(u.BlockSizes, sz)
		total += k.size
		stored += k.stored
	}
	u.FileSize = u64(total)
	if !honest {
		switch g.rng.Intn(6) {
		case 0:
			u.BlockSizes = nil
		case 1:
			if len(u.BlockSizes) > 0 {
				u.BlockSizes = u.BlockSizes[:g.rng.Intn(len(u.BlockSizes))]
			}
		case 2:
			for k := 1 + g.rng.Intn(3); k > 0; k-- {
				u.BlockSizes = append(u.BlockSizes, g.special())
			}
		case 3:
			u.FileSize = nil
			u.BlockSizes = nil
		}
		switch g.rng.Intn(4) {
		case 0:
			u.FileSize = u64(g.special())
		case 1:
			u.FileSize = nil
		}
	}
	u.Packed = g.rng.Intn(2) == 0 && len(u.BlockSizes) > 0
	if g.rng.Intn(6) == 0 {
		u.HasData, u.Data = true, g.bytes(6)
	}
	c := g.w.node(u, links...)
	return kid{c, total, stored + 30}
}

var fanouts = []uint64{8, 8, 8, 16, 16, 64, 256, 256, 1024}

func (g *gen) shard(depth int) kid {
	fan := fanouts[g.rng.Intn(len(fanouts))]
	n := 1 + g.rng.Intn(6)
	if g.rng.Intn(12) == 0 {
		n = 0
	}
	// distinct buckets in ascending order, as a well-formed shard has them
	seen := map[uint64]bool{}
	var idxs []uint64
	for len(idxs) < n {
		i := uint64(g.rng.Intn(int(fan)))
		if fan == 8 || g.rng.Intn(2) == 0 {
			i = uint64(g.rng.Intn(8)) // crowd the low buckets so that lookups descend
		}
		if !seen[i] {
			seen[i] = true
			idxs = append(idxs, i)
		} else if fan == 8 && len(seen) == 8 {
			break
		}
	}
	sort.Slice(idxs, func(i, j int) bool { return idxs[i] < idxs[j] })
	var links []lnk
	var stored uint64
	for _, i := range idxs {
		var l lnk
		if g.rng.Intn(2) == 0 && depth > 0 { // child shard (or whatever comes back)
			k := g.child(depth, 's')
			l = lnk{C: k.c, Name: str(prefix(fan, i))}
			g.tsize(&l, k.stored)
			stored += k.stored
		} else {
			k := g.leaf()
			nm := g.name()
			g.names = append(g.names, nm)
			l = lnk{C: k.c, Name: str(prefix(fan, i) + nm)}
			g.tsize(&l, k.stored)
		}
		// name defects
		nd := 99
		if g.bad() {
			nd = g.rng.Intn(10)
		}
		switch nd {
		case 0:
			l.Name = nil
		case 1:
			l.Name = str("")
		case 2:
			l.Name = str((*l.Name)[:padLen(fan)-1])
		case 3:
			l.Name = str("ZZZ"[:padLen(fan)] + (*l.Name)[padLen(fan):])
		case 4:
			l.Name = str((*l.Name)[:padLen(fan)])
		}
		links = append(links, l)
	}
	u := ufs{Type: u64(tHAMT), HasData: true, Data: bitfieldOf(fan, idxs...), HashType: u64(0x22), Fanout: u64(fan)}
	if g.bad() { // shard-level defects
		switch g.rng.Intn(12) {
		case 0:
			u.Data = append([]byte{byte(g.rng.Intn(256))}, u.Data...)
		case 1:
			u.Data = u.Data[g.rng.Intn(len(u.Data)+1):]
		case 2:
			u.Data = nil
		case 3:
			u.HasData = false
		case 4:
			u.Data = rep(0xff, len(u.Data))
		case 5:
			g.rng.Read(u.Data)
		case 6:
			u.Fanout = u64([]uint64{0, 1, 3, 4, 12, 2048, 1 << 32, 1 << 63, math.MaxUint64}[g.rng.Intn(9)])
		case 7:
			u.Fanout = u64(fanouts[g.rng.Intn(len(fanouts))]) // valid, but not what the names were made for
		case 8:
			u.Fanout = nil
		case 9:
			u.HashType = u64([]uint64{0, 0x12, 0x23, math.MaxUint64}[g.rng.Intn(4)])
		case 10:
			u.HashType = nil
		case 11:
			g.rng.Shuffle(len(links), func(i, j int) { links[i], links[j] = links[j], links[i] })
		}
	}
	c := g.w.node(u, links...)
	return kid{c, uint64(g.rng.Intn(10)), stored + 30}
}

// shardLeaf is a bottom shard: value entries only.
func (g *gen) shardLeaf() kid { return g.shard(0) }

func (g *gen) dir(depth int) kid {
	var links []lnk
	for n := g.rng.Intn(6); n > 0; n-- {
		k := g.child(depth, 0)
		l := lnk{C: k.c}
		g.tsize(&l, k.stored)
		if !g.bad() || g.rng.Intn(2) == 0 {
			nm := g.name()
			g.names = append(g.names, nm)
			l.Name = str(nm)
		}
		links = append(links, l)
	}
	u := ufs{Type: u64(tDirectory)}
	if g.rng.Intn(4) == 0 {
		u.FileSize, u.BlockSizes = u64(g.special()), []uint64{g.special()}
	}
	return kid{g.w.node(u, links...), uint64(g.rng.Intn(10)), 50}
}

// linkMap is a dag-pb node with links and no Data, garbage Data or a Data of some other type.
func (g *gen) linkMap(depth int) kid {
	var links []lnk
	for n := g.rng.Intn(5); n > 0; n-- {
		k := g.child(depth, 0)
		l := lnk{C: k.c}
		g.tsize(&l, k.stored)
		if g.rng.Intn(2) == 0 {
			l.Name = str(g.name())
		}
		links = append(links, l)
	}
	switch g.rng.Intn(4) {
	case 0:
		return kid{g.w.pb(nil, false, links), 3, 40}
	case 1:
		return kid{g.w.pb(g.bytes(8), true, links), 3, 40}
	case 2:
		return kid{g.w.pb(mutate(g.rng, randomValid(g.rng)), true, links), 3, 40}
	default:
		return kid{g.w.node(ufs{Type: u64([]uint64{3, 4, 6, 100}[g.rng.Intn(4)]), HasData: true, Data: g.bytes(4)}, links...), 3, 40}
	}
}

// genDag builds random DAG number i.
func genDag(i int) (*gen, kid) {
	g := &gen{rng: vp.Rng(13000 + int64(i)), w: newWorld()}
	g.h = []float64{0.03, 0.1, 0.1, 0.25, 0.5}[g.rng.Intn(5)]
	// the root is always an interior node (a stored dag-pb block)
	switch g.rng.Intn(8) {
	case 0, 1, 2:
		return g, g.file(4)
	case 3, 4, 5:
		return g, g.shard(4)
	case 6:
		return g, g.dir(4)
	}
	return g, g.linkMap(4)
}

func runRandom(r *vp.Run) {
	n := vp.Pick(300, 5000)
	blocks, links := 0, 0
	defer func() { r.Sample(map[string]any{"family": "rand", "cases": n, "blocks": blocks, "links": links}) }()
	for i := 0; i < n; i++ {
		g, root := genDag(i)
		blocks += g.w.blocks
		links += g.w.links
		runCase(r, fmt.Sprintf("rand:dag=%d", i), g.w, root.c, vp.Dedup(g.names), false)
	}
}
