// The exerciser: reify a root through every reification path and put the node through every
// operation the property lists, each operation under its own recover, load budget and step cap,
// the whole case under a wall-clock watchdog.
package c13

import (
	"context"
	"errors"
	"fmt"
	"io"
	"math"
	"runtime/debug"
	"strings"
	"sync"
	"sync/atomic"
	"time"

	"github.com/ipfs/go-cid"
	"github.com/ipfs/go-unixfsnode"
	"github.com/ipfs/go-unixfsnode/iter"
	dagpb "github.com/ipld/go-codec-dagpb"
	"github.com/ipld/go-ipld-prime"
	"github.com/ipld/go-ipld-prime/datamodel"
	"github.com/ipld/go-ipld-prime/linking"
	"github.com/ipld/go-ipld-prime/node/basicnode"
	"github.com/ipld/go-ipld-prime/traversal"
	"github.com/ipld/go-ipld-prime/traversal/selector"
	"github.com/ipld/go-ipld-prime/traversal/selector/builder"

	"replay/vp"
)

// stackTop renders the innermost non-runtime frames of a panic, e.g.
// "hamt.(*hashBits).next util.go:45 < hamt.(*hashBits).Next util.go:36".
func stackTop() string {
	lines := strings.Split(string(debug.Stack()), "\n")
	i := 0
	for ; i < len(lines); i++ {
		if strings.HasPrefix(lines[i], "panic(") {
			break
		}
	}
	if i == len(lines) {
		return "?"
	}
	var out []string
	for i += 2; i+1 < len(lines) && len(out) < 3; i += 2 {
		fn, loc := lines[i], strings.TrimSpace(lines[i+1])
		if strings.HasPrefix(fn, "runtime.") || strings.HasPrefix(fn, "panic(") || strings.HasPrefix(fn, "replay/c13.") {
			continue
		}
		if k := strings.LastIndex(fn, "("); k > 0 {
			fn = fn[:k]
		}
		if k := strings.LastIndex(fn, "/"); k >= 0 {
			fn = fn[k+1:]
		}
		if k := strings.Index(loc, " +0x"); k > 0 {
			loc = loc[:k]
		}
		if k := strings.LastIndex(loc, "/"); k >= 0 {
			// keep the directory of library files so that the responsible line can be found
			if j := strings.LastIndex(loc[:k], "/"); j >= 0 {
				loc = loc[j+1:]
			}
		}
		out = append(out, fn+" "+loc)
	}
	return strings.Join(out, " < ")
}

// watchdog runs f in a goroutine and fails the case if it has not finished in time. cur names
// the operation under way.
func watchdog(r *vp.Run, id string, cur *atomic.Value, f func()) {
	limit := vp.Pick(5*time.Second, 20*time.Second)
	done := make(chan struct{})
	start := time.Now()
	go func() {
		defer close(done)
		r.Guard(id, f)
	}()
	select {
	case <-done:
	case <-time.After(limit):
		op, _ := cur.Load().(string)
		r.Fail(id, "watchdog: not finished after %v (unbounded work); operation under way: %s", time.Since(start).Round(time.Second), op)
	}
}

// exerciser exercises the nodes of one case.
type exerciser struct {
	r    *vp.Run
	id   string // case id
	w    *world
	ls   *ipld.LinkSystem
	keys []string
	cur  atomic.Value // operation under way (string)
	path string       // reification path
	full bool         // also the expensive variants

	// One root cause usually shows in many operations of a case. Failures are therefore
	// collected by signature (the panic value and stack top, or the kind of budget that was
	// blown) and reported once per signature, with the first operation that showed it and the
	// number of further ones.
	mu     sync.Mutex
	dead   atomic.Bool // the case has shown the same failure often enough: no more operations
	sigs   []string
	first  map[string]string
	others map[string]int
}

func (x *exerciser) fail(op, sig string) {
	x.mu.Lock()
	defer x.mu.Unlock()
	if x.first == nil {
		x.first, x.others = map[string]string{}, map[string]int{}
	}
	if _, seen := x.first[sig]; seen {
		// an operation that blows its budget costs the whole budget; the case has failed
		// anyway, so it is abandoned once one failure has shown in abandonAfter operations
		if x.others[sig]++; x.others[sig]+1 >= abandonAfter && strings.HasPrefix(sig, "unbounded work") {
			x.dead.Store(true)
		}
		return
	}
	x.first[sig] = op
	x.sigs = append(x.sigs, sig)
}

const abandonAfter = 6

// report emits the collected failures of the case.
func (x *exerciser) report() {
	x.mu.Lock()
	defer x.mu.Unlock()
	for _, sig := range x.sigs {
		if n := x.others[sig]; n+1 >= abandonAfter && strings.HasPrefix(sig, "unbounded work") {
			x.r.Fail(x.id, "%s (and %d more operations, then the case was abandoned): %s", x.first[sig], n, sig)
		} else if n > 0 {
			x.r.Fail(x.id, "%s (and %d more operations): %s", x.first[sig], n, sig)
		} else {
			x.r.Fail(x.id, "%s: %s", x.first[sig], sig)
		}
	}
	x.sigs = nil
}

// op runs one operation: its own recover (reporting the operation, the panic value and the top
// of the stack; r.Guard is the backstop), a fresh load budget, and a budget check afterwards.
func (x *exerciser) op(name string, f func()) {
	if x.dead.Load() {
		return
	}
	full := x.path + "/" + name
	x.cur.Store(full)
	x.w.reset()
	x.r.Guard(x.id, func() {
		defer func() {
			if p := recover(); p != nil {
				x.fail(full, fmt.Sprintf("panic: %v [%s]", p, stackTop()))
			}
		}()
		f()
	})
	if x.w.blown.Load() {
		x.fail(full, fmt.Sprintf("unbounded work: more than %d block loads for a DAG of %d blocks, %d links, %d bytes", x.w.budget.Load(), x.w.blocks, x.w.links, x.w.bytes))
	}
}

func (x *exerciser) over(name string, what string, n int64) {
	x.fail(x.path+"/"+name, fmt.Sprintf("unbounded work: %s exceeded %d for a DAG of %d blocks, %d links, %d bytes", what, n, x.w.blocks, x.w.links, x.w.bytes))
}

// touch uses a value a lookup or an iterator handed out.
func touch(v datamodel.Node) {
	if v == nil {
		return
	}
	v.Kind()
	v.IsNull()
	v.IsAbsent()
	v.Length()
	if l, err := v.AsLink(); err == nil && l != nil {
		_ = l.String()
	}
	v.AsString()
	v.AsBytes()
}

type nativeDir interface {
	Iterator() *iter.UnixFSDir__Itr
	Lookup(dagpb.String) dagpb.Link
}

func pbString(s string) dagpb.String {
	b := dagpb.Type.String.NewBuilder()
	b.AssignString(s)
	return b.Build().(dagpb.String)
}

// node exercises every operation of the property on n.
func (x *exerciser) node(n datamodel.Node) {
	var kind datamodel.Kind
	var length int64
	x.op("Kind", func() { kind = n.Kind() })
	x.op("Length", func() { length = n.Length() })
	x.op("scalars", func() {
		n.IsNull()
		n.IsAbsent()
		n.AsBool()
		n.AsInt()
		n.AsFloat()
		n.AsString()
		n.AsLink()
		n.Prototype()
		if a, ok := n.(interface{ Substrate() datamodel.Node }); ok {
			a.Substrate()
		}
	})
	x.op("Representation", func() {
		if t, ok := n.(interface{ Representation() datamodel.Node }); ok {
			touch(t.Representation())
		}
	})
	for _, k := range x.keys {
		k := k
		x.op(fmt.Sprintf("LookupByString(%q)", k), func() {
			v, err := n.LookupByString(k)
			if err == nil {
				touch(v)
			}
		})
		x.op(fmt.Sprintf("LookupByNode(%q)", k), func() {
			v, err := n.LookupByNode(basicnode.NewString(k))
			if err == nil {
				touch(v)
			}
		})
		x.op(fmt.Sprintf("LookupBySegment(%q)", k), func() {
			v, err := n.LookupBySegment(datamodel.PathSegmentOfString(k))
			if err == nil {
				touch(v)
			}
		})
		if nat, ok := n.(nativeDir); ok {
			x.op(fmt.Sprintf("Lookup(%q)", k), func() {
				if l := nat.Lookup(pbString(k)); l != nil {
					touch(l)
				}
			})
		}
	}
	x.op("LookupByNode(int)", func() { n.LookupByNode(basicnode.NewInt(1)) })
	x.op("LookupByNode(bytes)", func() { n.LookupByNode(basicnode.NewBytes([]byte{0xff})) })
	x.op("LookupByNode(link)", func() { n.LookupByNode(basicnode.NewLink(link(gone(cid.Raw, "key")))) })
	x.op("LookupBySegment(int)", func() { n.LookupBySegment(datamodel.PathSegmentOfInt(0)) })
	for _, i := range []int64{0, 1, -1, length - 1, length, length + 1, math.MaxInt64, math.MinInt64, 1 << 32} {
		i := i
		x.op(fmt.Sprintf("LookupByIndex(%d)", i), func() {
			v, err := n.LookupByIndex(i)
			if err == nil {
				touch(v)
			}
		})
	}
	x.op("MapIterator", func() {
		it := n.MapIterator()
		if it == nil {
			return
		}
		steps, errs := int64(0), 0
		for !it.Done() {
			if steps++; steps > x.w.stepCap() {
				x.over("MapIterator", "pairs yielded", x.w.stepCap())
				return
			}
			k, v, err := it.Next()
			if err != nil {
				// a caller may ignore errors and go on: the iterator must still come to an end
				errs++
				continue
			}
			touch(k)
			touch(v)
		}
		// one call past the end: an error or a value, not a panic
		it.Next()
		it.Done()
	})
	x.op("MapIterator(stop at first error)", func() {
		it := n.MapIterator()
		if it == nil {
			return
		}
		for steps := int64(0); !it.Done(); steps++ {
			if steps > x.w.stepCap() {
				x.over("MapIterator(stop at first error)", "pairs yielded", x.w.stepCap())
				return
			}
			if _, _, err := it.Next(); err != nil {
				return
			}
		}
	})
	x.op("ListIterator", func() {
		it := n.ListIterator()
		if it == nil {
			return
		}
		for steps := int64(0); !it.Done(); steps++ {
			if steps > x.w.stepCap() {
				x.over("ListIterator", "entries yielded", x.w.stepCap())
				return
			}
			if _, v, err := it.Next(); err == nil {
				touch(v)
			}
		}
	})
	if nat, ok := n.(nativeDir); ok {
		x.op("Iterator", func() {
			it := nat.Iterator()
			if it == nil {
				return
			}
			steps := int64(0)
			for !it.Done() {
				if steps++; steps > x.w.stepCap() {
					x.over("Iterator", "pairs yielded", x.w.stepCap())
					return
				}
				k, v := it.Next()
				if k != nil {
					_ = k.String()
				}
				if v != nil {
					touch(v)
				}
			}
			it.Next()
			it.Done()
		})
	}
	if f, ok := n.(interface{ FieldLinks() dagpb.PBLinks }); ok {
		x.op("FieldLinks/FieldData", func() {
			f.FieldLinks().Length()
			if d, ok := n.(interface{ FieldData() dagpb.MaybeBytes }); ok {
				d.FieldData().Exists()
			}
		})
	}
	x.op("AsBytes", func() {
		if kind != datamodel.Kind_Bytes {
			n.AsBytes()
			return
		}
		b, err := n.AsBytes()
		if err == nil && int64(len(b)) > x.byteCap() {
			x.over("AsBytes", "bytes returned", x.byteCap())
		}
	})
	lbn, ok := n.(datamodel.LargeBytesNode)
	if !ok {
		return
	}
	size := int64(-1)
	x.op("AsLargeBytes+Read to EOF", func() {
		rd, err := lbn.AsLargeBytes()
		if err != nil || rd == nil {
			return
		}
		size = x.drain("AsLargeBytes+Read to EOF", rd)
		// reading on after the end
		rd.Read(make([]byte, 16))
		rd.Read(nil)
	})
	x.op("AsLargeBytes+Read(1 byte buffer)", func() {
		rd, err := lbn.AsLargeBytes()
		if err != nil || rd == nil {
			return
		}
		b := make([]byte, 1)
		for i := 0; i < 64; i++ {
			if _, err := rd.Read(b); err != nil {
				return
			}
		}
	})
	if size < 0 {
		size = 0
	}
	offsets := []int64{0, 1, -1, size - 1, size, size + 1, -size, -size - 1, 1 << 40, -(1 << 40), math.MaxInt64, math.MinInt64, math.MinInt64 + 1}
	for _, whence := range []int{io.SeekStart, io.SeekCurrent, io.SeekEnd, 3, -1} {
		whence := whence
		if whence > io.SeekEnd || whence < 0 {
			if !x.full {
				continue
			}
		}
		// one reader per whence, walked through all offsets, a short read after each seek
		var rd io.ReadSeeker
		x.op(fmt.Sprintf("AsLargeBytes(whence=%d)", whence), func() {
			var err error
			if rd, err = lbn.AsLargeBytes(); err != nil {
				rd = nil
			}
		})
		if rd == nil {
			continue
		}
		for _, off := range offsets {
			off := off
			x.op(fmt.Sprintf("Seek(%d,whence=%d)+Read", off, whence), func() {
				rd.Seek(off, whence)
				rd.Read(make([]byte, 8))
			})
		}
		x.op(fmt.Sprintf("Seek(0,start)+Read to EOF after whence=%d", whence), func() {
			rd.Seek(0, io.SeekStart)
			x.drain("Seek(0,start)+Read to EOF", rd)
		})
		if !x.full {
			continue
		}
		// fresh reader per offset: the first thing the reader sees is the seek
		for _, off := range offsets {
			off := off
			x.op(fmt.Sprintf("fresh Seek(%d,whence=%d)+Read to EOF", off, whence), func() {
				rd, err := lbn.AsLargeBytes()
				if err != nil || rd == nil {
					return
				}
				rd.Seek(off, whence)
				x.drain("fresh Seek+Read to EOF", rd)
				rd.Seek(off, whence)
			})
		}
	}
}

func (x *exerciser) byteCap() int64 { return 10*int64(x.w.bytes) + 4096 }

// drain reads to the first error and returns the number of bytes read; read calls are capped by
// the yardstick and bytes by ten times what is stored.
func (x *exerciser) drain(name string, rd io.Reader) int64 {
	buf := make([]byte, 4096)
	total, calls := int64(0), int64(0)
	for {
		if calls++; calls > x.w.yardstick() {
			x.over(name, "read calls", x.w.yardstick())
			return total
		}
		n, err := rd.Read(buf)
		total += int64(n)
		if total > x.byteCap() {
			x.over(name, "bytes read", x.byteCap())
			return total
		}
		if err != nil {
			return total
		}
	}
}

var (
	selEntity  selector.Selector
	selPreload selector.Selector
	selAll     selector.Selector
)

func init() {
	var err error
	if selEntity, err = selector.CompileSelector(unixfsnode.MatchUnixFSEntitySelector.Node()); err != nil {
		panic(err)
	}
	if selPreload, err = selector.CompileSelector(unixfsnode.MatchUnixFSPreloadSelector.Node()); err != nil {
		panic(err)
	}
	ssb := builder.NewSelectorSpecBuilder(basicnode.Prototype.Any)
	all := ssb.ExploreInterpretAs("unixfs", ssb.ExploreRecursive(selector.RecursionLimitDepth(3), ssb.ExploreAll(ssb.ExploreRecursiveEdge())))
	if selAll, err = selector.CompileSelector(all.Node()); err != nil {
		panic(err)
	}
}

// root exercises one root: load it as dag-pb, reify it lazily, through the two registered
// reifiers, and (full cases) read it through traversals that use the reifiers.
func (x *exerciser) root(c cid.Cid) {
	ctx := context.Background()
	lc := ipld.LinkContext{Ctx: ctx}
	x.ls = x.w.ls()
	unixfsnode.AddUnixFSReificationToLinkSystem(x.ls)
	x.path = "load"
	var pbn datamodel.Node
	x.op("Load", func() {
		var err error
		pbn, err = x.ls.Load(lc, link(c), vp.ProtoChooser(link(c)))
		if err != nil {
			pbn = nil
		}
	})
	if pbn == nil {
		return
	}
	type reifier struct {
		name string
		fn   linking.NodeReifier
	}
	paths := []reifier{{"Reify", unixfsnode.Reify}, {"unixfs-preload", x.ls.KnownReifiers["unixfs-preload"]}}
	if x.full {
		paths = append(paths, reifier{"unixfs", x.ls.KnownReifiers["unixfs"]})
	}
	for _, p := range paths {
		x.path = p.name
		var n datamodel.Node
		x.op("reify", func() {
			var err error
			n, err = p.fn(lc, pbn, x.ls)
			if err != nil {
				n = nil // an error is an acceptable outcome
			}
		})
		if n != nil {
			x.node(n)
		}
	}
	if !x.full {
		return
	}
	for _, s := range []struct {
		name string
		sel  selector.Selector
	}{{"entity", selEntity}, {"preload", selPreload}, {"explore-all", selAll}} {
		x.path = "walk"
		x.op(s.name, func() {
			// the traversal visits the scalar fields of every link too, hence a node budget of ten
			// yardsticks; it is the traversal's own budget, so a walk over an iterator that
			// never ends is stopped
			nodes := 10 * x.w.yardstick()
			prog := traversal.Progress{
				Cfg:    &traversal.Config{Ctx: ctx, LinkSystem: *x.ls, LinkTargetNodePrototypeChooser: vp.Chooser},
				Budget: &traversal.Budget{NodeBudget: nodes, LinkBudget: nodes},
			}
			err := prog.WalkMatching(pbn, s.sel, unixfsnode.BytesConsumingMatcher)
			var be *traversal.ErrBudgetExceeded
			if errors.As(err, &be) {
				x.over(s.name, "nodes visited by the traversal", nodes)
			}
		})
	}
}

// stdKeys are looked up in every case.
var stdKeys = []string{"", "a", "k", "Links", "Data", "Hash", "0", "00", "000", "é", "a/b", strings.Repeat("x", 300)}

// keysFor returns the probe keys of a case: the standard ones, extra ones, and the link names
// found in the DAG whole and with 1..3 leading bytes cut off (at most max of them).
func keysFor(w *world, extra []string, max int) []string {
	var fromDag []string
	for _, n := range w.names {
		fromDag = append(fromDag, n)
		for cut := 1; cut <= 3 && cut < len(n); cut++ {
			fromDag = append(fromDag, n[cut:])
		}
	}
	fromDag = vp.Dedup(fromDag)
	if len(fromDag) > max {
		fromDag = fromDag[:max]
	}
	return vp.Dedup(append(append(append([]string{}, extra...), stdKeys...), fromDag...))
}

// runCase exercises root c of world w as case id.
func runCase(r *vp.Run, id string, w *world, c cid.Cid, extraKeys []string, full bool) {
	r.Eval(id)
	// the thorough tier has the time to put every hand-built case through the full treatment
	// (small ones: it multiplies the work by about six)
	full = full || (vp.Thorough() && !strings.HasPrefix(id, "rand:") && w.blocks <= 300)
	x := &exerciser{r: r, id: id, w: w, full: full}
	x.keys = keysFor(w, extraKeys, vp.Pick(40, 80))
	x.cur.Store("start")
	watchdog(r, id, &x.cur, func() { x.root(c) })
	x.report()
}
