// C08 bounded stand-in: sharded-directory builder vs boxo's HAMT, and reading boxo-written HAMTs.
//
// Bounds (quick | thorough):
//
//	parity: ALL fanouts {8,16,32,64,128,256,512,1024}; entry sets: 1 entry; murmur3-colliding names
//	  (4 sharing 21 bits + 3 sharing 12 bits); mixed; random names (ascii/unicode/spaces/hex-like)
//	  of sizes {2,17,150,400} x 2 draws | {2,17,150,400,3000} x 4 draws; three different child
//	  nodes with different cumulative sizes. builder link == boxo root CID and size == boxo Size().
//	histories: fanouts {8,16,256,1024} | all; 25 | 80 random Set/Remove histories of 60..400 operations over
//	  a pool of 120 names (incl. colliding ones), overwrites included; the resulting boxo HAMT is
//	  read back through Reify: Length, iteration (each name once, right link), member lookups and
//	  lookups of removed names must equal boxo's EnumLinks / the history's model.
//
// Oracle: boxo v0.24.0 ipld/unixfs/hamt. Seeded by VERIF_SEED.
package c08

import (
	"context"
	"fmt"
	"testing"

	"github.com/ipfs/boxo/ipld/merkledag"
	ft "github.com/ipfs/boxo/ipld/unixfs"
	bhamt "github.com/ipfs/boxo/ipld/unixfs/hamt"
	format "github.com/ipfs/go-ipld-format"
	"github.com/ipfs/go-unixfsnode"
	"github.com/ipfs/go-unixfsnode/data/builder"
	dagpb "github.com/ipld/go-codec-dagpb"
	"github.com/ipld/go-ipld-prime"
	cidlink "github.com/ipld/go-ipld-prime/linking/cid"

	"replay/vp"
)

var ctx = context.Background()

func children(t *testing.T, bx *vp.Boxo) []format.Node {
	a := ft.EmptyDirNode()
	b := merkledag.NodeWithData(ft.FilePBData([]byte("some file content"), 17))
	c := merkledag.NodeWithData(ft.FilePBData(nil, 0))
	out := []format.Node{a, b, c}
	for _, n := range out {
		n.(*merkledag.ProtoNode).SetCidBuilder(merkledag.V1CidPrefix())
		if err := bx.Dag.Add(ctx, n); err != nil {
			t.Fatal(err)
		}
	}
	return out
}

func TestBounded(t *testing.T) {
	r := vp.New(t)
	defer r.Done()
	rng := vp.Rng(8)
	all := []int{8, 16, 32, 64, 128, 256, 512, 1024}

	var sets [][]string
	var labels []string
	add := func(label string, names []string) {
		sets = append(sets, vp.Dedup(names))
		labels = append(labels, label)
	}
	add("one", []string{"a"})
	coll := append(vp.Colliding(4, 21, rng), vp.Colliding(3, 12, rng)...)
	add("collide", coll)
	add("mixed", append(append([]string{}, coll...), vp.Names(40, rng)...))
	for _, n := range vp.Pick([]int{2, 17, 150, 400}, []int{2, 17, 150, 400, 3000}) {
		for d := 0; d < vp.Pick(2, 4); d++ {
			add(fmt.Sprintf("rand%d#%d", n, d), vp.Names(n, rng))
		}
	}
	for _, fanout := range all {
		for si, names := range sets {
			id := fmt.Sprintf("parity:fanout=%d,%s", fanout, labels[si])
			r.Eval(id)
			bx := vp.NewBoxo()
			kids := children(t, bx)
			s, err := bhamt.NewShard(bx.Dag, fanout)
			if err != nil {
				t.Fatal(err)
			}
			s.SetCidBuilder(merkledag.V1CidPrefix()) // before any Set
			var ents []dagpb.PBLink
			for i, n := range names {
				kid := kids[i%len(kids)]
				if err := s.Set(ctx, n, kid); err != nil {
					t.Fatal(err)
				}
				ksz, _ := kid.Size()
				e, err := builder.BuildUnixFSDirectoryEntry(n, int64(ksz), cidlink.Link{Cid: kid.Cid()})
				if err != nil {
					t.Fatal(err)
				}
				ents = append(ents, e)
			}
			rn, err := s.Node()
			if err != nil {
				t.Fatal(err)
			}
			rsz, _ := rn.Size()
			st := vp.NewStore()
			l, sz, err := builder.BuildUnixFSShardedDirectory(fanout, 0x22, ents, st.LS())
			if err != nil {
				r.Fail(id, "build: %v", err)
				continue
			}
			if labels[si] == "collide" && fanout%3 == 2 {
				r.Sample(map[string]any{"case": id, "names": names, "ours": l.String(), "ref": rn.Cid().String(), "size": sz, "refSize": rsz, "shardBlocks": st.Len()})
			}
			if !l.(cidlink.Link).Cid.Equals(rn.Cid()) || sz != rsz {
				r.Fail(id, "builder %s size %d, boxo %s size %d (%d entries)", l, sz, rn.Cid(), rsz, len(names))
			}
		}
	}

	pool := vp.Dedup(append(append(vp.Names(100, rng), vp.Colliding(6, 18, rng)...), vp.Colliding(14, 6, rng)...))
	for _, fanout := range vp.Pick([]int{8, 16, 256, 1024}, all) {
		for hno := 0; hno < vp.Pick(25, 80); hno++ {
			id := fmt.Sprintf("history:fanout=%d,#%d", fanout, hno)
			r.Eval(id)
			bx := vp.NewBoxo()
			kids := children(t, bx)
			s, err := bhamt.NewShard(bx.Dag, fanout)
			if err != nil {
				t.Fatal(err)
			}
			s.SetCidBuilder(merkledag.V1CidPrefix())
			model := map[string]string{}
			removed := map[string]bool{}
			nops := 60 + rng.Intn(341)
			sets, removes := 0, 0
			for i := 0; i < nops; i++ {
				name := pool[rng.Intn(len(pool))]
				if rng.Intn(5) < 3 {
					kid := kids[rng.Intn(len(kids))]
					if err := s.Set(ctx, name, kid); err != nil {
						t.Fatal(err)
					}
					model[name] = kid.Cid().String()
					delete(removed, name)
					sets++
				} else if _, in := model[name]; in {
					if err := s.Remove(ctx, name); err != nil {
						t.Fatal(err)
					}
					delete(model, name)
					removed[name] = true
					removes++
				}
			}
			rn, err := s.Node()
			if err != nil {
				t.Fatal(err)
			}
			if err := bx.Dag.Add(ctx, rn); err != nil {
				t.Fatal(err)
			}
			links, err := s.EnumLinks(ctx)
			if err != nil {
				t.Fatal(err)
			}
			if len(links) != len(model) {
				t.Fatalf("%s: harness: boxo lists %d entries, model has %d", id, len(links), len(model))
			}
			for _, l := range links {
				if model[l.Name] != l.Cid.String() {
					t.Fatalf("%s: harness: boxo entry %q=%s, model %q", id, l.Name, l.Cid, model[l.Name])
				}
			}
			st, err := bx.Store()
			if err != nil {
				t.Fatal(err)
			}
			if hno == 0 {
				r.Sample(map[string]any{"case": id, "sets": sets, "removes": removes, "entries": len(model), "root": rn.Cid().String()})
			}
			r.Guard(id, func() {
				ls := st.LS()
				nd, err := vp.Load(ls, cidlink.Link{Cid: rn.Cid()})
				if err != nil {
					r.Fail(id, "load: %v", err)
					return
				}
				d, err := unixfsnode.Reify(ipld.LinkContext{}, nd, ls)
				if err != nil {
					r.Fail(id, "Reify: %v", err)
					return
				}
				if d.Length() != int64(len(model)) {
					r.Fail(id, "Length()=%d, boxo has %d entries", d.Length(), len(model))
				}
				seen := map[string]int{}
				it := d.MapIterator()
				for steps := 0; !it.Done() && steps < len(model)+3; steps++ {
					k, v, err := it.Next()
					if err != nil {
						r.Fail(id, "iteration: %v", err)
						break
					}
					ks, _ := k.AsString()
					seen[ks]++
					vl, _ := v.AsLink()
					if want, in := model[ks]; !in {
						r.Fail(id, "iteration yields %q which boxo does not list", ks)
					} else if vl == nil || vl.String() != want {
						r.Fail(id, "iteration %q -> %v, boxo has %s", ks, vl, want)
					}
				}
				for name, want := range model {
					if seen[name] != 1 {
						r.Fail(id, "iteration yields %q %d times", name, seen[name])
					}
					v, err := d.LookupByString(name)
					if err != nil {
						r.Fail(id, "lookup %q: %v", name, err)
						continue
					}
					if vl, _ := v.AsLink(); vl == nil || vl.String() != want {
						r.Fail(id, "lookup %q -> %v, boxo has %s", name, vl, want)
					}
				}
				for name := range removed {
					if v, err := d.LookupByString(name); err == nil {
						r.Fail(id, "lookup of removed %q succeeded: %v", name, v)
					}
				}
			})
		}
	}
}
