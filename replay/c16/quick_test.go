package c16

// The quick builder (data/builder/quick). Its API panics instead of returning errors, so only the
// ORDER half of C16 applies: at every commit made while quickbuilder.Store runs, every block the
// committed block links to that this build produces has been committed before, the nodes handed
// back name committed blocks, and nothing is written after the callback returned.
//
//	quick:chain=<d>        a chain of d nested directories around one two-chunk file (d in 1..8 | 1..14)
//	quick:tree=<k>         random trees (k seeds, 12 | 60): 1..4 entries per directory, depth <= 4,
//	                       files of 0, 1 and several chunks, repeated contents
//	quick:fault-open=<k>   the k-th write-open fails: the builder panics or returns an error, and the
//	                       store is left without dangling links (every k of the clean run of chain=4)

import (
	"fmt"
	"io"
	"testing"

	"github.com/ipfs/go-unixfsnode/data/builder"
	quickbuilder "github.com/ipfs/go-unixfsnode/data/builder/quick"
	"github.com/ipld/go-ipld-prime"
	"github.com/ipld/go-ipld-prime/datamodel"

	"replay/vp"
)

type qshape struct {
	file []byte
	dir  map[string]*qshape
}

func qbuild(b *quickbuilder.Builder, s *qshape) quickbuilder.Node {
	if s.dir == nil {
		return b.NewBytesFile(s.file)
	}
	ents := map[string]quickbuilder.Node{}
	for n, c := range s.dir {
		ents[n] = qbuild(b, c)
	}
	return b.NewMapDirectory(ents)
}

func qexercise(r *vp.Run, id string, s *qshape) (opens int) {
	r.Eval(id)
	r.Guard(id, func() {
		st := vp.NewStore()
		var log []commit
		inCallback := false
		st.OnCommit = func(l datamodel.Link, raw []byte) {
			if !inCallback {
				r.Fail(id, "block %s committed outside the Store callback", vp.Short(l.String()))
			}
			log = append(log, commit{l.String(), linksOf(l, raw)})
		}
		ls := st.LS()
		inner := ls.StorageWriteOpener
		ls.StorageWriteOpener = func(c ipld.LinkContext) (io.Writer, ipld.BlockWriteCommitter, error) {
			opens++
			return inner(c)
		}
		var root quickbuilder.Node
		var committedAtReturn int
		err := quickbuilder.Store(ls, func(b *quickbuilder.Builder) error {
			inCallback = true
			defer func() { inCallback = false; committedAtReturn = len(log) }()
			root = qbuild(b, s)
			// the node handed back names a block that is already committed
			found := false
			for _, c := range log {
				if c.link == root.Link().String() {
					found = true
				}
			}
			if !found {
				r.Fail(id, "node %s handed back before its block was committed", vp.Short(root.Link().String()))
			}
			return nil
		})
		if err != nil {
			r.Fail(id, "Store: %v", err)
			return
		}
		if len(log) != committedAtReturn {
			r.Fail(id, "%d blocks committed after the callback returned", len(log)-committedAtReturn)
		}
		produced := map[string]bool{}
		for _, c := range log {
			produced[c.link] = true
		}
		done := map[string]bool{}
		for i, c := range log {
			for _, k := range c.links {
				if produced[k] && !done[k] {
					r.Fail(id, "commit %d of %d: block %s committed before its child %s", i+1, len(log), vp.Short(c.link), vp.Short(k))
				}
			}
			done[c.link] = true
		}
		if !st.Has(root.Link()) {
			r.Fail(id, "root %s is not in the store", vp.Short(root.Link().String()))
		}
	})
	return opens
}

func TestBoundedQuick(t *testing.T) {
	r := vp.New(t)
	defer r.Done()
	saved := builder.DefaultLinksPerBlock
	defer func() { builder.DefaultLinksPerBlock = saved }()
	builder.DefaultLinksPerBlock = 3

	chain := func(d int) *qshape {
		s := &qshape{file: vp.Content(2*1024*1024+17, int64(d))}
		for i := 0; i < d; i++ {
			s = &qshape{dir: map[string]*qshape{fmt.Sprintf("level-%d", i): s, "note": {file: []byte(fmt.Sprintf("note %d", i))}}}
		}
		return s
	}
	for d := 1; d <= vp.Pick(8, 14); d++ {
		qexercise(r, fmt.Sprintf("quick:chain=%d", d), chain(d))
	}
	for k := 0; k < vp.Pick(12, 60); k++ {
		rng := vp.Rng(int64(1600 + k))
		var gen func(depth int) *qshape
		gen = func(depth int) *qshape {
			if depth == 0 || rng.Intn(3) == 0 {
				switch rng.Intn(4) {
				case 0:
					return &qshape{file: []byte{}}
				case 1:
					return &qshape{file: []byte("same content")}
				case 2:
					return &qshape{file: vp.Content(1+rng.Intn(2000), int64(rng.Intn(5)))}
				default:
					return &qshape{file: vp.Content(1024*1024+rng.Intn(1024*1024*2), int64(rng.Intn(3)))}
				}
			}
			s := &qshape{dir: map[string]*qshape{}}
			for i, n := 0, 1+rng.Intn(4); i < n; i++ {
				s.dir[fmt.Sprintf("e%d-%d", depth, i)] = gen(depth - 1)
			}
			return s
		}
		qexercise(r, fmt.Sprintf("quick:tree=%d", k), &qshape{dir: map[string]*qshape{"root": gen(4)}})
	}

	// a failing write-open: panic or error, and no dangling link is left behind
	s := chain(4)
	opens := qexercise(r, "quick:chain=4,count", s)
	for k := 1; k <= opens; k++ {
		id := fmt.Sprintf("quick:fault-open=%d/%d", k, opens)
		r.Eval(id)
		st := vp.NewStore()
		st.FailOpen = k
		stored := map[string][]string{}
		st.OnCommit = func(l datamodel.Link, raw []byte) { stored[l.String()] = linksOf(l, raw) }
		failed := false
		func() {
			defer func() {
				if recover() != nil {
					failed = true
				}
			}()
			if err := quickbuilder.Store(st.LS(), func(b *quickbuilder.Builder) error { qbuild(b, s); return nil }); err != nil {
				failed = true
			}
		}()
		if !failed {
			r.Fail(id, "the build neither panicked nor returned an error although a write failed")
		}
		for l, links := range stored {
			for _, c := range links {
				if _, ok := stored[c]; !ok {
					r.Fail(id, "store left with a dangling link %s -> %s", vp.Short(l), vp.Short(c))
				}
			}
		}
	}
}
