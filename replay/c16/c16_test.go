// C16 bounded stand-in: builders commit children before parents and fail cleanly.
//
// Bounds (quick | thorough): builds
//
//	file: widths 2 and 3, size-4, chunk counts 0..9 | 0..30;
//	symlink; plain directory (5 entries); sharded directory fanout 8 | {8,16,256} over 7 colliding
//	  + 40 | 300 random names; BuildUnixFSRecursive over a temp tree (nested dirs, empty dir, empty
//	  file, multi-chunk file, symlink, duplicate contents).
//
// For each build: one clean run logging every commit, then one run per k failing the k-th
// StorageWriteOpener call, and one run per k failing the k-th commit, for EVERY k.
// Checks: (a) at each commit every link of the committed block that points to a block this build
// produces was committed earlier; (b) a successful build's DAG is completely stored; (c) a failed
// build returns a nil link and a non-nil error; (d) after a failed build the store holds no block
// with a link to a build-produced block that is not stored.
// Oracle: vp's protowire link extraction over the bytes handed to the store.
package c16

import (
	"bytes"
	"fmt"
	"io"
	"os"
	"path/filepath"
	"testing"

	"github.com/ipfs/go-unixfsnode/data/builder"
	dagpb "github.com/ipld/go-codec-dagpb"
	"github.com/ipld/go-ipld-prime"
	"github.com/ipld/go-ipld-prime/datamodel"
	cidlink "github.com/ipld/go-ipld-prime/linking/cid"

	"replay/vp"
)

type build func(ls *ipld.LinkSystem) (datamodel.Link, uint64, error)

type commit struct {
	link  string
	links []string
}

func linksOf(l datamodel.Link, raw []byte) []string {
	if !vp.IsPB(l) {
		return nil
	}
	b, err := vp.ParsePB(raw)
	if err != nil {
		return []string{"unparsable: " + err.Error()}
	}
	var out []string
	for _, k := range b.Links {
		out = append(out, k.Link().String())
	}
	return out
}

// dangling lists stored blocks that link to a produced-but-not-stored block.
func dangling(st *vp.Store, produced map[string]bool, stored map[string][]string) []string {
	var out []string
	for l, links := range stored {
		for _, k := range links {
			if _, ok := stored[k]; produced[k] && !ok {
				out = append(out, fmt.Sprintf("%s -> %s", vp.Short(l), vp.Short(k)))
			}
		}
	}
	return out
}

func exercise(t *testing.T, r *vp.Run, id string, b build) {
	// clean run
	st := vp.NewStore()
	var log []commit
	opens := 0
	st.OnCommit = func(l datamodel.Link, raw []byte) { log = append(log, commit{l.String(), linksOf(l, raw)}) }
	ls := st.LS()
	inner := ls.StorageWriteOpener
	ls.StorageWriteOpener = func(c ipld.LinkContext) (io.Writer, ipld.BlockWriteCommitter, error) {
		opens++
		return inner(c)
	}
	root, _, err := b(ls)
	if err != nil {
		t.Fatalf("%s: clean build failed: %v", id, err)
	}
	produced := map[string]bool{}
	for _, c := range log {
		produced[c.link] = true
	}
	r.Eval(id + ",clean")
	r.Sample(map[string]any{"case": id, "opens": opens, "commits": len(log), "root": root.String()})
	done := map[string]bool{}
	for i, c := range log {
		for _, k := range c.links {
			if produced[k] && !done[k] {
				r.Fail(id, "commit %d of %d: block %s committed before its child %s", i+1, len(log), vp.Short(c.link), vp.Short(k))
			}
		}
		done[c.link] = true
	}
	if !done[root.String()] {
		r.Fail(id, "returned root %s was never committed", vp.Short(root.String()))
	}
	stored := map[string][]string{}
	for _, c := range log {
		stored[c.link] = c.links
	}
	if d := dangling(st, produced, stored); len(d) > 0 {
		r.Fail(id, "after a successful build: dangling links %v", d)
	}

	// fault runs
	for _, mode := range []string{"open", "commit"} {
		n := opens
		if mode == "commit" {
			n = len(log)
		}
		for k := 1; k <= n; k++ {
			cid := fmt.Sprintf("%s,fail-%s=%d/%d", id, mode, k, n)
			r.Eval(cid)
			r.Guard(cid, func() {
				st := vp.NewStore()
				if mode == "open" {
					st.FailOpen = k
				} else {
					st.FailCommit = k
				}
				stored := map[string][]string{}
				st.OnCommit = func(l datamodel.Link, raw []byte) { stored[l.String()] = linksOf(l, raw) }
				l, sz, err := b(st.LS())
				if err == nil {
					r.Fail(cid, "build succeeded (link %v) although a write failed", l)
					return
				}
				if l != nil {
					r.Fail(cid, "build returned link %v (size %d) together with error %q", l, sz, err)
				}
				if d := dangling(st, produced, stored); len(d) > 0 {
					r.Fail(cid, "store left with dangling links %v", d)
				}
			})
		}
	}
}

func TestBounded(t *testing.T) {
	r := vp.New(t)
	defer r.Done()
	saved := builder.DefaultLinksPerBlock
	defer func() { builder.DefaultLinksPerBlock = saved }()
	rng := vp.Rng(16)

	var ns []int
	for n := 0; n <= vp.Pick(9, 30); n++ {
		ns = append(ns, n)
	}
	for _, w := range []int{2, 3} {
		for _, n := range ns {
			content := vp.Content(max(n*4-1, 0), int64(n))
			w := w
			exercise(t, r, fmt.Sprintf("file:W=%d,n=%d", w, n), func(ls *ipld.LinkSystem) (datamodel.Link, uint64, error) {
				builder.DefaultLinksPerBlock = w
				return builder.BuildUnixFSFile(bytes.NewReader(content), "size-4", ls)
			})
		}
	}
	exercise(t, r, "symlink", func(ls *ipld.LinkSystem) (datamodel.Link, uint64, error) {
		return builder.BuildUnixFSSymlink("some/target", ls)
	})
	mk := func(names []string) []dagpb.PBLink {
		var out []dagpb.PBLink
		for i, n := range names {
			c, _ := vp.V1Raw.Prefix.Sum([]byte(n))
			e, _ := builder.BuildUnixFSDirectoryEntry(n, int64(i), cidlink.Link{Cid: c})
			out = append(out, e)
		}
		return out
	}
	five := mk(vp.Names(5, rng))
	exercise(t, r, "plaindir:5", func(ls *ipld.LinkSystem) (datamodel.Link, uint64, error) {
		return builder.BuildUnixFSDirectory(five, ls)
	})
	names := vp.Dedup(append(append(vp.Colliding(4, 21, rng), vp.Colliding(3, 12, rng)...), vp.Names(vp.Pick(40, 300), rng)...))
	ents := mk(names)
	for _, fanout := range vp.Pick([]int{8}, []int{8, 16, 256}) {
		fanout := fanout
		exercise(t, r, fmt.Sprintf("sharded:fanout=%d,entries=%d", fanout, len(ents)), func(ls *ipld.LinkSystem) (datamodel.Link, uint64, error) {
			return builder.BuildUnixFSShardedDirectory(fanout, 0x22, ents, ls)
		})
	}

	dir := t.TempDir()
	must := func(err error) {
		if err != nil {
			t.Fatal(err)
		}
	}
	must(os.MkdirAll(filepath.Join(dir, "a", "b", "empty"), 0o755))
	must(os.WriteFile(filepath.Join(dir, "a", "f1"), vp.Content(30, 1), 0o644))
	must(os.WriteFile(filepath.Join(dir, "a", "b", "dup"), vp.Content(30, 1), 0o644))
	must(os.WriteFile(filepath.Join(dir, "a", "b", "big"), vp.Content(600000, 2), 0o644))
	must(os.WriteFile(filepath.Join(dir, "zero"), nil, 0o644))
	must(os.Symlink("a/f1", filepath.Join(dir, "ln")))
	exercise(t, r, "recursive:tempdir", func(ls *ipld.LinkSystem) (datamodel.Link, uint64, error) {
		builder.DefaultLinksPerBlock = 2
		return builder.BuildUnixFSRecursive(dir, ls)
	})
}
