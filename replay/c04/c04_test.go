// C04 bounded stand-in: readers from a file node behave like a ReadSeeker over the exact content.
//
// Bounds (quick | thorough): files
//   - bare bytes node (no link system), raw single block, lengths {0,1,5};
//   - "wrapped" dag-pb leaf with inline data written by boxo (protobuf leaves, one chunk), v0 and v1;
//   - builder files, width 2 and 3, "size-4", chunk counts 2..12 | 2..30 (multi-level);
//   - boxo balanced and trickle files with protobuf leaves, width 2, chunk counts {2,5,9} | 2..20.
//
// For each file 200 | 4000 random histories (VERIF_SEED) of 30 operations spread over TWO readers
// obtained separately from the same node: Seek(off, Start|Current|End) with targets in
// [-len-3, len+3], Read(k) with k in 1..len+2. Oracle: a position/content model with the
// semantics of bytes.Reader: Seek returns the new absolute offset; a negative target returns an
// error (any) and leaves the position unchanged; Read at/after the end returns (0, io.EOF);
// otherwise 1..k bytes equal to the content at the position (io.EOF allowed together with the
// final bytes only).
package c04

import (
	"bytes"
	"context"
	"fmt"
	"io"
	"math/rand"
	"testing"

	"github.com/ipfs/go-unixfsnode"
	"github.com/ipfs/go-unixfsnode/data/builder"
	"github.com/ipfs/go-unixfsnode/file"
	"github.com/ipld/go-ipld-prime"
	"github.com/ipld/go-ipld-prime/datamodel"
	cidlink "github.com/ipld/go-ipld-prime/linking/cid"
	"github.com/ipld/go-ipld-prime/node/basicnode"

	"replay/vp"
)

type subject struct {
	id   string
	node datamodel.LargeBytesNode
	data []byte
}

type model struct {
	rd  io.ReadSeeker
	pos int64
}

// step applies one random operation to reader m and checks it; returns a description.
func step(r *vp.Run, id string, rng *rand.Rand, m *model, data []byte, hist *[]string) bool {
	n := int64(len(data))
	if rng.Intn(2) == 0 {
		whence := rng.Intn(3)
		target := rng.Int63n(2*n+7) - n - 3
		var off int64
		switch whence {
		case io.SeekStart:
			off = target
		case io.SeekCurrent:
			off = target - m.pos
		case io.SeekEnd:
			off = target - n
		}
		*hist = append(*hist, fmt.Sprintf("Seek(%d,%d)", off, whence))
		got, err := m.rd.Seek(off, whence)
		if target < 0 {
			if err == nil {
				r.Fail(id, "history %v: seek to %d returned (%d,nil), want an error", *hist, target, got)
				return false
			}
			return true // position must be unchanged: later operations check it
		}
		if err != nil || got != target {
			r.Fail(id, "history %v: returned (%d,%v), want (%d,nil)", *hist, got, err, target)
			return false
		}
		m.pos = target
		return true
	}
	k := 1 + rng.Intn(len(data)+2)
	*hist = append(*hist, fmt.Sprintf("Read(%d)", k))
	buf := make([]byte, k)
	got, err := m.rd.Read(buf)
	if m.pos >= n {
		if got != 0 || err != io.EOF {
			r.Fail(id, "history %v: at %d of %d returned (%d,%v), want (0,EOF)", *hist, m.pos, n, got, err)
			return false
		}
		return true
	}
	if got < 1 || int64(got) > n-m.pos || !bytes.Equal(buf[:got], data[m.pos:m.pos+int64(got)]) {
		r.Fail(id, "history %v: at %d returned %d bytes %x err=%v, content there is %x", *hist, m.pos, got, buf[:max(got, 0)], err, data[m.pos:min(n, m.pos+int64(k))])
		return false
	}
	if err != nil && !(err == io.EOF && m.pos+int64(got) == n) {
		r.Fail(id, "history %v: at %d returned error %v with %d bytes", *hist, m.pos, err, got)
		return false
	}
	m.pos += int64(got)
	return true
}

func TestBounded(t *testing.T) {
	r := vp.New(t)
	defer r.Done()
	saved := builder.DefaultLinksPerBlock
	defer func() { builder.DefaultLinksPerBlock = saved }()
	ctx := context.Background()
	var subjects []subject
	add := func(id string, nd datamodel.Node, ls *ipld.LinkSystem, data []byte, reify bool) {
		var f datamodel.Node
		var err error
		if reify {
			f, err = unixfsnode.Reify(ipld.LinkContext{Ctx: ctx}, nd, ls)
		} else {
			f, err = file.NewUnixFSFile(ctx, nd, ls)
		}
		if err != nil {
			t.Fatalf("%s: %v", id, err)
		}
		lb, ok := f.(datamodel.LargeBytesNode)
		if !ok {
			t.Fatalf("%s: %T is not a LargeBytesNode", id, f)
		}
		subjects = append(subjects, subject{id, lb, data})
	}
	for _, n := range []int{0, 1, 5} {
		d := vp.Content(n, int64(n))
		add(fmt.Sprintf("bare:len=%d", n), basicnode.NewBytes(d), nil, d, false)
		st := vp.NewStore()
		l, _, err := builder.BuildUnixFSFile(bytes.NewReader(d), "", st.LS())
		if err != nil {
			t.Fatal(err)
		}
		nd, err := vp.Load(st.LS(), l)
		if err != nil {
			t.Fatal(err)
		}
		add(fmt.Sprintf("raw:len=%d", n), nd, st.LS(), d, false)
	}
	boxo := func(id, layout string, w, size, ver int) {
		d := vp.Content(size, int64(size*7+w))
		bx := vp.NewBoxo()
		bn, err := bx.ImportFile(d, "size-4", layout, w, false, ver)
		if err != nil {
			t.Fatal(err)
		}
		st, err := bx.Store()
		if err != nil {
			t.Fatal(err)
		}
		nd, err := vp.Load(st.LS(), cidlink.Link{Cid: bn.Cid()})
		if err != nil {
			t.Fatal(err)
		}
		add(id, nd, st.LS(), d, ver == 1)
	}
	boxo("wrapped:v0,len=3", "balanced", 2, 3, 0)
	boxo("wrapped:v1,len=4", "balanced", 2, 4, 1)
	boxo("wrapped:v1,len=0", "balanced", 2, 0, 1)
	for _, w := range []int{2, 3} {
		builder.DefaultLinksPerBlock = w
		for n := 2; n <= vp.Pick(12, 30); n++ {
			d := vp.Content(n*4-1-n%2, int64(1000*w+n))
			st := vp.NewStore()
			l, _, err := builder.BuildUnixFSFile(bytes.NewReader(d), "size-4", st.LS())
			if err != nil {
				t.Fatal(err)
			}
			nd, err := vp.Load(st.LS(), l)
			if err != nil {
				t.Fatal(err)
			}
			add(fmt.Sprintf("built:W=%d,n=%d", w, n), nd, st.LS(), d, n%2 == 0)
		}
	}
	ns := []int{2, 5, 9}
	if vp.Thorough() {
		ns = nil
		for n := 2; n <= 20; n++ {
			ns = append(ns, n)
		}
	}
	for _, n := range ns {
		boxo(fmt.Sprintf("boxo:balanced,n=%d", n), "balanced", 2, n*4-1, 1)
		boxo(fmt.Sprintf("boxo:trickle,n=%d", n), "trickle", 2, n*4-1, 0)
	}

	rng := vp.Rng(4)
	for _, s := range subjects {
		for hno := 0; hno < vp.Pick(200, 4000); hno++ {
			r.Eval(fmt.Sprintf("%s#%d", s.id, hno))
			r.Guard(s.id, func() {
				var ms [2]*model
				var hists [2][]string
				for i := range ms {
					rd, err := s.node.AsLargeBytes()
					if err != nil {
						r.Fail(s.id, "AsLargeBytes: %v", err)
						return
					}
					ms[i] = &model{rd: rd}
				}
				for op := 0; op < 30; op++ {
					i := rng.Intn(2)
					if !step(r, s.id, rng, ms[i], s.data, &hists[i]) {
						return
					}
				}
				// final position of both readers
				for i, m := range ms {
					if p, err := m.rd.Seek(0, io.SeekCurrent); err != nil || p != m.pos {
						r.Fail(s.id, "history %v (other reader: %v): final position (%d,%v), want %d", hists[i], hists[1-i], p, err, m.pos)
					}
				}
				if hno == 0 && len(s.data) > 8 && len(s.data)%5 == 0 {
					r.Sample(map[string]any{"file": s.id, "len": len(s.data), "reader0": hists[0], "reader1": hists[1]})
				}
			})
		}
	}
}
