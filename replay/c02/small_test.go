package c02

// Sharded directories over the empty and the smallest entry sets. The entry sets of the main test
// start at one entry and (in quick) skip half of the fanouts, so nothing builds a HAMT root in which
// no bucket (or one, or two) is occupied. Such a root is special on the wire: its bitfield is all
// zero, and go-bitfield's Bytes() drops leading zero bytes, so what goes into the UnixFS Data field
// of an empty shard is a zero-length byte string. The block still has to carry Type=HAMTShard,
// hashType, fanout and a Data field the reader accepts.
//
//	sharded:fanout=<f>,n=<k>   f in {8,16,32,64,128,256,512,1024} (both tiers), k in {0,1,2}:
//	                           BuildUnixFSShardedDirectory(f, murmur3, first k of smallNames);
//	                           the build succeeds, the stored root parses (independent protowire /
//	                           gogo walk) as a HAMT shard of that fanout holding exactly the k
//	                           names, and the reified directory passes checkDir: Length k, the k
//	                           members found, "", bare hex prefixes, fresh names and perturbed
//	                           members absent with a not-found error, iteration yields each name
//	                           once (for k=0: nothing, and Done() at once).
//	plain:n=0, quick:n=0       the same empty set through BuildUnixFSDirectory and quickbuilder.

import (
	"fmt"
	"math/rand"
	"sort"
	"strings"
	"testing"

	upb "github.com/ipfs/boxo/ipld/unixfs/pb"
	"github.com/ipfs/go-unixfsnode/data/builder"
	quick "github.com/ipfs/go-unixfsnode/data/builder/quick"
	"github.com/ipld/go-ipld-prime/datamodel"

	"replay/vp"
)

var smallFanouts = []int{8, 16, 32, 64, 128, 256, 512, 1024}

var smallNames = []string{"only", "other é"}

func smallDirs(t *testing.T, r *vp.Run, rng *rand.Rand) {
	for _, fanout := range smallFanouts {
		for k := 0; k <= len(smallNames); k++ {
			id := fmt.Sprintf("sharded:fanout=%d,n=%d", fanout, k)
			ents, want := entries(smallNames[:k])
			st := vp.NewStore()
			var root datamodel.Link
			var err error
			r.Guard(id, func() {
				root, _, err = builder.BuildUnixFSShardedDirectory(fanout, 0x22, ents, st.LS())
			})
			if err != nil || root == nil {
				r.Eval(id)
				r.Fail(id, "build: link %v, error %v", root, err)
				continue
			}
			// the stored root, read without the library
			if b, _, err := st.Block(root); err != nil {
				r.Fail(id, "stored root: %v", err)
			} else if !b.HasData {
				r.Fail(id, "stored root block has no Data field (%d links)", len(b.Links))
			} else if u, err := b.UnixFS(); err != nil {
				r.Fail(id, "stored root: UnixFS Data does not decode: %v", err)
			} else if u.GetType() != upb.Data_HAMTShard || u.GetFanout() != uint64(fanout) || u.GetHashType() != 0x22 {
				r.Fail(id, "stored root: type=%v fanout=%d hashType=%#x, want HAMTShard %d 0x22", u.GetType(), u.GetFanout(), u.GetHashType(), fanout)
			} else if info, err := st.WalkHamt(root); err != nil {
				r.Fail(id, "stored root: independent walk: %v", err)
			} else {
				got := append([]string(nil), info.Order...)
				exp := append([]string(nil), smallNames[:k]...)
				sort.Strings(got)
				sort.Strings(exp)
				if strings.Join(got, "\x00") != strings.Join(exp, "\x00") {
					r.Fail(id, "stored HAMT holds %q, want %q", got, exp)
				}
			}
			checkDir(r, id, st, root, want, rng)
		}
	}

	// the empty set through the other two builders
	st := vp.NewStore()
	root, _, err := builder.BuildUnixFSDirectory(nil, st.LS())
	if err != nil {
		r.Eval("plain:n=0")
		r.Fail("plain:n=0", "build: %v", err)
	} else {
		checkDir(r, "plain:n=0", st, root, map[string]datamodel.Link{}, rng)
	}
	st = vp.NewStore()
	var qroot datamodel.Link
	err = quick.Store(st.LS(), func(b *quick.Builder) error {
		qroot = b.NewMapDirectory(map[string]quick.Node{}).Link()
		return nil
	})
	if err != nil || qroot == nil {
		r.Eval("quick:n=0")
		r.Fail("quick:n=0", "build: link %v, error %v", qroot, err)
	} else {
		checkDir(r, "quick:n=0", st, qroot, map[string]datamodel.Link{}, rng)
	}
}
