// C02 bounded stand-in: a built directory, reified, is exactly the map of its entries.
//
// Bounds (quick | thorough):
//
//	fanouts {8,16,256,1024} | {8,16,32,64,128,256,512,1024};
//	entry sets per fanout: 1 entry; random names (ascii / unicode / spaces / hex-looking prefixes)
//	  of sizes {5,60,300} x 2 draws | {5,60,300,3000} x 5 draws; murmur3 prefix-colliding names (4 sharing 21 bits,
//	  plus 3 sharing 12 bits) so that shards nest >= 2 levels for every fanout; mixed.
//	the empty set and sets of 1 and 2 entries for EVERY fanout 8..1024 in both tiers
//	  ("sharded:fanout=<f>,n=<k>", "plain:n=0", "quick:n=0"; small_test.go).
//	builders: BuildUnixFSShardedDirectory(fanout), BuildUnixFSDirectory (plain; in thorough also
//	  one set of 7000 entries that crosses the 256 KiB auto-shard estimate), quickbuilder.
//	non-members probed: fresh random names, "", every member with a prefix / suffix changed, the
//	  bare hex prefixes "0","00","000","0A".
//
// Oracle: the input name->link map itself. Seeded by VERIF_SEED.
package c02

import (
	"fmt"
	"math/rand"
	"testing"

	"github.com/ipfs/go-cid"
	"github.com/ipfs/go-unixfsnode"
	"github.com/ipfs/go-unixfsnode/data/builder"
	quick "github.com/ipfs/go-unixfsnode/data/builder/quick"
	dagpb "github.com/ipld/go-codec-dagpb"
	"github.com/ipld/go-ipld-prime"
	"github.com/ipld/go-ipld-prime/datamodel"
	cidlink "github.com/ipld/go-ipld-prime/linking/cid"
	"github.com/ipld/go-ipld-prime/schema"

	"replay/vp"
)

func linkFor(name string) datamodel.Link {
	c, err := vp.V1Raw.Prefix.Sum([]byte("target of " + name))
	if err != nil {
		panic(err)
	}
	return cidlink.Link{Cid: c}
}

func isNotFound(err error) bool {
	switch err.(type) {
	case schema.ErrNoSuchField, datamodel.ErrNotExists:
		return true
	}
	return false
}

func checkDir(r *vp.Run, id string, st *vp.Store, root datamodel.Link, want map[string]datamodel.Link, rng *rand.Rand) {
	r.Eval(id)
	ls := st.LS()
	nd, err := vp.Load(ls, root)
	if err != nil {
		r.Fail(id, "load root: %v", err)
		return
	}
	r.Guard(id, func() {
		d, err := unixfsnode.Reify(ipld.LinkContext{}, nd, ls)
		if err != nil {
			r.Fail(id, "Reify: %v", err)
			return
		}
		if d.Kind() != datamodel.Kind_Map {
			r.Fail(id, "kind %v, want map", d.Kind())
			return
		}
		if d.Length() != int64(len(want)) {
			r.Fail(id, "Length()=%d, want %d", d.Length(), len(want))
		}
		for name, wl := range want {
			r.Eval("")
			v, err := d.LookupByString(name)
			if err != nil {
				r.Fail(id, "lookup member %q: %v", name, err)
				continue
			}
			gl, err := v.AsLink()
			if err != nil || gl.String() != wl.String() {
				r.Fail(id, "lookup member %q: link %v err=%v, want %v", name, gl, err, wl)
			}
		}
		non := []string{"", "0", "00", "000", "0A", "definitely-not-there"}
		non = append(non, vp.Names(10, rng)...)
		k := 0
		for name := range want {
			if k++; k > 40 {
				break
			}
			non = append(non, "0"+name, "00"+name, "000"+name, name+"x", name[1:], name+"/")
		}
		for _, name := range non {
			if _, in := want[name]; in {
				continue
			}
			r.Eval("")
			v, err := d.LookupByString(name)
			if err == nil {
				r.Fail(id, "lookup non-member %q succeeded: %v", name, v)
			} else if !isNotFound(err) {
				r.Fail(id, "lookup non-member %q: error %v (%T) is not a not-found error", name, err, err)
			}
		}
		seen := map[string]int{}
		it := d.MapIterator()
		for steps := 0; !it.Done() && steps <= len(want)+2; steps++ {
			k, v, err := it.Next()
			if err != nil {
				r.Fail(id, "iteration error after %d entries: %v", len(seen), err)
				break
			}
			ks, err := k.AsString()
			if err != nil {
				r.Fail(id, "iteration key not a string: %v", err)
				break
			}
			seen[ks]++
			wl, in := want[ks]
			if !in {
				r.Fail(id, "iteration yielded unknown name %q", ks)
				continue
			}
			gl, err := v.AsLink()
			if err != nil || gl.String() != wl.String() {
				r.Fail(id, "iteration %q: link %v err=%v, want %v", ks, gl, err, wl)
			}
		}
		if !it.Done() {
			r.Fail(id, "iterator not done after %d steps", len(want)+2)
		}
		for name := range want {
			if seen[name] != 1 {
				r.Fail(id, "iteration yielded %q %d times", name, seen[name])
			}
		}
	})
}

func entries(names []string) ([]dagpb.PBLink, map[string]datamodel.Link) {
	want := map[string]datamodel.Link{}
	var out []dagpb.PBLink
	for i, n := range names {
		l := linkFor(n)
		e, err := builder.BuildUnixFSDirectoryEntry(n, int64(10+i), l)
		if err != nil {
			panic(err)
		}
		out = append(out, e)
		want[n] = l
	}
	return out, want
}

func TestBounded(t *testing.T) {
	r := vp.New(t)
	defer r.Done()
	rng := vp.Rng(2)
	fanouts := vp.Pick([]int{8, 16, 256, 1024}, []int{8, 16, 32, 64, 128, 256, 512, 1024})
	sizes := vp.Pick([]int{5, 60, 300}, []int{5, 60, 300, 3000})

	var sets [][]string
	var labels []string
	add := func(label string, names []string) {
		sets = append(sets, vp.Dedup(names))
		labels = append(labels, label)
	}
	add("one", []string{"a"})
	for _, n := range sizes {
		for trial := 0; trial < vp.Pick(2, 5); trial++ {
			add(fmt.Sprintf("rand%d#%d", n, trial), vp.Names(n, rng))
		}
	}
	coll := append(vp.Colliding(4, 21, rng), vp.Colliding(3, 12, rng)...)
	add("collide", coll)
	add("mixed", append(append([]string{}, coll...), vp.Names(40, rng)...))

	for si, names := range sets {
		ents, want := entries(names)
		// plain directory and quick builder do not depend on the fanout
		id := fmt.Sprintf("plain:%s", labels[si])
		st := vp.NewStore()
		root, _, err := builder.BuildUnixFSDirectory(ents, st.LS())
		if err != nil {
			t.Fatalf("%s: %v", id, err)
		}
		checkDir(r, id, st, root, want, rng)

		id = fmt.Sprintf("quick:%s", labels[si])
		st = vp.NewStore()
		m := map[string]quick.Node{}
		var qroot datamodel.Link
		err = quick.Store(st.LS(), func(b *quick.Builder) error {
			f := b.NewBytesFile([]byte("x"))
			for _, n := range names {
				m[n] = f
			}
			qroot = b.NewMapDirectory(m).Link()
			return nil
		})
		if err != nil {
			t.Fatal(err)
		}
		qwant := map[string]datamodel.Link{}
		for n, f := range m {
			qwant[n] = f.Link()
		}
		checkDir(r, id, st, qroot, qwant, rng)

		for _, fanout := range fanouts {
			id := fmt.Sprintf("sharded:fanout=%d,%s", fanout, labels[si])
			st := vp.NewStore()
			root, _, err := builder.BuildUnixFSShardedDirectory(fanout, 0x22, ents, st.LS())
			if err != nil {
				r.Eval(id)
				r.Fail(id, "build: %v", err)
				continue
			}
			if labels[si] == "collide" {
				r.Sample(map[string]any{"case": id, "names": names, "blocks": st.Len(), "root": root.String()})
				if st.Len() < 3 {
					t.Fatalf("%s: harness: colliding names produced only %d shard blocks", id, st.Len())
				}
			}
			checkDir(r, id, st, root, want, rng)
		}
	}

	if vp.Thorough() {
		names := make([]string, 7000)
		for i := range names {
			names[i] = fmt.Sprintf("auto-shard entry %05d é", i)
		}
		ents, want := entries(names)
		st := vp.NewStore()
		root, _, err := builder.BuildUnixFSDirectory(ents, st.LS())
		if err != nil {
			t.Fatal(err)
		}
		if st.Len() < 2 {
			t.Fatalf("harness: 7000 entries did not auto-shard")
		}
		checkDir(r, "auto:7000", st, root, want, rng)
	}

	smallDirs(t, r, vp.Rng(202))
	_ = cid.Undef
}
