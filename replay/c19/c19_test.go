// C19 bounded stand-in: the testutil fixture generators describe exactly the DAG they stored.
//
// Bounds (quick | thorough): random sources math/rand seeded VERIF_SEED*1000+case, case numbers
// 0..5 | 0..79, target sizes {1 KiB, 4 KiB, 16 KiB, 64 KiB} for the directory generators;
//
//	UnixFSFile / GenerateFile: sizes {0,1,1024,65536,300000}, default chunker and "size-100";
//	  UnixFSFile also with a random source that ends after {0, 100, size-1} bytes (sizes 1024, 65536);
//	UnixFSDirectory: default child generator and a custom one (WithChildGenerator: files, one nested
//	  directory, stop), each without / with WithShardBitwidth(4), and with WithDirname("top");
//	GenerateDirectory rootSharded false/true; GenerateDirectoryFrom dir "/x/y" sharded false/true;
//	BuildDirectory over generated files + one generated directory, sharded false/true;
//	WrapContent around a generated file / directory, path "a/b c/d", exclusive true/false.
//
// Checks: the returned DirEntry tree equals an INDEPENDENT read-back (vp.ReadTree: protowire dag-pb,
// gogo unixfs_pb, HAMT shards flattened with prefixes stripped, file bytes through the file DAG)
// from the returned Root: same names (last Path segment), non-empty and unique among siblings,
// same file bytes, each child's Root equal to the CID in the parent's link and its TSize equal to
// that link's Tsize; for the directory generators Path(child) == Path(parent) + "/" + name.
// Additionally testutil.ToDirEntry(From) + CompareDirEntries run in a sub-test (link system with
// unixfsnode.Reify as NodeReifier) wherever the paths are comparable (everything but WrapContent,
// whose entries carry bare segment names).
package c19

import (
	"bytes"
	"fmt"
	"io"
	"math/rand"
	"sort"
	"strings"
	"testing"

	"github.com/ipfs/go-unixfsnode"
	"github.com/ipfs/go-unixfsnode/testutil"
	"github.com/ipld/go-ipld-prime"
	cidlink "github.com/ipld/go-ipld-prime/linking/cid"

	"replay/vp"
)

// recorder is a require.TestingT that records instead of aborting the whole test.
type recorder struct{ msgs []string }
type abort struct{}

func (r *recorder) Errorf(format string, args ...interface{}) {
	r.msgs = append(r.msgs, fmt.Sprintf(format, args...))
}
func (r *recorder) FailNow() { panic(abort{}) }

func lastSeg(p string) string { return p[strings.LastIndex(p, "/")+1:] }

// compare checks de against the independent read-back tr.
func compare(r *vp.Run, id string, de testutil.DirEntry, tr *vp.Tree, checkPaths bool) {
	r.Eval("")
	where := fmt.Sprintf("entry %q", de.Path)
	if de.Root.String() != strings.TrimSpace(tr.Link) {
		r.Fail(id, "%s: Root %s but the stored link is %s", where, de.Root, tr.Link)
	}
	for _, p := range tr.Problems {
		r.Fail(id, "%s: stored directory: %s", where, p)
	}
	switch tr.Kind {
	case "file":
		if len(de.Children) != 0 {
			r.Fail(id, "%s: has %d children but the DAG holds a file", where, len(de.Children))
		}
		if !bytes.Equal(de.Content, tr.Content) {
			r.Fail(id, "%s: Content has %d bytes, the stored file reads back %d bytes (equal prefix %d)", where, len(de.Content), len(tr.Content), commonPrefix(de.Content, tr.Content))
		}
	case "dir":
		if len(de.Content) != 0 {
			r.Fail(id, "%s: directory entry carries %d content bytes", where, len(de.Content))
		}
		seen := map[string]bool{}
		var names []string
		for _, c := range de.Children {
			name := lastSeg(c.Path)
			names = append(names, name)
			if name == "" {
				r.Fail(id, "%s: child with empty name (Path %q)", where, c.Path)
				continue
			}
			if seen[name] {
				r.Fail(id, "%s: sibling name %q occurs twice", where, name)
				continue
			}
			seen[name] = true
			if checkPaths && c.Path != de.Path+"/"+name {
				r.Fail(id, "%s: child Path %q, want %q", where, c.Path, de.Path+"/"+name)
			}
			sub, ok := tr.Children[name]
			if !ok {
				r.Fail(id, "%s: child %q is not in the stored directory (stored: %q)", where, name, tr.Names)
				continue
			}
			if tr.EntryCid[name] != c.Root.String() {
				r.Fail(id, "%s: child %q Root %s, the directory links %s", where, name, c.Root, tr.EntryCid[name])
			}
			if tr.Tsize[name] != c.TSize {
				r.Fail(id, "%s: child %q TSize %d, the directory's link records %d", where, name, c.TSize, tr.Tsize[name])
			}
			compare(r, id, c, sub, checkPaths)
		}
		if len(tr.Names) != len(de.Children) {
			sort.Strings(names)
			stored := append([]string(nil), tr.Names...)
			sort.Strings(stored)
			r.Fail(id, "%s: %d children %q, stored directory has %d entries %q", where, len(de.Children), names, len(stored), stored)
		}
	default:
		r.Fail(id, "%s: stored block is a %s", where, tr.Kind)
	}
}

func commonPrefix(a, b []byte) int {
	n := 0
	for n < len(a) && n < len(b) && a[n] == b[n] {
		n++
	}
	return n
}

type harness struct {
	t *testing.T
	r *vp.Run
}

// run executes one generator case. gen receives a fresh store's link system, a seeded random
// source and a TestingT recorder. fromPath is the root path for ToDirEntryFrom ("-" = skip the
// testutil comparison).
func (h harness) run(id string, seed int64, checkPaths bool, fromPath string,
	gen func(t *testing.T, rec *recorder, ls *ipld.LinkSystem, rnd *rand.Rand) (testutil.DirEntry, error)) {
	r := h.r
	r.Eval(id)
	st := vp.NewStore()
	ls := st.LS()
	rec := &recorder{}
	var de testutil.DirEntry
	var err error
	aborted := false
	ok := h.t.Run(id, func(t *testing.T) {
		defer func() {
			if p := recover(); p != nil {
				if _, is := p.(abort); is {
					aborted = true
					return
				}
				r.Fail(id, "generator panicked: %v", p)
				aborted = true
			}
		}()
		de, err = gen(t, rec, ls, rand.New(rand.NewSource(vp.Seed()*1000+seed)))
	})
	if aborted || len(rec.msgs) > 0 {
		r.Fail(id, "generator reported a failure: %s", strings.Join(rec.msgs, "; "))
		return
	}
	if !ok {
		r.Fail(id, "generator failed its *testing.T")
		return
	}
	if err != nil {
		r.Fail(id, "generator error: %v", err)
		return
	}
	tr, err := st.ReadTree(cidlink.Link{Cid: de.Root})
	if err != nil {
		r.Fail(id, "independent read-back from Root %s failed: %v", de.Root, err)
		return
	}
	if seed == 0 && tr.Kind == "dir" && strings.Contains(id, "size=16384") && strings.Contains(id, "sharded=1") {
		r.Sample(map[string]any{"case": id, "root": de.Root.String(), "kind": tr.Kind, "sharded": tr.Sharded, "entries": len(tr.Names), "tsize": de.TSize, "blocks": st.Len()})
	}
	compare(r, id, de, tr, checkPaths)
	if fromPath == "-" {
		return
	}
	// the comparison the property names: testutil's own reader
	ls2 := *st.LS()
	ls2.NodeReifier = unixfsnode.Reify
	if !h.t.Run(id+"/ToDirEntry", func(t *testing.T) {
		got := testutil.ToDirEntryFrom(t, ls2, de.Root, fromPath, true)
		testutil.CompareDirEntries(t, de, got)
	}) {
		r.Fail(id, "testutil.CompareDirEntries(generated, testutil.ToDirEntryFrom(Root, %q)) failed (see the sub-test output)", fromPath)
	}
}

func TestBounded(t *testing.T) {
	r := vp.New(t)
	defer r.Done()
	h := harness{t, r}
	cases := int64(vp.Pick(6, 80))
	sizes := []int{1 << 10, 4 << 10, 16 << 10, 64 << 10}

	for seed := int64(0); seed < cases; seed++ {
		for _, size := range []int{0, 1, 1024, 65536, 300000} {
			for _, chunker := range []string{"", "size-100"} {
				if size == 300000 && (chunker != "" || seed > 2) {
					continue
				}
				id := fmt.Sprintf("UnixFSFile:seed=%d,size=%d,chunker=%q", seed, size, chunker)
				h.run(id, seed, true, "", func(_ *testing.T, _ *recorder, ls *ipld.LinkSystem, rnd *rand.Rand) (testutil.DirEntry, error) {
					opts := []testutil.Option{testutil.WithRandReader(rnd)}
					if chunker != "" {
						opts = append(opts, testutil.WithChunker(chunker))
					}
					return testutil.UnixFSFile(*ls, size, opts...)
				})
			}
			// a random source that runs dry before the requested size: the entry must describe the
			// (shorter) file that was actually stored
			if size == 1024 || size == 65536 {
				for _, avail := range []int{0, 100, size - 1} {
					id := fmt.Sprintf("UnixFSFile:seed=%d,size=%d,source-ends-after=%d", seed, size, avail)
					h.run(id, seed, true, "", func(_ *testing.T, _ *recorder, ls *ipld.LinkSystem, rnd *rand.Rand) (testutil.DirEntry, error) {
						return testutil.UnixFSFile(*ls, size, testutil.WithRandReader(io.LimitReader(rnd, int64(avail))), testutil.WithChunker("size-100"))
					})
				}
			}
			if size == 300000 && seed > 2 {
				continue
			}
			h.run(fmt.Sprintf("GenerateFile:seed=%d,size=%d", seed, size), seed, true, "", func(_ *testing.T, rec *recorder, ls *ipld.LinkSystem, rnd *rand.Rand) (testutil.DirEntry, error) {
				return testutil.GenerateFile(rec, ls, rnd, size), nil
			})
		}

		for _, size := range sizes {
			for sharded := 0; sharded <= 1; sharded++ {
				for _, dirname := range []string{"", "top"} {
					base := func(rnd *rand.Rand) []testutil.Option {
						opts := []testutil.Option{testutil.WithRandReader(rnd)}
						if sharded == 1 {
							opts = append(opts, testutil.WithShardBitwidth(4))
						}
						if dirname != "" {
							opts = append(opts, testutil.WithDirname(dirname))
						}
						return opts
					}
					suffix := fmt.Sprintf("seed=%d,size=%d,sharded=%d", seed, size, sharded)
					if dirname != "" {
						suffix += ",dirname=" + dirname
					}
					h.run("UnixFSDirectory:"+suffix, seed, true, dirname, func(_ *testing.T, _ *recorder, ls *ipld.LinkSystem, rnd *rand.Rand) (testutil.DirEntry, error) {
						return testutil.UnixFSDirectory(*ls, size, base(rnd)...)
					})
					h.run("UnixFSDirectory-custom:"+suffix, seed, true, dirname, func(_ *testing.T, _ *recorder, ls *ipld.LinkSystem, rnd *rand.Rand) (testutil.DirEntry, error) {
						n, files := 0, 1+rnd.Intn(6)
						gen := func(name string) (*testutil.DirEntry, error) {
							n++
							switch {
							case n <= files:
								f, err := testutil.UnixFSFile(*ls, 1+rnd.Intn(size/8), testutil.WithRandReader(rnd), testutil.WithChunker("size-1000"))
								f.Path = name
								return &f, err
							case n == files+1:
								k := 0
								inner := func(name string) (*testutil.DirEntry, error) {
									if k++; k > 2 {
										return nil, nil
									}
									f, err := testutil.UnixFSFile(*ls, k*10, testutil.WithRandReader(rnd))
									f.Path = name
									return &f, err
								}
								d, err := testutil.UnixFSDirectory(*ls, 0, testutil.WithRandReader(rnd), testutil.WithDirname(name), testutil.WithChildGenerator(inner))
								return &d, err
							}
							return nil, nil
						}
						return testutil.UnixFSDirectory(*ls, size, append(base(rnd), testutil.WithChildGenerator(gen))...)
					})
				}
				suffix := fmt.Sprintf("seed=%d,size=%d,sharded=%d", seed, size, sharded)
				h.run("GenerateDirectory:"+suffix, seed, true, "", func(_ *testing.T, rec *recorder, ls *ipld.LinkSystem, rnd *rand.Rand) (testutil.DirEntry, error) {
					return testutil.GenerateDirectory(rec, ls, rnd, size, sharded == 1), nil
				})
				h.run("GenerateDirectoryFrom:"+suffix+",dir=/x/y", seed, true, "/x/y", func(_ *testing.T, rec *recorder, ls *ipld.LinkSystem, rnd *rand.Rand) (testutil.DirEntry, error) {
					return testutil.GenerateDirectoryFrom(rec, ls, rnd, size, "/x/y", sharded == 1), nil
				})
				h.run("BuildDirectory:"+suffix, seed, true, "", func(_ *testing.T, rec *recorder, ls *ipld.LinkSystem, rnd *rand.Rand) (testutil.DirEntry, error) {
					var kids []testutil.DirEntry
					for i := 0; i < 1+rnd.Intn(40); i++ {
						f := testutil.GenerateFile(rec, ls, rnd, rnd.Intn(size/16+1))
						f.Path = fmt.Sprintf("/file %d é", i)
						kids = append(kids, f)
					}
					kids = append(kids, testutil.GenerateDirectoryFrom(rec, ls, rnd, size/2, "/sub", false))
					return testutil.BuildDirectory(rec, ls, kids, sharded == 1), nil
				})
			}
			for _, exclusive := range []bool{true, false} {
				for _, what := range []string{"file", "dir"} {
					id := fmt.Sprintf("WrapContent:seed=%d,size=%d,content=%s,exclusive=%v", seed, size, what, exclusive)
					h.run(id, seed, false, "-", func(t *testing.T, rec *recorder, ls *ipld.LinkSystem, rnd *rand.Rand) (testutil.DirEntry, error) {
						var content testutil.DirEntry
						if what == "file" {
							content = testutil.GenerateFile(rec, ls, rnd, size)
						} else {
							content = testutil.GenerateDirectory(rec, ls, rnd, size, seed%2 == 1)
						}
						return testutil.WrapContent(t, rnd, ls, content, "a/b c/d", exclusive), nil
					})
				}
			}
		}
	}
}
