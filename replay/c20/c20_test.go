// C20 bounded stand-in: blocks are first requested in depth-first link order, on every run.
//
// Bounds (quick | thorough):
//
//	files: builder width W in {2,3} | {2,3,4}, size-4, EVERY chunk count 1..W^3+W; boxo balanced
//	  and trickle files with protobuf leaves (W=2, n in {3,8,13} | 1..20); operations: AsBytes,
//	  streamed reads with buffers {1,5,4096}, the "unixfs-preload" reifier,
//	  file.NewUnixFSFileWithPreload;
//	hand-built files (handbuilt_test.go): interior nodes with dag-pb children, including empty
//	  ones (recorded block size 0) in middle / last / nested positions; 32 fixed shapes with CIDv1
//	  and CIDv0 links + 60 | 2000 random shapes of depth <= 3; same operations plus io.ReadAll;
//	  all of these as "file:hand=..."; 20 shapes (+3 with CIDv0 links) with a leading-empty child as
//	  "file:leading-empty=..." (known finding: such a child is never requested; nothing else can
//	  fail under that name);
//	HAMTs: fanouts {8,32,256,1024} | all of 8..1024 over 7 colliding + 150 | 2000 random names;
//	  operations: full MapIterator pass, Length(), the preload reifier;
//	paths: root(plain)/h(HAMT)/<name> resolved with UnixFSPathSelector for every 5th | every name:
//	  first requests == [h, shards on the name's hash path..., target] in that order.
//
// Each operation runs 3 times on fresh nodes; the de-duplicated request log (root load included)
// must equal the depth-first, link-order block list computed by vp's protowire walker, each time.
package c20

import (
	"bytes"
	"context"
	"fmt"
	"io"
	"strings"
	"testing"

	"github.com/ipfs/go-unixfsnode"
	"github.com/ipfs/go-unixfsnode/data/builder"
	"github.com/ipfs/go-unixfsnode/file"
	dagpb "github.com/ipld/go-codec-dagpb"
	"github.com/ipld/go-ipld-prime"
	"github.com/ipld/go-ipld-prime/datamodel"
	cidlink "github.com/ipld/go-ipld-prime/linking/cid"
	"github.com/ipld/go-ipld-prime/traversal"
	"github.com/ipld/go-ipld-prime/traversal/selector"

	"replay/vp"
)

type op struct {
	name string
	run  func(ls *ipld.LinkSystem, root datamodel.Node) error
}

var ctx = ipld.LinkContext{Ctx: context.Background()}

func stream(bs int) func(ls *ipld.LinkSystem, n datamodel.Node) error {
	return func(ls *ipld.LinkSystem, n datamodel.Node) error {
		f, err := file.NewUnixFSFile(ctx.Ctx, n, ls)
		if err != nil {
			return err
		}
		rd, err := f.AsLargeBytes()
		if err != nil {
			return err
		}
		buf := make([]byte, bs)
		for {
			if _, err := rd.Read(buf); err == io.EOF {
				return nil
			} else if err != nil {
				return err
			}
		}
	}
}

func preload(ls *ipld.LinkSystem, n datamodel.Node) error {
	_, err := ls.KnownReifiers["unixfs-preload"](ctx, n, ls)
	return err
}

var fileOps = []op{
	{"AsBytes", func(ls *ipld.LinkSystem, n datamodel.Node) error {
		f, err := unixfsnode.Reify(ctx, n, ls)
		if err != nil {
			return err
		}
		_, err = f.AsBytes()
		return err
	}},
	{"stream1", stream(1)}, {"stream5", stream(5)}, {"stream4096", stream(4096)},
	{"preload-reifier", preload},
	{"NewUnixFSFileWithPreload", func(ls *ipld.LinkSystem, n datamodel.Node) error {
		_, err := file.NewUnixFSFileWithPreload(ctx.Ctx, n, ls)
		return err
	}},
}

var dirOps = []op{
	{"iterate", func(ls *ipld.LinkSystem, n datamodel.Node) error {
		d, err := unixfsnode.Reify(ctx, n, ls)
		if err != nil {
			return err
		}
		for it := d.MapIterator(); !it.Done(); {
			if _, _, err := it.Next(); err != nil {
				return err
			}
		}
		return nil
	}},
	{"Length", func(ls *ipld.LinkSystem, n datamodel.Node) error {
		d, err := unixfsnode.Reify(ctx, n, ls)
		if err != nil {
			return err
		}
		if d.Length() <= 0 {
			return fmt.Errorf("Length()=%d", d.Length())
		}
		return nil
	}},
	{"preload-reifier", preload},
}

func dedup(xs []string) []string {
	seen := map[string]bool{}
	var out []string
	for _, x := range xs {
		if !seen[x] {
			seen[x] = true
			out = append(out, x)
		}
	}
	return out
}

func short(xs []string) string {
	var s []string
	for _, x := range xs {
		s = append(s, vp.Short(x)[6:])
	}
	return strings.Join(s, " ")
}

func check(r *vp.Run, id string, st *vp.Store, root datamodel.Link, want []string, ops []op) {
	want = dedup(want)
	for _, o := range ops {
		cid := fmt.Sprintf("%s,%s", id, o.name)
		// one VP-FAIL line per failing case: the first failing run is reported, later runs are skipped
		for rep, ok := 0, true; rep < 3 && ok; rep++ {
			r.Eval(fmt.Sprintf("%s,rep=%d", cid, rep))
			r.Guard(cid, func() {
				ok = false
				ls := st.LS()
				unixfsnode.AddUnixFSReificationToLinkSystem(ls)
				st.ResetLog()
				rn, err := vp.Load(ls, root)
				if err != nil {
					r.Fail(cid, "load: %v", err)
					return
				}
				if err := o.run(ls, rn); err != nil {
					r.Fail(cid, "operation failed: %v", err)
					return
				}
				if got := st.FirstReads(); strings.Join(got, " ") != strings.Join(want, " ") {
					r.Fail(cid, "run %d: first requests [%s], depth-first link order is [%s]", rep, short(got), short(want))
					return
				}
				ok = true
			})
		}
	}
}

func TestBounded(t *testing.T) {
	r := vp.New(t)
	defer r.Done()
	saved := builder.DefaultLinksPerBlock
	defer func() { builder.DefaultLinksPerBlock = saved }()

	for _, w := range vp.Pick([]int{2, 3}, []int{2, 3, 4}) {
		builder.DefaultLinksPerBlock = w
		for n := 1; n <= w*w*w+w; n++ {
			st := vp.NewStore()
			root, _, err := builder.BuildUnixFSFile(bytes.NewReader(vp.Content(n*4-1, int64(w*1000+n))), "size-4", st.LS())
			if err != nil {
				t.Fatal(err)
			}
			_, _, order, err := st.FileSpans(root)
			if err != nil {
				t.Fatal(err)
			}
			id := fmt.Sprintf("file:W=%d,n=%d", w, n)
			if n == w*w+1 {
				r.Sample(map[string]any{"case": id, "order": strings.Fields(short(order))})
			}
			check(r, id, st, root, order, fileOps)
		}
	}
	ns := []int{3, 8, 13}
	if vp.Thorough() {
		ns = nil
		for n := 1; n <= 20; n++ {
			ns = append(ns, n)
		}
	}
	for _, layout := range []string{"balanced", "trickle"} {
		for _, n := range ns {
			bx := vp.NewBoxo()
			bn, err := bx.ImportFile(vp.Content(n*4-1, int64(8000+n)), "size-4", layout, 2, false, 1)
			if err != nil {
				t.Fatal(err)
			}
			st, _ := bx.Store()
			root := cidlink.Link{Cid: bn.Cid()}
			_, _, order, err := st.FileSpans(root)
			if err != nil {
				t.Fatal(err)
			}
			check(r, fmt.Sprintf("file:boxo-%s,n=%d", layout, n), st, root, order, fileOps)
		}
	}

	handBuilt(t, r)

	builder.DefaultLinksPerBlock = 2
	rng := vp.Rng(20)
	names := vp.Dedup(append(append(vp.Colliding(4, 21, rng), vp.Colliding(3, 12, rng)...), vp.Names(vp.Pick(150, 2000), rng)...))
	for _, fanout := range vp.Pick([]int{8, 32, 256, 1024}, []int{8, 16, 32, 64, 128, 256, 512, 1024}) {
		st := vp.NewStore()
		ls := st.LS()
		fl, fsz, err := builder.BuildUnixFSFile(bytes.NewReader(vp.Content(11, 1)), "size-4", ls)
		if err != nil {
			t.Fatal(err)
		}
		var ents []dagpb.PBLink
		for _, n := range names {
			e, _ := builder.BuildUnixFSDirectoryEntry(n, int64(fsz), fl)
			ents = append(ents, e)
		}
		hl, hsz, err := builder.BuildUnixFSShardedDirectory(fanout, 0x22, ents, ls)
		if err != nil {
			t.Fatal(err)
		}
		info, err := st.WalkHamt(hl)
		if err != nil {
			t.Fatal(err)
		}
		id := fmt.Sprintf("hamt:fanout=%d,entries=%d", fanout, len(names))
		r.Sample(map[string]any{"case": id, "shards": len(info.Shards)})
		check(r, id, st, hl, info.Shards, dirOps)

		he, _ := builder.BuildUnixFSDirectoryEntry("h", int64(hsz), hl)
		rootl, _, err := builder.BuildUnixFSDirectory([]dagpb.PBLink{he}, ls)
		if err != nil {
			t.Fatal(err)
		}
		for i, name := range names {
			if i%vp.Pick(5, 1) != 0 {
				continue
			}
			path, err := st.HamtPath(hl, name)
			if err != nil {
				t.Fatal(err)
			}
			want := append(append([]string{rootl.String(), hl.String()}, path...), fl.String())
			check(r, fmt.Sprintf("path:fanout=%d,h/%q", fanout, name), st, rootl, want, []op{{"walk", func(ls *ipld.LinkSystem, rn datamodel.Node) error {
				sel, err := selector.CompileSelector(unixfsnode.UnixFSPathSelector("h/" + name))
				if err != nil {
					return err
				}
				matched := 0
				prog := traversal.Progress{Cfg: &traversal.Config{LinkSystem: *ls, LinkTargetNodePrototypeChooser: vp.Chooser}}
				if err := prog.WalkMatching(rn, sel, func(traversal.Progress, datamodel.Node) error { matched++; return nil }); err != nil {
					return err
				}
				if matched != 1 {
					return fmt.Errorf("%d matches", matched)
				}
				return nil
			}}})
		}
	}
}
