// Hand-built file DAGs whose interior nodes have dag-pb (protobuf, non-raw) children; the notation
// and the builder live in replay/handdag (shared with c06).
//
// Two groups of shapes, under case names that cannot be confused:
//
//	file:hand=<shape>[,v0],<op>            handdag.Shapes + random shapes: no leading-empty child
//	                                       anywhere. Empty leaves only appear after at least one
//	                                       content byte of the same parent.
//	file:leading-empty=<shape>[,v0],<op>   handdag.LeadingEmptyShapes: some child is empty and so are
//	                                       all siblings before it. A sequential read from offset 0
//	                                       skips (never requests) children that end at or before the
//	                                       read offset, so on the library as it stands such a child
//	                                       (and what lies beneath it) is never requested although the
//	                                       depth-first walk contains it: a recorded known finding.
//
// A file:leading-empty= case fails for exactly one reason: a leading-empty block was never
// requested. Whatever else is wrong with the request order of such a shape (some other block missing,
// extra, out of order, a leading-empty block requested at the wrong place, the operation failing)
// is reported under file:hand=<shape>... like for any other shape.
package c20

import (
	"fmt"
	"io"
	"math/rand"
	"strings"
	"testing"

	"github.com/ipfs/go-unixfsnode"
	"github.com/ipfs/go-unixfsnode/file"
	"github.com/ipld/go-ipld-prime"
	"github.com/ipld/go-ipld-prime/datamodel"
	cidlink "github.com/ipld/go-ipld-prime/linking/cid"

	"replay/handdag"
	"replay/vp"
)

// randomShape draws an interior node of the given depth; an empty leaf is only drawn once the
// parent already holds content.
func randomShape(rng *rand.Rand, depth int) string {
	var sb strings.Builder
	sb.WriteByte('[')
	width := 2 + rng.Intn(3)
	content := false
	for i := 0; i < width; i++ {
		if i > 0 {
			sb.WriteByte(',')
		}
		switch x := rng.Intn(10); {
		case depth > 1 && x < 3:
			sb.WriteString(randomShape(rng, depth-1))
			content = true
		case content && x < 7:
			sb.WriteByte("eezs"[rng.Intn(4)])
		case x == 9:
			sb.WriteByte('R')
			content = true
		default:
			sb.WriteByte('P')
			content = true
		}
	}
	sb.WriteByte(']')
	return sb.String()
}

// readAll is the plain full sequential read: NewUnixFSFile -> AsLargeBytes -> io.ReadAll.
var readAll = op{"readall", func(ls *ipld.LinkSystem, n datamodel.Node) error {
	f, err := file.NewUnixFSFile(ctx.Ctx, n, ls)
	if err != nil {
		return err
	}
	rd, err := f.AsLargeBytes()
	if err != nil {
		return err
	}
	_, err = io.ReadAll(rd)
	return err
}}

// buildHand stores a shape and cross-checks it with the independent walker.
func buildHand(t *testing.T, id, notation string, pb cidlink.LinkPrototype, salt int64) (*vp.Store, *handdag.DAG, []string) {
	st := vp.NewStore()
	dag, err := handdag.Build(st, notation, pb, salt)
	if err != nil {
		t.Fatalf("%s: build: %v", id, err)
	}
	content, _, order, err := st.FileSpans(dag.Root)
	if err != nil {
		t.Fatalf("%s: walk: %v", id, err)
	}
	// the independent walker must agree with what was meant to be written
	if string(content) != string(dag.Content) || uint64(len(content)) != dag.Bytes {
		t.Fatalf("%s: harness bug: stored DAG holds %d bytes, shape dictates %d", id, len(content), len(dag.Content))
	}
	if len(order) != len(dag.Blocks) {
		t.Fatalf("%s: harness bug: walker finds %d blocks, builder stored %d", id, len(order), len(dag.Blocks))
	}
	for i, b := range dag.Blocks {
		if order[i] != b.Link {
			t.Fatalf("%s: harness bug: walker and builder disagree on block %d", id, i)
		}
	}
	return st, dag, order
}

// handBuilt runs every file operation over the fixed shapes (CIDv1 and CIDv0 dag-pb links) and
// over 60 | 2000 random shapes of depth <= 3, then over the leading-empty shapes.
func handBuilt(t *testing.T, r *vp.Run) {
	ops := append([]op{readAll}, fileOps...)
	sampled := false
	run := func(id, notation string, pb cidlink.LinkPrototype, salt int64) {
		st, dag, order := buildHand(t, id, notation, pb, salt)
		if len(dag.LeadingEmpty()) != 0 {
			t.Fatalf("%s: harness bug: shape with a leading-empty child in the file:hand= group", id)
		}
		if !sampled && strings.Contains(notation, "e") {
			sampled = true
			r.Sample(map[string]any{"case": id, "order": strings.Fields(short(order))})
		}
		check(r, id, st, dag.Root, order, ops)
	}
	for i, s := range handdag.Shapes {
		run("file:hand="+s, s, vp.V1, int64(i))
		run("file:hand="+s+",v0", s, handdag.V0, int64(i))
	}
	rng := vp.Rng(2020)
	seen := map[string]bool{}
	for _, s := range handdag.Shapes {
		seen[s] = true
	}
	for i, n := 0, vp.Pick(60, 2000); i < n; i++ {
		s := randomShape(rng, 1+rng.Intn(3))
		if seen[s] {
			continue
		}
		seen[s] = true
		run("file:hand="+s, s, vp.V1, int64(1000+i))
	}

	runLE := func(suffix, notation string, pb cidlink.LinkPrototype, salt int64) {
		name := notation + suffix
		st, dag, order := buildHand(t, "file:leading-empty="+name, notation, pb, salt)
		le := dag.LeadingEmpty()
		if len(le) == 0 || strings.Contains(notation, "s") {
			t.Fatalf("file:leading-empty=%s: harness bug: the shape has no leading-empty child (or shares blocks)", name)
		}
		checkLeadingEmpty(r, name, st, dag, order, ops)
	}
	for i, s := range handdag.LeadingEmptyShapes {
		runLE("", s, vp.V1, int64(5000+i))
	}
	for i, s := range handdag.LeadingEmptyShapesV0 {
		runLE(",v0", s, handdag.V0, int64(5100+i))
	}
}

// checkLeadingEmpty is check for a shape with leading-empty children. With U = the leading-empty
// blocks that the operation never requested:
//
//	file:leading-empty=<name>,<op>  fails iff U is not empty (the known finding, nothing else);
//	file:hand=<name>,<op>           fails iff the first requests differ from the depth-first order
//	                                with U taken out (any other block missing, extra or out of order,
//	                                a leading-empty block requested at the wrong place), or the
//	                                operation / the root load fails.
//
// Both can fail for the same operation; neither hides the other. As in check, the first failing
// run of each case is the one reported.
func checkLeadingEmpty(r *vp.Run, name string, st *vp.Store, dag *handdag.DAG, want []string, ops []op) {
	le := dag.LeadingEmpty()
	for _, o := range ops {
		leID := "file:leading-empty=" + name + "," + o.name
		handID := "file:hand=" + name + "," + o.name
		leOK, handOK := true, true
		for rep := 0; rep < 3 && (leOK || handOK); rep++ {
			r.Eval(fmt.Sprintf("%s,rep=%d", leID, rep))
			completed := false
			r.Guard(handID, func() {
				ls := st.LS()
				unixfsnode.AddUnixFSReificationToLinkSystem(ls)
				st.ResetLog()
				rn, err := vp.Load(ls, dag.Root)
				if err != nil {
					if handOK {
						r.Fail(handID, "load: %v", err)
					}
					return
				}
				if err := o.run(ls, rn); err != nil {
					if handOK {
						r.Fail(handID, "operation failed: %v", err)
					}
					return
				}
				got := st.FirstReads()
				requested := map[string]bool{}
				for _, l := range got {
					requested[l] = true
				}
				unreq := map[string]bool{}
				var rest []string
				for _, l := range want {
					if _, isLE := le[l]; isLE && !requested[l] {
						unreq[l] = true
						continue
					}
					rest = append(rest, l)
				}
				if handOK && strings.Join(got, " ") != strings.Join(rest, " ") {
					handOK = false
					r.Fail(handID, "run %d: first requests [%s], depth-first link order (never-requested leading empty children %s left out) is [%s]",
						rep, short(got), orNone(dag.Labels(unreq)), short(rest))
				}
				if leOK && len(unreq) > 0 {
					leOK = false
					r.Fail(leID, "run %d: leading empty child block(s) %s never requested: first requests [%s], depth-first link order is [%s]",
						rep, dag.Labels(unreq), short(got), short(want))
				}
				completed = true
			})
			if !completed {
				break // load / operation failure or panic, reported under handID
			}
		}
	}
}

func orNone(s string) string {
	if s == "" {
		return "(none)"
	}
	return "{" + s + "}"
}
