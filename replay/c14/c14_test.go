// C14 bounded stand-in: reification is total and classifies nodes as the statement says.
//
// Bounds (same in both tiers unless noted): hand-written dag-pb blocks (protowire + gogo
// unixfs_pb, decoded with go-codec-dagpb) over
//
//	link lists: none, one named, three named (unicode / spaces), unnamed links;
//	Data: absent; garbage (bad wire types, truncated varint, random bytes x 20 | 2000 draws);
//	  every UnixFS type 0..5 with and without inline bytes; unknown type numbers {6,7,100,2^31-1};
//	  HAMT parameter grid: fanout {absent,0,3,7,12,1000,2048,4096,2^40,8,16,256,1024} x hashType
//	  {absent,0x22,0x12,0} x bitfield {absent, exact, one byte too long, empty};
//	non-dag-pb nodes of every kind (string, int, bytes, list, map, link, null, bool, float).
//
// Each through unixfsnode.Reify and the "unixfs-preload" reifier, both on the decoded node.
// Expectations: non-dag-pb -> same node back; no/garbage Data, Symlink, Metadata -> map kind, every
// named link found by name; File/Raw -> bytes kind; Directory/valid HAMT -> map kind; unknown type
// or invalid HAMT parameters -> error; Substrate() of every result is the input node (identical,
// or encoding to identical bytes).
package c14

import (
	"bytes"
	"context"
	"fmt"
	"reflect"
	"testing"

	gproto "github.com/gogo/protobuf/proto"
	pb "github.com/ipfs/boxo/ipld/unixfs/pb"
	"github.com/ipfs/go-cid"
	"github.com/ipfs/go-unixfsnode"
	dagpb "github.com/ipld/go-codec-dagpb"
	"github.com/ipld/go-ipld-prime"
	"github.com/ipld/go-ipld-prime/adl"
	"github.com/ipld/go-ipld-prime/datamodel"
	"github.com/ipld/go-ipld-prime/fluent/qp"
	cidlink "github.com/ipld/go-ipld-prime/linking/cid"
	"github.com/ipld/go-ipld-prime/node/basicnode"
	"google.golang.org/protobuf/encoding/protowire"

	"replay/vp"
)

type lnk struct {
	name  string
	named bool
	c     cid.Cid
}

func mkPB(links []lnk, data []byte, hasData bool) []byte {
	var out []byte
	for _, l := range links {
		var lb []byte
		lb = protowire.AppendBytes(protowire.AppendTag(lb, 1, protowire.BytesType), l.c.Bytes())
		if l.named {
			lb = protowire.AppendBytes(protowire.AppendTag(lb, 2, protowire.BytesType), []byte(l.name))
		}
		lb = protowire.AppendVarint(protowire.AppendTag(lb, 3, protowire.VarintType), 7)
		out = protowire.AppendBytes(protowire.AppendTag(out, 2, protowire.BytesType), lb)
	}
	if hasData {
		out = protowire.AppendBytes(protowire.AppendTag(out, 1, protowire.BytesType), data)
	}
	return out
}

type expect int

const (
	linkMap expect = iota
	bytesKind
	mapKind
	isError
)

func (e expect) String() string {
	return [...]string{"link map", "bytes-kind file", "map-kind directory", "error"}[e]
}

func u64(v uint64) *uint64 { return &v }

func TestBounded(t *testing.T) {
	r := vp.New(t)
	defer r.Done()
	st := vp.NewStore()
	ls := st.LS()
	unixfsnode.AddUnixFSReificationToLinkSystem(ls)
	reifiers := map[string]ipld.NodeReifier{"reify": unixfsnode.Reify, "preload": ls.KnownReifiers["unixfs-preload"]}
	ctx := ipld.LinkContext{Ctx: context.Background()}

	// targets exist so that the preloading view can fetch what it wants
	leaf, err := ls.Store(ctx, vp.V1Raw, basicnode.NewBytes([]byte("leaf")))
	if err != nil {
		t.Fatal(err)
	}
	lc := leaf.(cidlink.Link).Cid
	linkSets := map[string][]lnk{
		"nolinks": nil,
		"one":     {{"a", true, lc}},
		"three":   {{"b c", true, lc}, {"é", true, lc}, {"世界", true, lc}},
		"unnamed": {{"", false, lc}, {"", false, lc}},
	}

	check := func(id string, block []byte, links []lnk, want expect) {
		nb := dagpb.Type.PBNode.NewBuilder()
		if err := dagpb.DecodeBytes(nb, block); err != nil {
			t.Fatalf("%s: harness: dag-pb decode of %x: %v", id, block, err)
		}
		in := nb.Build()
		for rname, reify := range reifiers {
			cid := id + "," + rname
			r.Eval(cid)
			r.Guard(cid, func() {
				out, err := reify(ctx, in, ls)
				if want == isError {
					if err == nil {
						r.Fail(cid, "block %x: no error, got %T kind %v", block, out, out.Kind())
					}
					return
				}
				if err != nil {
					r.Fail(cid, "block %x: error %v, want %v", block, err, want)
					return
				}
				wantKind := datamodel.Kind_Map
				if want == bytesKind {
					wantKind = datamodel.Kind_Bytes
				}
				if out.Kind() != wantKind {
					r.Fail(cid, "block %x: kind %v, want %v", block, out.Kind(), want)
					return
				}
				if want == linkMap {
					for _, l := range links {
						if !l.named {
							continue
						}
						v, err := out.LookupByString(l.name)
						if err != nil {
							r.Fail(cid, "link %q not addressable by name: %v", l.name, err)
							continue
						}
						if got, err := v.AsLink(); err != nil || got.String() != (cidlink.Link{Cid: l.c}).String() {
							r.Fail(cid, "link %q resolves to %v (%v)", l.name, got, err)
						}
					}
					if _, err := out.LookupByString("no such name"); err == nil {
						r.Fail(cid, "absent name found")
					}
				}
				a, ok := out.(adl.ADL)
				if !ok {
					r.Fail(cid, "%T does not expose a substrate", out)
					return
				}
				sub := a.Substrate()
				if sub == nil {
					r.Fail(cid, "Substrate() is nil")
					return
				}
				if reflect.TypeOf(sub) == reflect.TypeOf(in) && sub == in {
					return
				}
				var buf bytes.Buffer
				if err := dagpb.Encode(sub, &buf); err != nil || !bytes.Equal(buf.Bytes(), block) {
					r.Fail(cid, "Substrate() is a %T (kind %v) that encodes to %x (err=%v), original block is %x", sub, sub.Kind(), buf.Bytes(), err, block)
				}
			})
		}
	}

	rng := vp.Rng(14)
	garbage := [][]byte{{0xff, 0xff}, {0x08}, {0x0a, 0x05, 0x01}, {0x08, 0x80}, {0x0d, 1, 2, 3, 4}, {}}
	for i := 0; i < vp.Pick(20, 2000); i++ {
		g := make([]byte, 1+rng.Intn(6))
		rng.Read(g)
		var probe pb.Data
		if gproto.Unmarshal(g, &probe) == nil {
			continue // happens to be a UnixFS message
		}
		garbage = append(garbage, g)
	}
	for lname, links := range linkSets {
		check("nodata:"+lname, mkPB(links, nil, false), links, linkMap)
		for _, g := range garbage {
			// the empty message lacks the required Type: undecodable for the reference, and a
			// typeless node has no UnixFS interpretation; only the byte strings gogo rejects are used
			var probe pb.Data
			if gproto.Unmarshal(g, &probe) == nil {
				continue
			}
			check(fmt.Sprintf("garbage:%s,%x", lname, g), mkPB(links, g, true), links, linkMap)
		}
		for typ := int32(0); typ <= 5; typ++ {
			for _, inline := range []bool{false, true} {
				ty := pb.Data_DataType(typ)
				m := &pb.Data{Type: &ty}
				if inline {
					m.Data = []byte("inline")
				}
				if typ == int32(pb.Data_File) && len(links) > 0 {
					m.Filesize = u64(uint64(4 * len(links)))
					for range links {
						m.Blocksizes = append(m.Blocksizes, 4)
					}
				}
				want := linkMap
				switch ty {
				case pb.Data_File, pb.Data_Raw:
					want = bytesKind
				case pb.Data_Directory:
					want = mapKind
				case pb.Data_HAMTShard:
					continue // parameter grid below
				}
				enc, _ := gproto.Marshal(m)
				check(fmt.Sprintf("type%d:%s,inline=%v", typ, lname, inline), mkPB(links, enc, true), links, want)
			}
		}
		for _, typ := range []uint64{6, 7, 100, 1<<31 - 1} {
			enc := protowire.AppendVarint(protowire.AppendTag(nil, 1, protowire.VarintType), typ)
			check(fmt.Sprintf("unknowntype:%s,%d", lname, typ), mkPB(links, enc, true), links, isError)
		}
	}

	// HAMT parameter grid (links must carry prefixes, so only the empty list and prefixed lists)
	fanouts := []*uint64{nil, u64(0), u64(3), u64(7), u64(12), u64(1000), u64(2048), u64(4096), u64(1 << 40), u64(8), u64(16), u64(256), u64(1024)}
	hashes := []*uint64{nil, u64(0x22), u64(0x12), u64(0)}
	for _, fo := range fanouts {
		for _, ht := range hashes {
			for _, bf := range []string{"absent", "exact", "long", "empty"} {
				ty := pb.Data_HAMTShard
				m := &pb.Data{Type: &ty, Fanout: fo, HashType: ht}
				valid := fo != nil && (*fo == 8 || *fo == 16 || *fo == 256 || *fo == 1024) && ht != nil && *ht == 0x22
				width := 1
				if fo != nil && *fo >= 8 && *fo <= 4096 {
					width = int(*fo / 8)
				}
				switch bf {
				case "absent":
					valid = false
				case "exact":
					m.Data = make([]byte, width)
				case "long":
					m.Data = make([]byte, width+1)
					valid = false
				case "empty":
					m.Data = []byte{} // an all-zero bitfield written without leading zero bytes
				}
				enc, _ := gproto.Marshal(m)
				if bf == "empty" {
					// gogo omits empty bytes; write the present-but-empty field by hand
					enc = append(protowire.AppendTag(nil, 1, protowire.VarintType), 5)
					enc = protowire.AppendBytes(protowire.AppendTag(enc, 2, protowire.BytesType), nil)
					if ht != nil {
						enc = protowire.AppendVarint(protowire.AppendTag(enc, 5, protowire.VarintType), *ht)
					}
					if fo != nil {
						enc = protowire.AppendVarint(protowire.AppendTag(enc, 6, protowire.VarintType), *fo)
					}
				}
				want := isError
				if valid {
					want = mapKind
				}
				f, h := "absent", "absent"
				if fo != nil {
					f = fmt.Sprint(*fo)
				}
				if ht != nil {
					h = fmt.Sprintf("%#x", *ht)
				}
				id := fmt.Sprintf("hamt:fanout=%s,hash=%s,bitfield=%s", f, h, bf)
				if valid {
					r.Sample(map[string]any{"case": id, "data": fmt.Sprintf("%x", enc), "want": want.String()})
				}
				check(id, mkPB(nil, enc, true), nil, want)
			}
		}
	}

	// non-dag-pb nodes come back unchanged
	m, _ := qp.BuildMap(basicnode.Prototype.Any, 1, func(ma datamodel.MapAssembler) {
		qp.MapEntry(ma, "Links", qp.List(0, func(datamodel.ListAssembler) {}))
	})
	l, _ := qp.BuildList(basicnode.Prototype.Any, 1, func(la datamodel.ListAssembler) { qp.ListEntry(la, qp.Int(1)) })
	others := map[string]datamodel.Node{
		"string": basicnode.NewString("x"), "int": basicnode.NewInt(5), "bytes": basicnode.NewBytes([]byte{1, 2}),
		"bool": basicnode.NewBool(true), "float": basicnode.NewFloat(1.5), "link": basicnode.NewLink(leaf),
		"null": datamodel.Null, "map": m, "list": l,
	}
	for name, in := range others {
		for rname, reify := range reifiers {
			cid := "other:" + name + "," + rname
			r.Eval(cid)
			r.Guard(cid, func() {
				out, err := reify(ctx, in, ls)
				if err != nil {
					r.Fail(cid, "error %v", err)
					return
				}
				if reflect.TypeOf(out) != reflect.TypeOf(in) || !datamodel.DeepEqual(out, in) {
					r.Fail(cid, "got %T kind %v, want the %T back", out, out.Kind(), in)
				}
			})
		}
	}
}
