// C05 bounded stand-in: the lazy view requests only the blocks an operation needs.
//
// Bounds (quick | thorough):
//
//	files: builder width W in {2,3} | {2,3,4}, "size-4", chunk counts 2..10 | 2..W^3+W, plus boxo
//	  balanced files with protobuf leaves (W=2, n in {5,9} | 2..16); EVERY range [a,b) with
//	  0 <= a < b <= len: fresh reader, Seek(a), ReadFull(b-a). Every requested block must have a
//	  content span intersecting [a,b) (ancestors do by construction); the bytes must be right.
//	HAMTs: fanouts {8,256} | {8,16,64,256,1024}; 300 | 2000 random names plus murmur3-colliding
//	  names; for every member and 50 non-members: cold reify, one lookup; every requested block
//	  must be a shard on the name's hash path.
//	paths: root(plain)/h(HAMT)/<name>(multi-block file) resolved with UnixFSPathSelector for every
//	  name: requests are a subset of {h, shards on the hash path, the file's root block}.
//
// Oracle: block spans / hash paths computed by vp's protowire walker over the stored blocks.
package c05

import (
	"bytes"
	"context"
	"fmt"
	"io"
	"testing"

	"github.com/ipfs/go-unixfsnode"
	"github.com/ipfs/go-unixfsnode/data/builder"
	"github.com/ipfs/go-unixfsnode/file"
	dagpb "github.com/ipld/go-codec-dagpb"
	"github.com/ipld/go-ipld-prime"
	"github.com/ipld/go-ipld-prime/datamodel"
	cidlink "github.com/ipld/go-ipld-prime/linking/cid"
	"github.com/ipld/go-ipld-prime/traversal"
	"github.com/ipld/go-ipld-prime/traversal/selector"

	"replay/vp"
)

var requests int // harness sanity: the request log must see traffic

func fileRanges(t *testing.T, r *vp.Run, id string, st *vp.Store, root datamodel.Link, want []byte) {
	content, spans, _, err := st.FileSpans(root)
	if err != nil || !bytes.Equal(content, want) {
		t.Fatalf("%s: harness: independent walk gives %d bytes err=%v, want %d", id, len(content), err, len(want))
	}
	ls := st.LS()
	rn, err := vp.Load(ls, root)
	if err != nil {
		t.Fatal(err)
	}
	r.Sample(map[string]any{"case": id, "len": len(want), "blocks": len(spans)})
	for a := 0; a < len(want); a++ {
		for b := a + 1; b <= len(want); b++ {
			cid := fmt.Sprintf("%s,[%d,%d)", id, a, b)
			r.Eval(cid)
			r.Guard(cid, func() {
				f, err := file.NewUnixFSFile(context.Background(), rn, ls)
				if err != nil {
					r.Fail(cid, "NewUnixFSFile: %v", err)
					return
				}
				st.ResetLog()
				rd, _ := f.AsLargeBytes()
				if _, err := rd.Seek(int64(a), io.SeekStart); err != nil {
					r.Fail(cid, "seek: %v", err)
					return
				}
				buf := make([]byte, b-a)
				if _, err := io.ReadFull(rd, buf); err != nil || !bytes.Equal(buf, want[a:b]) {
					r.Fail(cid, "read %x err=%v, want %x", buf, err, want[a:b])
				}
				requests += len(st.ReadLog())
				for _, l := range st.ReadLog() {
					s, ok := spans[l]
					if !ok {
						r.Fail(cid, "requested block %s which is not part of the file", vp.Short(l))
					} else if !(s.Lo < b && s.Hi > a) {
						r.Fail(cid, "requested block %s spanning [%d,%d)", vp.Short(l), s.Lo, s.Hi)
					}
				}
			})
		}
	}
}

func TestBounded(t *testing.T) {
	r := vp.New(t)
	defer r.Done()
	saved := builder.DefaultLinksPerBlock
	defer func() { builder.DefaultLinksPerBlock = saved }()

	for _, w := range vp.Pick([]int{2, 3}, []int{2, 3, 4}) {
		builder.DefaultLinksPerBlock = w
		for n := 2; n <= vp.Pick(10, w*w*w+w); n++ {
			want := vp.Content(n*4-1, int64(w*1000+n))
			st := vp.NewStore()
			root, _, err := builder.BuildUnixFSFile(bytes.NewReader(want), "size-4", st.LS())
			if err != nil {
				t.Fatal(err)
			}
			fileRanges(t, r, fmt.Sprintf("file:W=%d,n=%d", w, n), st, root, want)
		}
	}
	ns := []int{5, 9}
	if vp.Thorough() {
		ns = []int{2, 3, 4, 5, 6, 7, 8, 9, 10, 11, 12, 13, 14, 15, 16}
	}
	for _, n := range ns {
		want := vp.Content(n*4-1, int64(5000+n))
		bx := vp.NewBoxo()
		bn, err := bx.ImportFile(want, "size-4", "balanced", 2, false, 1)
		if err != nil {
			t.Fatal(err)
		}
		st, err := bx.Store()
		if err != nil {
			t.Fatal(err)
		}
		fileRanges(t, r, fmt.Sprintf("file:boxo-pbleaves,n=%d", n), st, cidlink.Link{Cid: bn.Cid()}, want)
	}

	if requests == 0 {
		t.Fatal("harness: no block request was logged for the file reads")
	}
	requests = 0
	// HAMT lookups
	rng := vp.Rng(5)
	names := vp.Names(vp.Pick(300, 2000), rng)
	names = vp.Dedup(append(names, append(vp.Colliding(4, 21, rng), vp.Colliding(3, 12, rng)...)...))
	nonMembers := []string{"", "0", "00", "nope"}
	in := map[string]bool{}
	for _, n := range names {
		in[n] = true
	}
	for _, n := range vp.Names(50, rng) {
		if !in[n] {
			nonMembers = append(nonMembers, n)
		}
	}
	builder.DefaultLinksPerBlock = 2
	for _, fanout := range vp.Pick([]int{8, 256}, []int{8, 16, 64, 256, 1024}) {
		st := vp.NewStore()
		ls := st.LS()
		fcontent := vp.Content(19, 77)
		fl, fsz, err := builder.BuildUnixFSFile(bytes.NewReader(fcontent), "size-4", ls)
		if err != nil {
			t.Fatal(err)
		}
		var ents []dagpb.PBLink
		for _, n := range names {
			e, _ := builder.BuildUnixFSDirectoryEntry(n, int64(fsz), fl)
			ents = append(ents, e)
		}
		hl, hsz, err := builder.BuildUnixFSShardedDirectory(fanout, 0x22, ents, ls)
		if err != nil {
			t.Fatal(err)
		}
		he, _ := builder.BuildUnixFSDirectoryEntry("h", int64(hsz), hl)
		rootl, _, err := builder.BuildUnixFSDirectory([]dagpb.PBLink{he}, ls)
		if err != nil {
			t.Fatal(err)
		}
		hn, err := vp.Load(ls, hl)
		if err != nil {
			t.Fatal(err)
		}
		info, err := st.WalkHamt(hl)
		if err != nil {
			t.Fatal(err)
		}
		r.Sample(map[string]any{"case": fmt.Sprintf("hamt:fanout=%d", fanout), "entries": len(names), "shards": len(info.Shards)})
		for _, name := range append(append([]string{}, names...), nonMembers...) {
			cid := fmt.Sprintf("hamt:fanout=%d,name=%q", fanout, name)
			r.Eval(cid)
			path, err := st.HamtPath(hl, name)
			if err != nil {
				t.Fatal(err)
			}
			allowed := map[string]bool{}
			for _, p := range path {
				allowed[p] = true
			}
			r.Guard(cid, func() {
				d, err := unixfsnode.Reify(ipld.LinkContext{}, hn, ls)
				if err != nil {
					r.Fail(cid, "Reify: %v", err)
					return
				}
				st.ResetLog()
				v, err := d.LookupByString(name)
				if in[name] {
					if err != nil {
						r.Fail(cid, "member lookup: %v", err)
					} else if l, _ := v.AsLink(); l == nil || l.String() != fl.String() {
						r.Fail(cid, "member lookup returned %v", l)
					}
				} else if err == nil {
					r.Fail(cid, "non-member found")
				}
				requests += len(st.ReadLog())
				for _, l := range st.ReadLog() {
					if !allowed[l] {
						r.Fail(cid, "requested %s, not on the hash path (path has %d shards)", vp.Short(l), len(path))
					}
				}
			})
		}

		// path resolution
		unixfsnode.AddUnixFSReificationToLinkSystem(ls)
		rn, err := ls.Load(ipld.LinkContext{}, rootl, dagpb.Type.PBNode)
		if err != nil {
			t.Fatal(err)
		}
		for i, name := range names {
			if i%vp.Pick(7, 1) != 0 {
				continue
			}
			cid := fmt.Sprintf("path:fanout=%d,h/%q", fanout, name)
			r.Eval(cid)
			path, _ := st.HamtPath(hl, name)
			allowed := map[string]bool{hl.String(): true, fl.String(): true}
			for _, p := range path {
				allowed[p] = true
			}
			r.Guard(cid, func() {
				sel, err := selector.CompileSelector(unixfsnode.UnixFSPathSelector("h/" + name))
				if err != nil {
					t.Fatal(err)
				}
				st.ResetLog()
				matched := 0
				prog := traversal.Progress{Cfg: &traversal.Config{LinkSystem: *ls, LinkTargetNodePrototypeChooser: vp.Chooser}}
				err = prog.WalkMatching(rn, sel, func(p traversal.Progress, n datamodel.Node) error { matched++; return nil })
				if err != nil || matched != 1 {
					r.Fail(cid, "walk: matched=%d err=%v", matched, err)
				}
				for _, l := range st.ReadLog() {
					if !allowed[l] {
						r.Fail(cid, "requested %s, not on the path", vp.Short(l))
					}
				}
			})
		}
	}
	if requests == 0 {
		t.Fatal("harness: no block request was logged for the HAMT lookups")
	}
}
