package c12

// File nodes that declare neither FileSize nor block sizes: the reader has to open the children to
// learn their sizes (seek relative to the end, or skipping to an offset). A child that cannot be
// loaded must then surface as the store's error, never as a wrong position or as wrong bytes.

import (
	"context"
	"errors"
	"fmt"
	"io"
	"testing"

	"github.com/ipfs/go-cid"
	"github.com/ipfs/go-unixfsnode/data"
	"github.com/ipfs/go-unixfsnode/data/builder"
	"github.com/ipfs/go-unixfsnode/file"
	dagpb "github.com/ipld/go-codec-dagpb"
	"github.com/ipld/go-ipld-prime/datamodel"
	"github.com/ipld/go-ipld-prime/fluent/qp"
	"github.com/ipld/go-ipld-prime/linking"
	cidlink "github.com/ipld/go-ipld-prime/linking/cid"
	mh "github.com/multiformats/go-multihash"

	"replay/vp"
)

var undeclPB = cidlink.LinkPrototype{Prefix: cid.Prefix{Version: 1, Codec: cid.DagProtobuf, MhType: mh.SHA2_256, MhLength: 32}}

func undeclLeaf(t *testing.T, st *vp.Store, content []byte) (datamodel.Link, uint64) {
	ufd, err := builder.BuildUnixFS(func(b *builder.Builder) {
		builder.DataType(b, data.Data_File)
		builder.Data(b, content)
		builder.FileSize(b, uint64(len(content)))
	})
	if err != nil {
		t.Fatal(err)
	}
	n, err := qp.BuildMap(dagpb.Type.PBNode, 2, func(ma datamodel.MapAssembler) {
		qp.MapEntry(ma, "Data", qp.Bytes(data.EncodeUnixFSData(ufd)))
		qp.MapEntry(ma, "Links", qp.List(0, func(la datamodel.ListAssembler) {}))
	})
	if err != nil {
		t.Fatal(err)
	}
	l, err := st.LS().Store(linking.LinkContext{}, undeclPB, n)
	if err != nil {
		t.Fatal(err)
	}
	return l, uint64(len(content)) + 16
}

// undeclRoot links the leaves from a File node without FileSize and without block sizes.
func undeclRoot(t *testing.T, leaves []datamodel.Link, tsizes []uint64) datamodel.Node {
	ufd, err := builder.BuildUnixFS(func(b *builder.Builder) { builder.DataType(b, data.Data_File) })
	if err != nil {
		t.Fatal(err)
	}
	root, err := qp.BuildMap(dagpb.Type.PBNode, 2, func(ma datamodel.MapAssembler) {
		qp.MapEntry(ma, "Data", qp.Bytes(data.EncodeUnixFSData(ufd)))
		qp.MapEntry(ma, "Links", qp.List(int64(len(leaves)), func(la datamodel.ListAssembler) {
			for i, l := range leaves {
				qp.ListEntry(la, qp.Map(3, func(ma datamodel.MapAssembler) {
					qp.MapEntry(ma, "Hash", qp.Link(l))
					qp.MapEntry(ma, "Name", qp.String(""))
					qp.MapEntry(ma, "Tsize", qp.Int(int64(tsizes[i])))
				}))
			}
		}))
	})
	if err != nil {
		t.Fatal(err)
	}
	return root
}

func undeclaredSizes(t *testing.T, r *vp.Run) {
	for _, sizes := range [][]int{{10, 20}, {10, 20, 30}, {5, 1, 7, 3}} {
		st := vp.NewStore()
		var leaves []datamodel.Link
		var tsz []uint64
		var content []byte
		var starts []int
		for i, n := range sizes {
			c := vp.Content(n, int64(100+i))
			starts = append(starts, len(content))
			content = append(content, c...)
			l, ts := undeclLeaf(t, st, c)
			leaves = append(leaves, l)
			tsz = append(tsz, ts)
		}
		root := undeclRoot(t, leaves, tsz)
		total := int64(len(content))
		for miss := range leaves {
			for _, off := range []int64{0, -1, -total} {
				id := fmt.Sprintf("undeclared:sizes=%v,missing=%d,seekend%+d", sizes, miss, off)
				r.Eval(id)
				r.Guard(id, func() {
					st.Missing[leaves[miss].String()] = true
					defer delete(st.Missing, leaves[miss].String())
					f, err := file.NewUnixFSFile(context.Background(), root, st.LS())
					if err != nil {
						r.Fail(id, "NewUnixFSFile: %v", err)
						return
					}
					rs, err := f.AsLargeBytes()
					if err != nil {
						r.Fail(id, "AsLargeBytes: %v", err)
						return
					}
					pos, err := rs.Seek(off, io.SeekEnd)
					if err == nil {
						r.Fail(id, "Seek(%d, SeekEnd) = (%d, nil) although child %d, which has to be measured, is unavailable (true end is %d)", off, pos, miss, total)
						return
					}
					if !errors.Is(err, vp.ErrGone) {
						r.Fail(id, "Seek(%d, SeekEnd): error %q is not the store's error", off, err)
					}
				})
			}
			// reading from an offset inside a later child: children before it are measured
			for k := miss + 1; k < len(leaves); k++ {
				id := fmt.Sprintf("undeclared:sizes=%v,missing=%d,seekstart=%d+read", sizes, miss, starts[k])
				r.Eval(id)
				r.Guard(id, func() {
					st.Missing[leaves[miss].String()] = true
					defer delete(st.Missing, leaves[miss].String())
					f, err := file.NewUnixFSFile(context.Background(), root, st.LS())
					if err != nil {
						r.Fail(id, "NewUnixFSFile: %v", err)
						return
					}
					rs, err := f.AsLargeBytes()
					if err != nil {
						r.Fail(id, "AsLargeBytes: %v", err)
						return
					}
					if _, err := rs.Seek(int64(starts[k]), io.SeekStart); err != nil {
						return // an error is an acceptable answer
					}
					got, err := io.ReadAll(rs)
					if err == nil {
						r.Fail(id, "read from %d returned %d bytes and no error although child %d before it cannot be measured", starts[k], len(got), miss)
					} else if !errors.Is(err, vp.ErrGone) {
						r.Fail(id, "read from %d: error %q is not the store's error", starts[k], err)
					}
				})
			}
		}
	}
}
