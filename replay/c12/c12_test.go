// C12 bounded stand-in: operations that need an unavailable block report the load error.
//
// Bounds (quick | thorough):
//
//	files: builder width W in {2,3} | {2,3,4}, size-4, chunk counts 2..10 | 2..W^3+W, and boxo
//	  balanced/trickle files with protobuf leaves (n in {3,8}); EVERY single non-root block made
//	  unavailable; sequential reads with buffer sizes {1,3,64}: the bytes delivered must be exactly
//	  content[:lo] (lo = start of the missing block's span) followed by an error that is the
//	  store's error (errors.Is) and never io.EOF.
//	HAMTs: fanouts {8,16} | {8,16,64,256}; 150 | 1500 random + colliding names; EVERY single
//	  non-root shard unavailable, plus 30 | 300 random pairs of unavailable shards:
//	  lookups of every member and 30 non-members: if the name's hash path crosses an unavailable
//	  shard -> the store's error (not not-found); otherwise the normal answer;
//	  iteration: terminates within entries+shards+5 steps, yields every entry not beneath an
//	  unavailable shard exactly once (right link) and as many errors as there are outermost
//	  unavailable shards.
//
//	files without declared sizes (hand-built root without FileSize and block sizes, 2..4 dag-pb
//	  leaves): every single leaf unavailable; Seek relative to the end, and Seek into a later
//	  child + ReadAll, must report the store's error (case ids "undeclared:...").
//
//	hand-built files with empty children (hand_test.go: shapes such as [P,e,P], [e,P], [P,[P,e]],
//	  [R,r,R]; 28 | 60 shapes): every single non-root block unavailable, the empty ones included;
//	  reads with buffer sizes {1,3,64} and AsBytes deliver the bytes before the missing block's
//	  position and then the store's error (case ids "hand:<shape>,missing=<pos>,buf=<n>|asbytes").
//
// Oracle: spans / shard membership / hash paths from vp's protowire walker.
package c12

import (
	"bytes"
	"context"
	"errors"
	"fmt"
	"io"
	"testing"

	"github.com/ipfs/go-unixfsnode"
	"github.com/ipfs/go-unixfsnode/data/builder"
	"github.com/ipfs/go-unixfsnode/file"
	dagpb "github.com/ipld/go-codec-dagpb"
	"github.com/ipld/go-ipld-prime"
	"github.com/ipld/go-ipld-prime/datamodel"
	cidlink "github.com/ipld/go-ipld-prime/linking/cid"

	"replay/vp"
)

func fileCase(t *testing.T, r *vp.Run, id string, st *vp.Store, root datamodel.Link, want []byte) {
	content, spans, order, err := st.FileSpans(root)
	if err != nil || !bytes.Equal(content, want) {
		t.Fatalf("%s: harness: walk gives %d bytes, err=%v", id, len(content), err)
	}
	ls := st.LS()
	rn, err := vp.Load(ls, root)
	if err != nil {
		t.Fatal(err)
	}
	for _, miss := range order[1:] {
		lo := spans[miss].Lo
		for _, bs := range []int{1, 3, 64} {
			cid := fmt.Sprintf("%s,missing=[%d,%d),buf=%d", id, lo, spans[miss].Hi, bs)
			r.Eval(cid)
			r.Guard(cid, func() {
				st.Missing[miss] = true
				defer delete(st.Missing, miss)
				f, err := file.NewUnixFSFile(context.Background(), rn, ls)
				if err != nil {
					r.Fail(cid, "NewUnixFSFile: %v", err)
					return
				}
				rd, err := f.AsLargeBytes()
				if err != nil {
					r.Fail(cid, "AsLargeBytes: %v", err)
					return
				}
				var got []byte
				var rerr error
				buf := make([]byte, bs)
				for steps := 0; steps < 4*len(want)+8 && rerr == nil; steps++ {
					var n int
					n, rerr = rd.Read(buf)
					got = append(got, buf[:n]...)
				}
				if !bytes.Equal(got, want[:lo]) {
					r.Fail(cid, "delivered %d bytes %x before failing, the %d bytes before the missing block are %x (err=%v)", len(got), got, lo, want[:lo], rerr)
				}
				if rerr == nil || rerr == io.EOF {
					r.Fail(cid, "read ended with %v instead of the load error", rerr)
				} else if !errors.Is(rerr, vp.ErrGone) {
					r.Fail(cid, "read failed with %q which is not the store's error", rerr)
				}
			})
		}
	}
}

func TestBounded(t *testing.T) {
	r := vp.New(t)
	defer r.Done()
	saved := builder.DefaultLinksPerBlock
	defer func() { builder.DefaultLinksPerBlock = saved }()

	for _, w := range vp.Pick([]int{2, 3}, []int{2, 3, 4}) {
		builder.DefaultLinksPerBlock = w
		for n := 2; n <= vp.Pick(10, w*w*w+w); n++ {
			want := vp.Content(n*4-1, int64(w*1000+n))
			st := vp.NewStore()
			root, _, err := builder.BuildUnixFSFile(bytes.NewReader(want), "size-4", st.LS())
			if err != nil {
				t.Fatal(err)
			}
			fileCase(t, r, fmt.Sprintf("file:W=%d,n=%d", w, n), st, root, want)
		}
	}
	undeclaredSizes(t, r)
	handBuilt(t, r)
	for _, layout := range []string{"balanced", "trickle"} {
		for _, n := range []int{3, 8} {
			want := vp.Content(n*4-1, int64(7000+n))
			bx := vp.NewBoxo()
			bn, err := bx.ImportFile(want, "size-4", layout, 2, false, 1)
			if err != nil {
				t.Fatal(err)
			}
			st, _ := bx.Store()
			fileCase(t, r, fmt.Sprintf("file:boxo-%s,n=%d", layout, n), st, cidlink.Link{Cid: bn.Cid()}, want)
		}
	}

	rng := vp.Rng(12)
	names := vp.Dedup(append(vp.Names(vp.Pick(150, 1500), rng), append(vp.Colliding(4, 21, rng), vp.Colliding(3, 12, rng)...)...))
	in := map[string]bool{}
	for _, n := range names {
		in[n] = true
	}
	var probes []string
	probes = append(probes, names...)
	for _, n := range vp.Names(30, rng) {
		if !in[n] {
			probes = append(probes, n)
		}
	}
	for _, fanout := range vp.Pick([]int{8, 16}, []int{8, 16, 64, 256}) {
		st := vp.NewStore()
		ls := st.LS()
		want := map[string]string{}
		var ents []dagpb.PBLink
		for i, n := range names {
			c, _ := vp.V1Raw.Prefix.Sum([]byte(n))
			e, _ := builder.BuildUnixFSDirectoryEntry(n, int64(i), cidlink.Link{Cid: c})
			ents = append(ents, e)
			want[n] = cidlink.Link{Cid: c}.String()
		}
		hl, _, err := builder.BuildUnixFSShardedDirectory(fanout, 0x22, ents, ls)
		if err != nil {
			t.Fatal(err)
		}
		info, err := st.WalkHamt(hl)
		if err != nil {
			t.Fatal(err)
		}
		rn, err := vp.Load(ls, hl)
		if err != nil {
			t.Fatal(err)
		}
		shards := info.Shards[1:]
		r.Sample(map[string]any{"case": fmt.Sprintf("hamt:fanout=%d", fanout), "entries": len(names), "shards": len(shards)})
		paths := map[string][]string{}
		for _, p := range probes {
			paths[p], err = st.HamtPath(hl, p)
			if err != nil {
				t.Fatal(err)
			}
		}
		var missSets [][]string
		for _, s := range shards {
			missSets = append(missSets, []string{s})
		}
		for k := 0; k < vp.Pick(30, 300) && len(shards) > 1; k++ {
			a, b := shards[rng.Intn(len(shards))], shards[rng.Intn(len(shards))]
			if a != b {
				missSets = append(missSets, []string{a, b})
			}
		}
		for _, miss := range missSets {
			cid := fmt.Sprintf("hamt:fanout=%d,missing=%s", fanout, vp.Short(miss[0]))
			if len(miss) > 1 {
				cid += "+" + vp.Short(miss[1])
			}
			r.Eval(cid)
			gone := map[string]bool{}
			hidden := map[string]bool{} // entries beneath an unavailable shard
			for _, m := range miss {
				gone[m] = true
				for _, n := range info.Under[m] {
					hidden[n] = true
				}
			}
			outer := len(miss)
			if len(miss) == 2 {
				u0, u1 := info.Under[miss[0]], info.Under[miss[1]]
				inner, outerSet := u0, u1
				if len(u0) > len(u1) {
					inner, outerSet = u1, u0
				}
				os := map[string]bool{}
				for _, n := range outerSet {
					os[n] = true
				}
				if len(inner) > 0 && os[inner[0]] {
					outer = 1 // one unavailable shard lies beneath the other
				}
			}
			r.Guard(cid, func() {
				for _, m := range miss {
					st.Missing[m] = true
					defer delete(st.Missing, m)
				}
				d, err := unixfsnode.Reify(ipld.LinkContext{}, rn, ls)
				if err != nil {
					r.Fail(cid, "Reify: %v", err)
					return
				}
				for _, p := range probes {
					crosses := false
					for _, s := range paths[p] {
						if gone[s] {
							crosses = true
							break // nothing below an unavailable shard can be reached
						}
					}
					v, err := d.LookupByString(p)
					switch {
					case crosses && err == nil:
						r.Fail(cid, "lookup %q succeeded although its path crosses an unavailable shard", p)
					case crosses && !errors.Is(err, vp.ErrGone):
						r.Fail(cid, "lookup %q whose path crosses an unavailable shard: %q (%T), want the store's error", p, err, err)
					case !crosses && in[p]:
						if err != nil {
							r.Fail(cid, "lookup of reachable member %q: %v", p, err)
						} else if l, _ := v.AsLink(); l == nil || l.String() != want[p] {
							r.Fail(cid, "lookup of reachable member %q: link %v", p, l)
						}
					case !crosses && !in[p] && (err == nil || errors.Is(err, vp.ErrGone)):
						r.Fail(cid, "lookup of non-member %q off the unavailable shards: %v", p, err)
					}
				}
				seen := map[string]int{}
				errs := 0
				it := d.MapIterator()
				limit := len(names) + len(info.Shards) + 5
				steps := 0
				for ; !it.Done() && steps < limit; steps++ {
					k, v, err := it.Next()
					if err != nil {
						errs++
						if !errors.Is(err, vp.ErrGone) {
							r.Fail(cid, "iteration error %q is not the store's error", err)
						}
						continue
					}
					ks, _ := k.AsString()
					seen[ks]++
					if l, _ := v.AsLink(); l == nil || l.String() != want[ks] {
						r.Fail(cid, "iteration %q: link %v, want %s", ks, l, want[ks])
					}
				}
				if !it.Done() {
					r.Fail(cid, "iteration not done after %d steps", steps)
				}
				for _, n := range names {
					if hidden[n] && seen[n] != 0 {
						r.Fail(cid, "iteration yields %q which lies beneath an unavailable shard", n)
					} else if !hidden[n] && seen[n] != 1 {
						r.Fail(cid, "iteration yields reachable entry %q %d times", n, seen[n])
					}
				}
				if errs != outer {
					r.Fail(cid, "iteration reported %d errors for %d unavailable shards met", errs, outer)
				}
			})
		}
	}
}
