package c12

// Hand-built file DAGs with EMPTY children (case ids "hand:..."): a child that holds no file bytes
// (an empty dag-pb file block e / z, an empty raw leaf r, an interior node with only such children)
// still is a block of the file. When it is unavailable, a sequential read must deliver exactly the
// bytes of the blocks that precede it in depth-first order and then the store's error; it must not
// end cleanly, which is what a reader does that never opens a child declared with 0 bytes (e.g.
// by wrapping every child in io.LimitReader(child, declaredSize)). Neither the library's builder
// nor the boxo importers write such DAGs, so the "file:" cases never contain an empty child.
//
// Shapes use the handdag notation (P dag-pb leaf with 1..7 bytes, R raw leaf with 1..7 bytes,
// e / z empty dag-pb file without / with an empty Data field, s the canonical empty file block,
// [..] interior node declaring FileSize and block sizes). handdag has no empty raw leaf, so the
// shapes containing 'r' (raw leaf of 0 bytes, linked with Tsize 0) are built here; their other
// leaves are raw and every 'r' is the same block.
//
// For EVERY distinct non-root block made unavailable (the empty ones included; a block linked from
// several positions counts at its first position), Read with buffer sizes {1,3,64} until an error
// and AsBytes must yield content[:lo] and an error that errors.Is the store's, where lo is the
// number of file bytes stored in blocks before the missing block's position in depth-first link
// order. lo is computed from the shape and cross-checked against vp's protowire walker.
//
// Bounds: handShapesQuick in both tiers; the thorough tier adds every other shape of
// handdag.Shapes and handdag.LeadingEmptyShapes.
//
// Case ids: hand:<shape>,missing=<path>(<kind>),buf=<1|3|64>   and   ...,asbytes
// e.g. hand:[P,e,P],missing=1(e),buf=3   hand:[P,[P,e]],missing=1([..]),asbytes

import (
	"bytes"
	"context"
	"errors"
	"fmt"
	"io"
	"strings"
	"testing"

	"github.com/ipfs/go-unixfsnode/data"
	"github.com/ipfs/go-unixfsnode/data/builder"
	"github.com/ipfs/go-unixfsnode/file"
	dagpb "github.com/ipld/go-codec-dagpb"
	"github.com/ipld/go-ipld-prime/datamodel"
	"github.com/ipld/go-ipld-prime/fluent/qp"
	"github.com/ipld/go-ipld-prime/linking"
	"github.com/ipld/go-ipld-prime/node/basicnode"

	"replay/handdag"
	"replay/vp"
)

var handShapesQuick = []string{
	// an empty dag-pb child in the middle / last / first, between dag-pb and raw siblings
	"[P,e,P]", "[P,P,e]", "[R,e,R]", "[P,z,P]", "[e,P]", "[z,P]", "[e,R]", "[P,e,e,P]", "[e,z,P,e]",
	// nested
	"[P,[P,e]]", "[[P,e],P]", "[P,[e,P]]", "[[e,P],P]", "[P,[P,e,P]]", "[[R,R],e,[R,R,R]]",
	"[P,[P,[P,e]],P]", "[[[e,R],R],e,R]",
	// interior nodes without any bytes beneath them, the empty file under a root
	"[P,[e]]", "[[e],P]", "[e]",
	// empty raw leaves (built here)
	"[R,r,R]", "[R,R,r]", "[r,R]", "[R,r,R,r]", "[R,[R,r]]", "[[R,r],R]", "[R,[r,R]]", "[r]",
}

// handPos is one distinct non-root block of a hand-built DAG at its first position.
type handPos struct {
	label string // "1(e)", "1.0([..])"
	link  string
	lo    int // file bytes stored before the position (depth-first, link order)
}

// handFromDag derives the positions from a handdag DAG.
func handFromDag(d *handdag.DAG) []handPos {
	var out []handPos
	seen := map[string]bool{}
	lo := 0
	for i, b := range d.Blocks {
		if i > 0 && !seen[b.Link] {
			seen[b.Link] = true
			out = append(out, handPos{b.Label(), b.Link, lo})
		}
		if b.Kind != '[' {
			lo += int(b.Bytes)
		}
	}
	return out
}

// rawShape stores a shape made of R, r and [..] and returns root, content and positions.
type rawShape struct {
	t       *testing.T
	st      *vp.Store
	src     string
	at      int
	seq     int
	content []byte
	pos     []handPos
	seen    map[string]bool
}

type rawBuilt struct {
	link          datamodel.Link
	bytes, stored uint64
}

func (rs *rawShape) node(path string) rawBuilt {
	if rs.at >= len(rs.src) {
		rs.t.Fatalf("shape %q: unexpected end", rs.src)
	}
	c := rs.src[rs.at]
	rs.at++
	rs.seq++
	lo := len(rs.content)
	label := func(kind string) string { return fmt.Sprintf("%s(%s)", path, kind) }
	record := func(b rawBuilt, kind string) rawBuilt {
		if path != "root" && !rs.seen[b.link.String()] {
			rs.seen[b.link.String()] = true
			rs.pos = append(rs.pos, handPos{label(kind), b.link.String(), lo})
		}
		return b
	}
	switch c {
	case 'R', 'r':
		chunk := []byte{}
		if c == 'R' {
			chunk = vp.Content(1+rs.seq%7, 5000+int64(rs.seq))
		}
		rs.content = append(rs.content, chunk...)
		l, err := rs.st.LS().Store(linking.LinkContext{}, vp.V1Raw, basicnode.NewBytes(chunk))
		if err != nil {
			rs.t.Fatal(err)
		}
		return record(rawBuilt{l, uint64(len(chunk)), uint64(len(chunk))}, string(c))
	case '[':
		slot := len(rs.pos) // an interior node precedes its children in depth-first order
		var kids []rawBuilt
		for i := 0; ; i++ {
			kp := fmt.Sprint(i)
			if path != "root" {
				kp = path + "." + kp
			}
			kids = append(kids, rs.node(kp))
			if rs.at < len(rs.src) && rs.src[rs.at] == ',' {
				rs.at++
				continue
			}
			if rs.at < len(rs.src) && rs.src[rs.at] == ']' {
				rs.at++
				break
			}
			rs.t.Fatalf("shape %q: expected , or ] at %d", rs.src, rs.at)
		}
		var sizes []uint64
		var total, stored uint64
		for _, k := range kids {
			sizes = append(sizes, k.bytes)
			total += k.bytes
			stored += k.stored
		}
		ufd, err := builder.BuildUnixFS(func(b *builder.Builder) {
			builder.DataType(b, data.Data_File)
			builder.FileSize(b, total)
			builder.BlockSizes(b, sizes)
		})
		if err != nil {
			rs.t.Fatal(err)
		}
		n, err := qp.BuildMap(dagpb.Type.PBNode, 2, func(ma datamodel.MapAssembler) {
			qp.MapEntry(ma, "Data", qp.Bytes(data.EncodeUnixFSData(ufd)))
			qp.MapEntry(ma, "Links", qp.List(int64(len(kids)), func(la datamodel.ListAssembler) {
				for _, k := range kids {
					qp.ListEntry(la, qp.Map(3, func(ma datamodel.MapAssembler) {
						qp.MapEntry(ma, "Hash", qp.Link(k.link))
						qp.MapEntry(ma, "Name", qp.String(""))
						qp.MapEntry(ma, "Tsize", qp.Int(int64(k.stored)))
					}))
				}
			}))
		})
		if err != nil {
			rs.t.Fatal(err)
		}
		l, err := rs.st.LS().Store(linking.LinkContext{}, vp.V1, n)
		if err != nil {
			rs.t.Fatal(err)
		}
		raw, _ := rs.st.Raw(l)
		b := rawBuilt{l, total, stored + uint64(len(raw))}
		if path != "root" && !rs.seen[l.String()] {
			rs.seen[l.String()] = true
			rs.pos = append(rs.pos, handPos{})
			copy(rs.pos[slot+1:], rs.pos[slot:])
			rs.pos[slot] = handPos{label("[..]"), l.String(), lo}
		}
		return b
	}
	rs.t.Fatalf("shape %q: unexpected %q", rs.src, c)
	return rawBuilt{}
}

func handBuild(t *testing.T, st *vp.Store, shape string, salt int64) (datamodel.Link, []byte, []handPos) {
	if strings.ContainsRune(shape, 'r') {
		rs := &rawShape{t: t, st: st, src: shape, seen: map[string]bool{}}
		root := rs.node("root")
		if rs.at != len(shape) {
			t.Fatalf("shape %q: trailing input", shape)
		}
		return root.link, rs.content, rs.pos
	}
	d, err := handdag.Build(st, shape, vp.V1, salt)
	if err != nil {
		t.Fatalf("hand %s: %v", shape, err)
	}
	return d.Root, d.Content, handFromDag(d)
}

func handBuilt(t *testing.T, r *vp.Run) {
	shapes := append([]string(nil), handShapesQuick...)
	if vp.Thorough() {
		have := map[string]bool{}
		for _, s := range shapes {
			have[s] = true
		}
		for _, s := range append(append([]string(nil), handdag.Shapes...), handdag.LeadingEmptyShapes...) {
			if !have[s] {
				have[s] = true
				shapes = append(shapes, s)
			}
		}
	}
	for si, shape := range shapes {
		st := vp.NewStore()
		root, want, positions := handBuild(t, st, shape, int64(si+1))
		// cross-check the positions against the protowire walker
		content, spans, order, err := st.FileSpans(root)
		if err != nil || !bytes.Equal(content, want) {
			t.Fatalf("hand %s: harness: walk gives %x, err=%v, shape says %x", shape, content, err, want)
		}
		distinct := map[string]bool{}
		for _, l := range order[1:] {
			distinct[l] = true
		}
		if len(distinct) != len(positions) {
			t.Fatalf("hand %s: harness: %d positions for %d distinct non-root blocks", shape, len(positions), len(distinct))
		}
		for _, p := range positions {
			if sp, ok := spans[p.link]; !ok || sp.Lo != p.lo {
				t.Fatalf("hand %s: harness: %s starts at %d by the shape, at %v by the walk", shape, p.label, p.lo, sp)
			}
		}
		ls := st.LS()
		rn, err := vp.Load(ls, root)
		if err != nil {
			t.Fatal(err)
		}
		if si < 2 {
			r.Sample(map[string]any{"case": "hand:" + shape, "root": root.String(), "bytes": len(want), "blocks": len(positions) + 1})
		}
		for _, p := range positions {
			for _, bs := range []int{1, 3, 64, 0} {
				cid := fmt.Sprintf("hand:%s,missing=%s,buf=%d", shape, p.label, bs)
				if bs == 0 {
					cid = fmt.Sprintf("hand:%s,missing=%s,asbytes", shape, p.label)
				}
				r.Eval(cid)
				r.Guard(cid, func() {
					st.Missing[p.link] = true
					defer delete(st.Missing, p.link)
					f, err := file.NewUnixFSFile(context.Background(), rn, ls)
					if err != nil {
						r.Fail(cid, "NewUnixFSFile: %v", err)
						return
					}
					var got []byte
					var rerr error
					if bs == 0 {
						got, rerr = f.AsBytes()
						if rerr == nil {
							rerr = io.EOF // a complete value: same verdict as a clean end of the stream
						}
					} else {
						rd, err := f.AsLargeBytes()
						if err != nil {
							r.Fail(cid, "AsLargeBytes: %v", err)
							return
						}
						buf := make([]byte, bs)
						for steps := 0; steps < 4*len(want)+8 && rerr == nil; steps++ {
							var n int
							n, rerr = rd.Read(buf)
							got = append(got, buf[:n]...)
						}
					}
					switch {
					case rerr == nil:
						r.Fail(cid, "no error after %d reads; delivered %d bytes %x, the %d bytes before the missing block are %x", 4*len(want)+8, len(got), got, p.lo, want[:p.lo])
					case rerr == io.EOF:
						r.Fail(cid, "read ended cleanly after %d bytes %x (file is %d bytes) instead of reporting the load error; the %d bytes before the missing block are %x", len(got), got, len(want), p.lo, want[:p.lo])
					case !errors.Is(rerr, vp.ErrGone):
						r.Fail(cid, "read failed with %q which is not the store's error (after %d bytes)", rerr, len(got))
					case !bytes.Equal(got, want[:p.lo]):
						r.Fail(cid, "delivered %d bytes %x before the store's error, the %d bytes before the missing block are %x", len(got), got, p.lo, want[:p.lo])
					}
				})
			}
		}
	}
}
