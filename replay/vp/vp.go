// Package vp holds what the bounded differential harnesses under /verif/replay share: the
// VP-FAIL / VP-SAMPLE / VP-SUMMARY output protocol, tier and seed handling, an in-memory block
// store with a request log and fault injection, an independent dag-pb block walker (protowire
// only, no go-codec-dagpb), the boxo reference importers and a murmur3 prefix-collision search.
//
// Protocol (stdout of `go test -count=1 -vet=off -run TestBounded ./cNN`):
//
//	VP-FAIL {"case":"<id>","detail":"<observed vs expected>"}   one per failing case
//	VP-SAMPLE {...}                                               at most five explored cases
//	VP-NOTE ...                                                   only if VP-FAIL lines were capped
//	VP-SUMMARY {"Evaluations":N,"Distinct":M}                     exactly once, last
//
// The test fails iff at least one VP-FAIL was reported. VERIF_TIER=quick|thorough selects the
// bound, VERIF_SEED (default 0) seeds every random choice. Because `go test` without -v throws
// away the stdout of a passing package, Run.Done mirrors the lines (see Run.mirror; VERIF_OUT
// names a file to append them to instead).
package vp

import (
	"bytes"
	"context"
	"encoding/json"
	"errors"
	"fmt"
	"io"
	"math/rand"
	"os"
	"strconv"
	"strings"
	"sync"
	"testing"

	"github.com/ipfs/boxo/blockservice"
	bstore "github.com/ipfs/boxo/blockstore"
	chunk "github.com/ipfs/boxo/chunker"
	offline "github.com/ipfs/boxo/exchange/offline"
	"github.com/ipfs/boxo/ipld/merkledag"
	"github.com/ipfs/boxo/ipld/unixfs/importer/balanced"
	h "github.com/ipfs/boxo/ipld/unixfs/importer/helpers"
	"github.com/ipfs/boxo/ipld/unixfs/importer/trickle"
	upb "github.com/ipfs/boxo/ipld/unixfs/pb"
	"github.com/ipfs/go-cid"
	ds "github.com/ipfs/go-datastore"
	dssync "github.com/ipfs/go-datastore/sync"
	format "github.com/ipfs/go-ipld-format"
	dagpb "github.com/ipld/go-codec-dagpb"
	"github.com/ipld/go-ipld-prime"
	"github.com/ipld/go-ipld-prime/datamodel"
	"github.com/ipld/go-ipld-prime/linking"
	cidlink "github.com/ipld/go-ipld-prime/linking/cid"
	"github.com/ipld/go-ipld-prime/node/basicnode"
	mh "github.com/multiformats/go-multihash"
	"github.com/spaolacci/murmur3"
	"google.golang.org/protobuf/encoding/protowire"

	gproto "github.com/gogo/protobuf/proto"
)

// ---------------------------------------------------------------------------------------------
// output protocol

// Run collects the verdicts of one TestBounded.
type Run struct {
	t        *testing.T
	mu       sync.Mutex
	evals    int
	distinct map[string]struct{}
	fails    int
	printed  map[string]struct{}
	perClass map[string]int
	hidden   int
	samples  int
	lines    []string // every protocol line printed so far
}

// emit prints one protocol line on stdout and remembers it for Done.
func (r *Run) emit(format string, args ...any) {
	line := fmt.Sprintf(format, args...)
	fmt.Println(line)
	r.lines = append(r.lines, line)
}

// at most this many VP-FAIL lines are printed per class of case ids (the text before the first
// ':'); every failure still counts and fails the test, and the number of unprinted ones is
// reported in a VP-NOTE line.
const maxFailLinesPerClass = 400

func New(t *testing.T) *Run {
	return &Run{t: t, distinct: map[string]struct{}{}, printed: map[string]struct{}{}, perClass: map[string]int{}}
}

// Eval counts one evaluated case; key identifies the (non-trivial) input so that Distinct counts
// different inputs only once. An empty key counts as an evaluation but not as a distinct case.
func (r *Run) Eval(key string) {
	r.mu.Lock()
	r.evals++
	if key != "" {
		r.distinct[key] = struct{}{}
	}
	r.mu.Unlock()
}

// Fail reports one failing case. The same (case, detail) pair is printed once.
func (r *Run) Fail(caseID, format string, args ...any) {
	detail := fmt.Sprintf(format, args...)
	if len(detail) > 400 {
		detail = detail[:400] + "..."
	}
	r.mu.Lock()
	defer r.mu.Unlock()
	r.fails++
	k := caseID + "\x00" + detail
	if _, dup := r.printed[k]; dup {
		return
	}
	r.printed[k] = struct{}{}
	class, _, _ := strings.Cut(caseID, ":")
	if r.perClass[class]++; r.perClass[class] > maxFailLinesPerClass {
		r.hidden++
		return
	}
	b, _ := json.Marshal(map[string]string{"case": caseID, "detail": detail})
	r.emit("VP-FAIL %s", b)
}

// Sample prints one explored case (at most five per run are printed).
func (r *Run) Sample(v any) {
	r.mu.Lock()
	defer r.mu.Unlock()
	if r.samples >= 5 {
		return
	}
	r.samples++
	b, err := json.Marshal(v)
	if err != nil {
		b = []byte(strconv.Quote(fmt.Sprint(v)))
	}
	r.emit("VP-SAMPLE %s", b)
}

// Failed reports whether any case failed so far.
func (r *Run) Failed() bool { r.mu.Lock(); defer r.mu.Unlock(); return r.fails > 0 }

// Done prints the summary line and fails the test iff a case failed. Use with defer.
func (r *Run) Done() {
	r.mu.Lock()
	defer r.mu.Unlock()
	if r.hidden > 0 {
		r.emit("VP-NOTE %d further failing cases not printed (limit %d per class)", r.hidden, maxFailLinesPerClass)
	}
	r.emit("VP-SUMMARY {\"Evaluations\":%d,\"Distinct\":%d}", r.evals, len(r.distinct))
	if r.fails > 0 {
		r.t.Fail()
	}
	r.mirror()
}

// mirror copes with `go test` discarding the stdout of a PASSING package unless -v is given:
//   - if VERIF_OUT names a file, every protocol line is appended to it (pass or fail);
//   - otherwise, when the test passes without -v, the lines are written straight to the go
//     command's own stdout (/proc/<ppid>/fd/1) provided that is a pipe or a terminal (for a regular
//     file the two writers' offsets would clash, so nothing is done). With -v, or when the test
//     fails, go prints the buffered output itself and nothing is mirrored (no duplicates).
func (r *Run) mirror() {
	text := strings.Join(r.lines, "\n") + "\n"
	if path := os.Getenv("VERIF_OUT"); path != "" {
		if f, err := os.OpenFile(path, os.O_WRONLY|os.O_APPEND|os.O_CREATE, 0o644); err == nil {
			f.WriteString(text)
			f.Close()
		}
		return
	}
	if r.fails > 0 || r.t.Failed() || testing.Verbose() {
		return
	}
	path := fmt.Sprintf("/proc/%d/fd/1", os.Getppid())
	st, err := os.Stat(path)
	if err != nil || st.Mode()&(os.ModeNamedPipe|os.ModeCharDevice) == 0 {
		return
	}
	if f, err := os.OpenFile(path, os.O_WRONLY|os.O_APPEND, 0); err == nil {
		f.WriteString(text)
		f.Close()
	}
}

// Guard runs f and turns a panic of the code under test into a failing case.
func (r *Run) Guard(caseID string, f func()) {
	defer func() {
		if p := recover(); p != nil {
			r.Fail(caseID, "panic: %v", p)
		}
	}()
	f()
}

// Thorough reports whether VERIF_TIER=thorough.
func Thorough() bool { return os.Getenv("VERIF_TIER") == "thorough" }

// Pick returns q in the quick tier and th in the thorough tier.
func Pick[T any](q, th T) T {
	if Thorough() {
		return th
	}
	return q
}

// Seed is VERIF_SEED (default 0).
func Seed() int64 {
	s, err := strconv.ParseInt(os.Getenv("VERIF_SEED"), 10, 64)
	if err != nil {
		return 0
	}
	return s
}

// Rng returns a deterministic generator derived from VERIF_SEED and a per-use salt.
func Rng(salt int64) *rand.Rand { return rand.New(rand.NewSource(Seed()*1000003 + salt)) }

// Content returns n deterministic bytes (depends on VERIF_SEED and salt) with few repeats, so
// that distinct chunks almost never share a CID.
func Content(n int, salt int64) []byte {
	r := Rng(7919 + salt)
	b := make([]byte, n)
	r.Read(b)
	return b
}

// ---------------------------------------------------------------------------------------------
// block store with request log and fault injection

var ErrGone = errors.New("vp: block unavailable")
var ErrWrite = errors.New("vp: injected write failure")

// key addresses blocks by multihash, so CIDv0 / CIDv1 / codec spellings of one block coincide.
func key(l datamodel.Link) string {
	if cl, ok := l.(cidlink.Link); ok {
		return string(cl.Cid.Hash())
	}
	return l.Binary()
}

// Store is an in-memory block store keyed by multihash.
type Store struct {
	mu      sync.Mutex
	Blocks  map[string][]byte
	Reads   []string        // every StorageReadOpener request, in order (link.String())
	Missing map[string]bool // link.String() -> refuse to serve
	Commits []string        // every successful commit, in order (link.String())
	// write fault injection: fail the FailOpen-th open / FailCommit-th commit (1-based, 0 = never)
	FailOpen, FailCommit int
	opens, commits       int
	// OnCommit, when set, is called (without the lock) just before a block becomes visible
	OnCommit func(l datamodel.Link, raw []byte)
}

func NewStore() *Store { return &Store{Blocks: map[string][]byte{}, Missing: map[string]bool{}} }

func (s *Store) ResetLog() { s.mu.Lock(); s.Reads = nil; s.mu.Unlock() }

// ReadLog returns a copy of the request log.
func (s *Store) ReadLog() []string {
	s.mu.Lock()
	defer s.mu.Unlock()
	return append([]string(nil), s.Reads...)
}

// FirstReads returns the request log with repeated requests of the same block removed.
func (s *Store) FirstReads() []string {
	seen := map[string]bool{}
	var out []string
	for _, l := range s.ReadLog() {
		if !seen[l] {
			seen[l] = true
			out = append(out, l)
		}
	}
	return out
}

func (s *Store) Has(l datamodel.Link) bool {
	s.mu.Lock()
	defer s.mu.Unlock()
	_, ok := s.Blocks[key(l)]
	return ok
}

// Raw returns the stored bytes of a block without logging a request.
func (s *Store) Raw(l datamodel.Link) ([]byte, bool) {
	s.mu.Lock()
	defer s.mu.Unlock()
	b, ok := s.Blocks[key(l)]
	return b, ok
}

func (s *Store) Len() int { s.mu.Lock(); defer s.mu.Unlock(); return len(s.Blocks) }

func (s *Store) openRead(_ linking.LinkContext, l datamodel.Link) (io.Reader, error) {
	s.mu.Lock()
	defer s.mu.Unlock()
	s.Reads = append(s.Reads, l.String())
	if s.Missing[l.String()] {
		return nil, ErrGone
	}
	b, ok := s.Blocks[key(l)]
	if !ok {
		return nil, fmt.Errorf("%w: %s not stored", ErrGone, l)
	}
	return bytes.NewReader(b), nil
}

func (s *Store) openWrite(_ linking.LinkContext) (io.Writer, linking.BlockWriteCommitter, error) {
	s.mu.Lock()
	s.opens++
	fail := s.FailOpen != 0 && s.opens == s.FailOpen
	s.mu.Unlock()
	if fail {
		return nil, nil, ErrWrite
	}
	buf := &bytes.Buffer{}
	return buf, func(l datamodel.Link) error {
		s.mu.Lock()
		s.commits++
		fail := s.FailCommit != 0 && s.commits == s.FailCommit
		cb := s.OnCommit
		s.mu.Unlock()
		if fail {
			return ErrWrite
		}
		if cb != nil {
			cb(l, buf.Bytes())
		}
		s.mu.Lock()
		s.Blocks[key(l)] = append([]byte(nil), buf.Bytes()...)
		s.Commits = append(s.Commits, l.String())
		s.mu.Unlock()
		return nil
	}, nil
}

// LS returns a fresh link system over the store (reads are logged; no reifiers registered).
func (s *Store) LS() *ipld.LinkSystem {
	ls := cidlink.DefaultLinkSystem()
	ls.TrustedStorage = true
	ls.StorageReadOpener = s.openRead
	ls.StorageWriteOpener = s.openWrite
	return &ls
}

// PutBlockstore copies every block of a boxo blockstore into the store.
func (s *Store) PutBlockstore(bs bstore.Blockstore) error {
	ctx := context.Background()
	ch, err := bs.AllKeysChan(ctx)
	if err != nil {
		return err
	}
	for c := range ch {
		blk, err := bs.Get(ctx, c)
		if err != nil {
			return err
		}
		s.Blocks[string(c.Hash())] = blk.RawData()
	}
	return nil
}

// ProtoChooser picks the dag-pb prototype for dag-pb links and Any otherwise.
func ProtoChooser(l datamodel.Link) datamodel.NodePrototype {
	if cl, ok := l.(cidlink.Link); ok && cl.Cid.Prefix().Codec == cid.DagProtobuf {
		return dagpb.Type.PBNode
	}
	return basicnode.Prototype.Any
}

// Chooser is ProtoChooser in the shape traversal.Config wants.
func Chooser(l datamodel.Link, _ linking.LinkContext) (datamodel.NodePrototype, error) {
	return ProtoChooser(l), nil
}

// Load loads a block with the prototype ProtoChooser picks.
func Load(ls *ipld.LinkSystem, l datamodel.Link) (datamodel.Node, error) {
	return ls.Load(ipld.LinkContext{Ctx: context.Background()}, l, ProtoChooser(l))
}

// V1 is the CIDv1 / dag-pb / sha2-256 link prototype.
var V1 = cidlink.LinkPrototype{Prefix: cid.Prefix{Version: 1, Codec: cid.DagProtobuf, MhType: mh.SHA2_256, MhLength: 32}}

// V1Raw is the CIDv1 / raw / sha2-256 link prototype.
var V1Raw = cidlink.LinkPrototype{Prefix: cid.Prefix{Version: 1, Codec: cid.Raw, MhType: mh.SHA2_256, MhLength: 32}}

// ---------------------------------------------------------------------------------------------
// independent dag-pb reading (protowire only)

// PBLink is one link of a dag-pb block as found on the wire.
type PBLink struct {
	Cid      cid.Cid
	Name     string
	HasName  bool
	Tsize    uint64
	HasTsize bool
}

func (l PBLink) Link() datamodel.Link { return cidlink.Link{Cid: l.Cid} }

// PBBlock is a decoded dag-pb block.
type PBBlock struct {
	Data    []byte
	HasData bool
	Links   []PBLink
}

// ParsePB decodes a dag-pb block with protowire (wire order of links is preserved).
func ParsePB(raw []byte) (PBBlock, error) {
	var out PBBlock
	for len(raw) > 0 {
		num, typ, n := protowire.ConsumeTag(raw)
		if n < 0 {
			return out, protowire.ParseError(n)
		}
		raw = raw[n:]
		if typ != protowire.BytesType {
			return out, fmt.Errorf("dag-pb: field %d has wire type %d", num, typ)
		}
		v, n := protowire.ConsumeBytes(raw)
		if n < 0 {
			return out, protowire.ParseError(n)
		}
		raw = raw[n:]
		switch num {
		case 1:
			out.Data, out.HasData = v, true
		case 2:
			var l PBLink
			for len(v) > 0 {
				num, typ, n := protowire.ConsumeTag(v)
				if n < 0 {
					return out, protowire.ParseError(n)
				}
				v = v[n:]
				switch {
				case num == 1 && typ == protowire.BytesType:
					b, n := protowire.ConsumeBytes(v)
					if n < 0 {
						return out, protowire.ParseError(n)
					}
					v = v[n:]
					_, c, err := cid.CidFromBytes(b)
					if err != nil {
						return out, err
					}
					l.Cid = c
				case num == 2 && typ == protowire.BytesType:
					b, n := protowire.ConsumeBytes(v)
					if n < 0 {
						return out, protowire.ParseError(n)
					}
					v = v[n:]
					l.Name, l.HasName = string(b), true
				case num == 3 && typ == protowire.VarintType:
					x, n := protowire.ConsumeVarint(v)
					if n < 0 {
						return out, protowire.ParseError(n)
					}
					v = v[n:]
					l.Tsize, l.HasTsize = x, true
				default:
					return out, fmt.Errorf("dag-pb link: field %d wire type %d", num, typ)
				}
			}
			out.Links = append(out.Links, l)
		default:
			return out, fmt.Errorf("dag-pb: unknown field %d", num)
		}
	}
	return out, nil
}

// UnixFS decodes a block's Data with the gogo reference decoder.
func (b PBBlock) UnixFS() (*upb.Data, error) {
	if !b.HasData {
		return nil, errors.New("no Data")
	}
	var d upb.Data
	if err := gproto.Unmarshal(b.Data, &d); err != nil {
		return nil, err
	}
	return &d, nil
}

// IsPB reports whether the link addresses a dag-pb block.
func IsPB(l datamodel.Link) bool {
	cl, ok := l.(cidlink.Link)
	return ok && cl.Cid.Prefix().Codec == cid.DagProtobuf
}

// Block fetches and parses a dag-pb block from the store (not logged).
func (s *Store) Block(l datamodel.Link) (PBBlock, []byte, error) {
	raw, ok := s.Raw(l)
	if !ok {
		return PBBlock{}, nil, fmt.Errorf("block %s not stored", l)
	}
	b, err := ParsePB(raw)
	return b, raw, err
}

// Span is the half-open byte range of file content stored under a block.
type Span struct{ Lo, Hi int }

// FileSpans walks a file DAG (dag-pb interior nodes with or without inline data, raw or dag-pb
// leaves) and returns its content together with the content span of every block and the
// depth-first, link-order list of blocks (root first).
func (s *Store) FileSpans(root datamodel.Link) (content []byte, spans map[string]Span, order []string, err error) {
	spans = map[string]Span{}
	var walk func(l datamodel.Link) error
	walk = func(l datamodel.Link) error {
		lo := len(content)
		order = append(order, l.String())
		if !IsPB(l) {
			raw, ok := s.Raw(l)
			if !ok {
				return fmt.Errorf("block %s not stored", l)
			}
			content = append(content, raw...)
		} else {
			b, _, err := s.Block(l)
			if err != nil {
				return err
			}
			if b.HasData {
				if u, err := b.UnixFS(); err == nil {
					content = append(content, u.Data...)
				}
			}
			for _, k := range b.Links {
				if err := walk(k.Link()); err != nil {
					return err
				}
			}
		}
		// a block reached twice keeps the first span; harnesses use distinct chunks
		if _, dup := spans[l.String()]; !dup {
			spans[l.String()] = Span{lo, len(content)}
		}
		return nil
	}
	err = walk(root)
	return
}

// HamtInfo describes a stored HAMT as seen by an independent walk.
type HamtInfo struct {
	Shards  []string            // every shard block, depth-first in link order, root first
	Entries map[string]string   // entry name -> link.String()
	Order   []string            // entry names in depth-first link order
	Under   map[string][]string // shard link.String() -> entry names stored in or beneath it
}

// WalkHamt walks a stored HAMT using only the on-wire rules (link name = hex prefix of
// len(hex(fanout-1)) digits; a name of exactly that length addresses a child shard).
func (s *Store) WalkHamt(root datamodel.Link) (*HamtInfo, error) {
	info := &HamtInfo{Entries: map[string]string{}, Under: map[string][]string{}}
	var walk func(l datamodel.Link) ([]string, error)
	walk = func(l datamodel.Link) ([]string, error) {
		b, _, err := s.Block(l)
		if err != nil {
			return nil, err
		}
		u, err := b.UnixFS()
		if err != nil {
			return nil, err
		}
		if u.GetType() != upb.Data_HAMTShard {
			return nil, fmt.Errorf("block %s is not a shard", l)
		}
		info.Shards = append(info.Shards, l.String())
		pad := len(fmt.Sprintf("%X", u.GetFanout()-1))
		var names []string
		for _, k := range b.Links {
			if len(k.Name) < pad {
				return nil, fmt.Errorf("short link name %q", k.Name)
			}
			if len(k.Name) == pad {
				sub, err := walk(k.Link())
				if err != nil {
					return nil, err
				}
				names = append(names, sub...)
				continue
			}
			nm := k.Name[pad:]
			if _, dup := info.Entries[nm]; dup {
				return nil, fmt.Errorf("duplicate entry %q", nm)
			}
			info.Entries[nm] = k.Link().String()
			info.Order = append(info.Order, nm)
			names = append(names, nm)
		}
		info.Under[l.String()] = names
		return names, nil
	}
	_, err := walk(root)
	return info, err
}

// HamtPath returns the shard blocks below the root that a lookup of name has to visit, computed
// from the murmur3 hash of the name and the stored blocks.
func (s *Store) HamtPath(root datamodel.Link, name string) ([]string, error) {
	hv := murmur3.Sum64([]byte(name))
	used := uint(0)
	var path []string
	cur := root
	for {
		b, _, err := s.Block(cur)
		if err != nil {
			return nil, err
		}
		u, err := b.UnixFS()
		if err != nil {
			return nil, err
		}
		fan := u.GetFanout()
		lg := uint(0)
		for 1<<lg < fan {
			lg++
		}
		if used+lg > 64 {
			return path, nil
		}
		idx := (hv << used) >> (64 - lg)
		used += lg
		pad := len(fmt.Sprintf("%X", fan-1))
		prefix := fmt.Sprintf("%0*X", pad, idx)
		var next datamodel.Link
		for _, k := range b.Links {
			if len(k.Name) == pad && k.Name == prefix {
				next = k.Link()
			}
		}
		if next == nil {
			return path, nil
		}
		path = append(path, next.String())
		cur = next
	}
}

// ---------------------------------------------------------------------------------------------
// boxo reference side

// Boxo is a boxo DAG service over a fresh in-memory blockstore.
type Boxo struct {
	BS  bstore.Blockstore
	Dag format.DAGService
}

func NewBoxo() *Boxo {
	bs := bstore.NewBlockstore(dssync.MutexWrap(ds.NewMapDatastore()))
	return &Boxo{BS: bs, Dag: merkledag.NewDAGService(blockservice.New(bs, offline.Exchange(bs)))}
}

// LS returns a link system reading from the boxo blockstore through a Store (so reads are logged).
func (b *Boxo) Store() (*Store, error) {
	s := NewStore()
	return s, s.PutBlockstore(b.BS)
}

// ImportFile runs the boxo importer. layout is "balanced" or "trickle".
func (b *Boxo) ImportFile(data []byte, chunker, layout string, width int, rawLeaves bool, cidVer int) (format.Node, error) {
	spl, err := chunk.FromString(bytes.NewReader(data), chunker)
	if err != nil {
		return nil, err
	}
	prefix, err := merkledag.PrefixForCidVersion(cidVer)
	if err != nil {
		return nil, err
	}
	prefix.MhType = mh.SHA2_256
	prefix.MhLength = 32
	dbp := h.DagBuilderParams{Dagserv: b.Dag, Maxlinks: width, RawLeaves: rawLeaves, CidBuilder: &prefix}
	db, err := dbp.New(spl)
	if err != nil {
		return nil, err
	}
	if layout == "trickle" {
		return trickle.Layout(db)
	}
	return balanced.Layout(db)
}

// ---------------------------------------------------------------------------------------------
// names

// Hash64 is the murmur3 x64 64-bit hash UnixFS HAMTs use.
func Hash64(name string) uint64 { return murmur3.Sum64([]byte(name)) }

// Colliding returns n distinct names whose murmur3 hashes share their top `bits` bits.
func Colliding(n int, bits uint, r *rand.Rand) []string {
	var out []string
	var want uint64
	prefix := []byte(fmt.Sprintf("c%x-", r.Intn(1<<20)))
	buf := make([]byte, 0, 32)
	for i := 0; len(out) < n; i++ {
		buf = strconv.AppendInt(append(buf[:0], prefix...), int64(i), 10)
		p := murmur3.Sum64(buf) >> (64 - bits)
		if len(out) == 0 {
			want = p
			out = append(out, string(buf))
		} else if p == want {
			out = append(out, string(buf))
		}
	}
	return out
}

var alphabets = []string{
	"abcdefghijklmnopqrstuvwxyz",
	"0123456789ABCDEF", // looks like a shard prefix
	"é世界 ü-_.ñ",
	" x",
}

// Names returns n distinct, non-empty, slash-free names mixing ascii, hex-looking prefixes,
// unicode, spaces and (one in eight) bytes that are not valid UTF-8.
func Names(n int, r *rand.Rand) []string {
	seen := map[string]bool{}
	var out []string
	for len(out) < n {
		a := []rune(alphabets[r.Intn(len(alphabets))])
		k := 1 + r.Intn(6)
		var nm []rune
		for i := 0; i < k; i++ {
			nm = append(nm, a[r.Intn(len(a))])
		}
		s := string(nm)
		if r.Intn(8) == 0 {
			// names are byte strings: not every on-disk or dag-pb name is valid UTF-8
			bad := []string{"\xff", "\xe9", "\xc3", "\xfe\xfd", "\x92"}[r.Intn(5)]
			cut := r.Intn(len(s) + 1)
			s = s[:cut] + bad + s[cut:]
		}
		if r.Intn(3) == 0 {
			s = fmt.Sprintf("%02X%s", r.Intn(256), s)
		}
		if r.Intn(4) == 0 || seen[s] {
			s += fmt.Sprintf("%d", len(out))
		}
		if seen[s] {
			continue
		}
		seen[s] = true
		out = append(out, s)
	}
	return out
}

// Dedup removes repeated names keeping first occurrences.
func Dedup(in []string) []string {
	seen := map[string]bool{}
	var out []string
	for _, s := range in {
		if !seen[s] {
			seen[s] = true
			out = append(out, s)
		}
	}
	return out
}

// Short abbreviates a link string for case ids.
func Short(s string) string {
	if len(s) > 16 {
		return s[len(s)-12:]
	}
	return s
}

// ---------------------------------------------------------------------------------------------
// independent read-back of a whole UnixFS tree

// Tree is what an independent walk over the stored blocks finds at one link.
type Tree struct {
	Link     string
	Kind     string // "file", "dir" (plain or HAMT, flattened), "symlink", "other"
	Sharded  bool
	Content  []byte            // file bytes / symlink target
	Names    []string          // entry names in stored (depth-first link) order, prefixes stripped
	Children map[string]*Tree  // by entry name (first occurrence)
	EntryCid map[string]string // entry name -> CID string recorded in the directory's link
	Tsize    map[string]uint64 // entry name -> Tsize recorded in the directory's link
	Problems []string          // duplicate / nameless entries and the like
}

// ReadTree reads the UnixFS tree under l using only protowire + gogo unixfs_pb.
func (s *Store) ReadTree(l datamodel.Link) (*Tree, error) {
	t := &Tree{Link: l.String()}
	if !IsPB(l) {
		raw, ok := s.Raw(l)
		if !ok {
			return nil, fmt.Errorf("block %s not stored", l)
		}
		t.Kind, t.Content = "file", raw
		return t, nil
	}
	b, _, err := s.Block(l)
	if err != nil {
		return nil, err
	}
	u, err := b.UnixFS()
	if err != nil {
		t.Kind = "other"
		return t, nil
	}
	switch u.GetType() {
	case upb.Data_File, upb.Data_Raw:
		t.Kind = "file"
		t.Content, _, _, err = s.FileSpans(l)
		return t, err
	case upb.Data_Symlink:
		t.Kind, t.Content = "symlink", u.Data
		return t, nil
	case upb.Data_Directory, upb.Data_HAMTShard:
		t.Kind, t.Sharded = "dir", u.GetType() == upb.Data_HAMTShard
		t.Children, t.EntryCid, t.Tsize = map[string]*Tree{}, map[string]string{}, map[string]uint64{}
		var collect func(b PBBlock, u *upb.Data) error
		collect = func(b PBBlock, u *upb.Data) error {
			pad := 0
			if u.GetType() == upb.Data_HAMTShard {
				pad = len(fmt.Sprintf("%X", u.GetFanout()-1))
			}
			for _, k := range b.Links {
				if !k.HasName || len(k.Name) < pad {
					t.Problems = append(t.Problems, fmt.Sprintf("link without usable name %q", k.Name))
					continue
				}
				if pad > 0 && len(k.Name) == pad {
					cb, _, err := s.Block(k.Link())
					if err != nil {
						return err
					}
					cu, err := cb.UnixFS()
					if err != nil || cu.GetType() != upb.Data_HAMTShard {
						return fmt.Errorf("child shard %s is not a HAMT shard", k.Link())
					}
					if err := collect(cb, cu); err != nil {
						return err
					}
					continue
				}
				name := k.Name[pad:]
				t.Names = append(t.Names, name)
				if _, dup := t.Children[name]; dup {
					t.Problems = append(t.Problems, fmt.Sprintf("duplicate entry %q", name))
					continue
				}
				child, err := s.ReadTree(k.Link())
				if err != nil {
					return fmt.Errorf("%s: %w", name, err)
				}
				t.Children[name] = child
				t.EntryCid[name] = k.Cid.String()
				t.Tsize[name] = k.Tsize
			}
			return nil
		}
		return t, collect(b, u)
	}
	t.Kind = "other"
	return t, nil
}
