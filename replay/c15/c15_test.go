// C15 bounded stand-in: the map-node contract of plain directories, generic link maps and HAMTs.
//
// Bounds (quick | thorough):
//
//	link lists: EVERY sequence of length 0..4 | 0..5 over the name alphabet {absent, "", "a", "b"}
//	  (duplicates and every order included), each link with its own CID; plus 50 | 2000 random
//	  lists of up to 12 links over {absent,"","a","b","é","a b","00","0A","世界"} (VERIF_SEED);
//	  each list as a generic link map (no Data) and as a UnixFS Directory; each both as the node
//	  built in memory (order as given) and after dag-pb encode -> decode (links sorted);
//	sharded directories: builder HAMTs, fanouts {8,32,256,1024} | all of 8..1024, 1 / 7 colliding /
//	  200 | 2000 names.
//
// Contract checked on the reified node: MapIterator yields exactly Length() pairs, then Done();
// every yielded key is found by LookupByString and resolves to the link FIRST yielded under that
// key; probe keys never yielded are not found; LookupByString, LookupByNode, LookupBySegment and
// the native Lookup(dagpb.String) agree on every yielded key and every probe.
package c15

import (
	"bytes"
	"fmt"
	"math/rand"
	"testing"

	gproto "github.com/gogo/protobuf/proto"
	pb "github.com/ipfs/boxo/ipld/unixfs/pb"
	"github.com/ipfs/go-unixfsnode"
	"github.com/ipfs/go-unixfsnode/data/builder"
	dagpb "github.com/ipld/go-codec-dagpb"
	"github.com/ipld/go-ipld-prime"
	"github.com/ipld/go-ipld-prime/datamodel"
	"github.com/ipld/go-ipld-prime/fluent/qp"
	cidlink "github.com/ipld/go-ipld-prime/linking/cid"
	"github.com/ipld/go-ipld-prime/node/basicnode"

	"replay/vp"
)

const absent = "\x00absent"

type native interface {
	Lookup(dagpb.String) dagpb.Link
}

func contract(r *vp.Run, id string, n datamodel.Node, probes []string) {
	r.Eval(id)
	r.Guard(id, func() {
		if n.Kind() != datamodel.Kind_Map {
			r.Fail(id, "kind %v, want map", n.Kind())
			return
		}
		length := n.Length()
		first := map[string]string{}
		var order []string
		it := n.MapIterator()
		count := int64(0)
		for ; !it.Done() && count <= length+2; count++ {
			k, v, err := it.Next()
			if err != nil {
				r.Fail(id, "iteration error after %d pairs: %v", count, err)
				return
			}
			ks, err := k.AsString()
			if err != nil {
				r.Fail(id, "key %d is not a string: %v", count, err)
				return
			}
			vl, err := v.AsLink()
			if err != nil {
				r.Fail(id, "value under %q is not a link: %v", ks, err)
				return
			}
			if _, dup := first[ks]; !dup {
				first[ks] = vl.String()
				order = append(order, ks)
			}
		}
		if count != length || !it.Done() {
			r.Fail(id, "iteration yielded %d pairs (done=%v), Length() is %d", count, it.Done(), length)
		}
		all := func(key string) (res [4]string) {
			get := func(v datamodel.Node, err error) string {
				if err != nil {
					return "not-found"
				}
				if v == nil {
					return "nil-node"
				}
				l, err := v.AsLink()
				if err != nil {
					return "not-a-link:" + err.Error()
				}
				return l.String()
			}
			res[0] = get(n.LookupByString(key))
			res[1] = get(n.LookupByNode(basicnode.NewString(key)))
			res[2] = get(n.LookupBySegment(datamodel.PathSegmentOfString(key)))
			res[3] = "no-native-lookup"
			if nat, ok := n.(native); ok {
				sb := dagpb.Type.String.NewBuilder()
				sb.AssignString(key)
				if l := nat.Lookup(sb.Build().(dagpb.String)); l == nil {
					res[3] = "not-found"
				} else {
					res[3] = l.Link().String()
				}
			}
			return
		}
		for _, k := range order {
			got := all(k)
			if got[0] != first[k] {
				r.Fail(id, "LookupByString(%q) = %s, first link yielded under that key is %s", k, vp.Short(got[0]), vp.Short(first[k]))
			}
			if got[1] != got[0] || got[2] != got[0] || got[3] != got[0] {
				r.Fail(id, "lookups of yielded key %q disagree: string=%s node=%s segment=%s native=%s", k, vp.Short(got[0]), vp.Short(got[1]), vp.Short(got[2]), vp.Short(got[3]))
			}
		}
		for _, p := range probes {
			if _, yielded := first[p]; yielded {
				continue
			}
			got := all(p)
			if got[0] != "not-found" {
				r.Fail(id, "LookupByString(%q) = %s for a key the iterator never yielded", p, vp.Short(got[0]))
			}
			if got[1] != got[0] || got[2] != got[0] || got[3] != got[0] {
				r.Fail(id, "lookups of never-yielded key %q disagree: string=%s node=%s segment=%s native=%s", p, vp.Short(got[0]), vp.Short(got[1]), vp.Short(got[2]), vp.Short(got[3]))
			}
		}
	})
}

func buildPB(t *testing.T, names []string, data []byte) datamodel.Node {
	n, err := qp.BuildMap(dagpb.Type.PBNode, 2, func(ma datamodel.MapAssembler) {
		qp.MapEntry(ma, "Links", qp.List(int64(len(names)), func(la datamodel.ListAssembler) {
			for i, nm := range names {
				c, _ := vp.V1Raw.Prefix.Sum([]byte(fmt.Sprintf("link %d of %q", i, names)))
				qp.ListEntry(la, qp.Map(3, func(ma datamodel.MapAssembler) {
					qp.MapEntry(ma, "Hash", qp.Link(cidlink.Link{Cid: c}))
					if nm != absent {
						qp.MapEntry(ma, "Name", qp.String(nm))
					}
					qp.MapEntry(ma, "Tsize", qp.Int(int64(i)))
				}))
			}
		}))
		if data != nil {
			qp.MapEntry(ma, "Data", qp.Bytes(data))
		}
	})
	if err != nil {
		t.Fatalf("harness: build dag-pb node for %q: %v", names, err)
	}
	return n
}

func label(names []string) string {
	s := ""
	for i, n := range names {
		if i > 0 {
			s += ","
		}
		if n == absent {
			s += "-"
		} else {
			s += fmt.Sprintf("%q", n)
		}
	}
	return "[" + s + "]"
}

func TestBounded(t *testing.T) {
	r := vp.New(t)
	defer r.Done()
	ty := pb.Data_Directory
	dirData, _ := gproto.Marshal(&pb.Data{Type: &ty})
	probes := []string{"", "a", "b", "c", "é", "a b", "00", "0A", "世界", "a/b", "Links", "0", "zz-none"}

	var lists [][]string
	alpha := []string{absent, "", "a", "b"}
	var gen func(prefix []string, left int)
	gen = func(prefix []string, left int) {
		lists = append(lists, append([]string(nil), prefix...))
		if left == 0 {
			return
		}
		for _, a := range alpha {
			gen(append(prefix, a), left-1)
		}
	}
	gen(nil, vp.Pick(4, 5))
	rng := vp.Rng(15)
	big := []string{absent, "", "a", "b", "é", "a b", "00", "0A", "世界"}
	for i := 0; i < vp.Pick(50, 2000); i++ {
		var l []string
		for k := rng.Intn(13); k > 0; k-- {
			l = append(l, big[rng.Intn(len(big))])
		}
		lists = append(lists, l)
	}
	ls := vp.NewStore().LS()
	for i, names := range lists {
		for _, view := range []struct {
			name string
			data []byte
		}{{"linkmap", nil}, {"directory", dirData}} {
			mem := buildPB(t, names, view.data)
			var buf bytes.Buffer
			if err := dagpb.Encode(mem, &buf); err != nil {
				t.Fatalf("harness: encode %s: %v", label(names), err)
			}
			nb := dagpb.Type.PBNode.NewBuilder()
			if err := dagpb.DecodeBytes(nb, buf.Bytes()); err != nil {
				t.Fatalf("harness: decode %s: %v", label(names), err)
			}
			for form, nd := range map[string]datamodel.Node{"memory": mem, "decoded": nb.Build()} {
				id := fmt.Sprintf("%s:%s,%s", view.name, label(names), form)
				rn, err := unixfsnode.Reify(ipld.LinkContext{}, nd, ls)
				if err != nil {
					r.Eval(id)
					r.Fail(id, "Reify: %v", err)
					continue
				}
				if i%97 == 5 && form == "memory" && view.name == "directory" {
					r.Sample(map[string]any{"case": id, "length": rn.Length()})
				}
				contract(r, id, rn, probes)
			}
		}
	}

	shardedSets := map[string][]string{"one": {"a"}, "collide": append(vp.Colliding(4, 21, rng), vp.Colliding(3, 12, rng)...), "rand": vp.Names(vp.Pick(200, 2000), rng)}
	for _, fanout := range vp.Pick([]int{8, 32, 256, 1024}, []int{8, 16, 32, 64, 128, 256, 512, 1024}) {
		for lbl, names := range shardedSets {
			st := vp.NewStore()
			var ents []dagpb.PBLink
			for i, n := range vp.Dedup(names) {
				c, _ := vp.V1Raw.Prefix.Sum([]byte(n))
				e, _ := builder.BuildUnixFSDirectoryEntry(n, int64(i), cidlink.Link{Cid: c})
				ents = append(ents, e)
			}
			root, _, err := builder.BuildUnixFSShardedDirectory(fanout, 0x22, ents, st.LS())
			if err != nil {
				t.Fatal(err)
			}
			nd, err := vp.Load(st.LS(), root)
			if err != nil {
				t.Fatal(err)
			}
			id := fmt.Sprintf("hamt:fanout=%d,%s", fanout, lbl)
			rn, err := unixfsnode.Reify(ipld.LinkContext{}, nd, st.LS())
			if err != nil {
				r.Eval(id)
				r.Fail(id, "Reify: %v", err)
				continue
			}
			contract(r, id, rn, append(append([]string{}, probes...), vp.Names(20, rand.New(rand.NewSource(1)))...))
		}
	}
}
