// C07 bounded stand-in: BuildUnixFSFile returns the CID and cumulative size boxo's balanced
// importer (raw leaves, CIDv1 sha2-256) returns for the same bytes, chunker and width.
//
// Bounds (quick | thorough): width W in {2,3,4} | {2,3,4,5} with EVERY chunk count n in 0..W^3+W;
// thorough adds the default width 174 with n in {1,2,173..176,348,349,30276,30277}. Chunker
// "size-4" | "size-4" and "size-1"; for each (W,n) two lengths: last chunk short (n*K-1 bytes)
// and full (n*K bytes).
//
// Content classes, each over the whole (W,n) range above:
//
//	random    bytes from VERIF_SEED, (almost) all chunks distinct     case id "W=<w>,n=<n>"
//	zeros     all-zero bytes: every full chunk is the same block      "W=<w>,n=<n>,content=zeros"
//	period<p> p in 1..4: chunk i is pattern[i mod p], the p patterns  "W=<w>,n=<n>,content=period<p>"
//	          pairwise different and not all-zero
//	halves    ceil(n/2) random chunks followed by the same chunks     "W=<w>,n=<n>,content=halves"
//	          again (cut to n chunks): identical intermediate subtrees
//
// The repetitive classes (n >= 1 only, the empty file is the same in every class) put the same
// link several times under ONE interior node (equal leaves, and equal subtrees at every level),
// which the random class practically never does; cumulative sizes count every occurrence.
// Chunker / length go into the detail; a case that fails for several of them prints ONE VP-FAIL
// line (first failing variant in full, the others listed). Oracle: boxo v0.24.0
// helpers.DagBuilderParams + balanced.Layout.
package c07

import (
	"bytes"
	"fmt"
	"strings"
	"testing"

	"github.com/ipfs/go-unixfsnode/data/builder"
	cidlink "github.com/ipld/go-ipld-prime/linking/cid"

	"replay/vp"
)

// class generates n chunks of k bytes each (the caller cuts a short tail off).
type class struct {
	name string // "" = random (the original case ids carry no content= part)
	gen  func(n, k int, salt int64) []byte
}

func periodic(p int) func(n, k int, salt int64) []byte {
	return func(n, k int, salt int64) []byte {
		pat := vp.Content(p*k, salt)
		pat[0] |= 1 // not the zeros class
		for j := 1; j < p; j++ {
			pat[j*k] = pat[0] + byte(2*j) // the p chunk patterns differ pairwise (also for k == 1)
		}
		out := make([]byte, 0, n*k)
		for i := 0; i < n; i++ {
			j := i % p
			out = append(out, pat[j*k:(j+1)*k]...)
		}
		return out
	}
}

var classes = []class{
	{"", func(n, k int, salt int64) []byte { return vp.Content(n*k, salt) }},
	{"zeros", func(n, k int, _ int64) []byte { return make([]byte, n*k) }},
	{"period1", periodic(1)},
	{"period2", periodic(2)},
	{"period3", periodic(3)},
	{"period4", periodic(4)},
	{"halves", func(n, k int, salt int64) []byte {
		h := vp.Content((n+1)/2*k, salt)
		return append(append([]byte(nil), h...), h...)[:n*k]
	}},
}

func TestBounded(t *testing.T) {
	r := vp.New(t)
	defer r.Done()
	saved := builder.DefaultLinksPerBlock
	defer func() { builder.DefaultLinksPerBlock = saved }()

	for _, w := range vp.Pick([]int{2, 3, 4}, []int{2, 3, 4, 5, 174}) {
		builder.DefaultLinksPerBlock = w
		var ns []int
		if w == 174 {
			ns = []int{1, 2, 173, 174, 175, 176, 348, 349, 30276, 30277}
		} else {
			for n := 0; n <= w*w*w+w; n++ {
				ns = append(ns, n)
			}
		}
		for _, n := range ns {
			for _, cl := range classes {
				id := fmt.Sprintf("W=%d,n=%d", w, n)
				if cl.name != "" {
					if n == 0 {
						continue
					}
					id += ",content=" + cl.name
				}
				var first string    // first failing variant, in full
				var others []string // further failing variants
				for _, k := range vp.Pick([]int{4}, []int{4, 1}) {
					for _, short := range []int{1, 0} {
						if short == 1 && (k == 1 || n == 0) {
							continue
						}
						size := n*k - short
						variant := fmt.Sprintf("size-%d,len=%d", k, size)
						r.Eval(id + "," + variant)
						content := cl.gen(n, k, int64(w*1000000+n*10+k+short))[:size]
						chunker := fmt.Sprintf("size-%d", k)
						st := vp.NewStore()
						l, sz, err := builder.BuildUnixFSFile(bytes.NewReader(content), chunker, st.LS())
						if err != nil {
							if first == "" {
								first = fmt.Sprintf("%s: build error %v", variant, err)
							} else {
								others = append(others, variant)
							}
							continue
						}
						ref, err := vp.NewBoxo().ImportFile(content, chunker, "balanced", w, true, 1)
						if err != nil {
							t.Fatalf("%s: boxo: %v", id, err)
						}
						rsz, err := ref.Size()
						if err != nil {
							t.Fatal(err)
						}
						got := l.(cidlink.Link).Cid
						if n == w*w+1 && short == 0 && (cl.name == "" || cl.name == "zeros" || cl.name == "halves") {
							r.Sample(map[string]any{"case": id, "variant": variant, "ours": got.String(), "ref": ref.Cid().String(), "size": sz, "refSize": rsz})
						}
						if !got.Equals(ref.Cid()) || sz != rsz {
							if first == "" {
								first = fmt.Sprintf("%s: builder %s size %d, boxo balanced %s size %d", variant, got, sz, ref.Cid(), rsz)
							} else {
								others = append(others, variant)
							}
						}
					}
				}
				switch {
				case first != "" && len(others) > 0:
					r.Fail(id, "%s [also differs for: %s]", first, strings.Join(others, "; "))
				case first != "":
					r.Fail(id, "%s", first)
				}
			}
		}
	}
}
