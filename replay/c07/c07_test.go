// C07 bounded stand-in: BuildUnixFSFile returns the CID and cumulative size boxo's balanced
// importer (raw leaves, CIDv1 sha2-256) returns for the same bytes, chunker and width.
//
// Bounds (quick | thorough): width W in {2,3,4} | {2,3,4,5} with EVERY chunk count n in 0..W^3+W;
// thorough adds the default width 174 with n in {1,2,173..176,348,349,30276,30277}. Chunker
// "size-4" | "size-4" and "size-1"; for each (W,n) two contents: last chunk short (n*K-1 bytes)
// and full (n*K bytes). Case ids are "W=<w>,n=<n>" (chunker / variant go into the detail).
// Content from VERIF_SEED. Oracle: boxo v0.24.0 helpers.DagBuilderParams + balanced.Layout.
package c07

import (
	"bytes"
	"fmt"
	"testing"

	"github.com/ipfs/go-unixfsnode/data/builder"
	cidlink "github.com/ipld/go-ipld-prime/linking/cid"

	"replay/vp"
)

func TestBounded(t *testing.T) {
	r := vp.New(t)
	defer r.Done()
	saved := builder.DefaultLinksPerBlock
	defer func() { builder.DefaultLinksPerBlock = saved }()

	for _, w := range vp.Pick([]int{2, 3, 4}, []int{2, 3, 4, 5, 174}) {
		builder.DefaultLinksPerBlock = w
		var ns []int
		if w == 174 {
			ns = []int{1, 2, 173, 174, 175, 176, 348, 349, 30276, 30277}
		} else {
			for n := 0; n <= w*w*w+w; n++ {
				ns = append(ns, n)
			}
		}
		for _, n := range ns {
			id := fmt.Sprintf("W=%d,n=%d", w, n)
			for _, k := range vp.Pick([]int{4}, []int{4, 1}) {
				for _, short := range []int{1, 0} {
					if short == 1 && (k == 1 || n == 0) {
						continue
					}
					size := n*k - short
					variant := fmt.Sprintf("size-%d,len=%d", k, size)
					r.Eval(id + "," + variant)
					content := vp.Content(size, int64(w*1000000+n*10+k+short))
					chunker := fmt.Sprintf("size-%d", k)
					st := vp.NewStore()
					l, sz, err := builder.BuildUnixFSFile(bytes.NewReader(content), chunker, st.LS())
					if err != nil {
						r.Fail(id, "%s: build error %v", variant, err)
						continue
					}
					ref, err := vp.NewBoxo().ImportFile(content, chunker, "balanced", w, true, 1)
					if err != nil {
						t.Fatalf("%s: boxo: %v", id, err)
					}
					rsz, err := ref.Size()
					if err != nil {
						t.Fatal(err)
					}
					got := l.(cidlink.Link).Cid
					if n == w*w+1 && short == 0 {
						r.Sample(map[string]any{"case": id, "variant": variant, "ours": got.String(), "ref": ref.Cid().String(), "size": sz, "refSize": rsz})
					}
					if !got.Equals(ref.Cid()) || sz != rsz {
						r.Fail(id, "%s: builder %s size %d, boxo balanced %s size %d", variant, got, sz, ref.Cid(), rsz)
					}
				}
			}
		}
	}
}
