// Gated schedules: systematic, deterministic interleaving exploration at storage loads.
//
// The scheduler-driven part of this harness (c17_test.go) finds data races, but a check-then-act
// atomicity violation that is NOT a data race (a mutex-guarded memo that is checked, left, and
// appended to after a block load) only shows under one particular interleaving around a block
// load, which the Go scheduler practically never produces on its own. Here the interleaving is
// forced: the link system's StorageReadOpener is wrapped by a gate that parks the calling
// operation at a chosen block request until the controller lets it go on. At any time exactly one
// operation runs, so every schedule has exactly one outcome.
//
// A schedule is a list of segments (actor, n): "let the actor run, serve n block loads, and park it
// at the next one" (n = end: run it to completion). For a pair of operations A and B on ONE shared
// reified node the schedules are
//
//	A i | B j | X end | Y end        i in 0..3 (and A's last load), j in 0..3, order XY in {AB, BA}
//	A i | B end | A end              (j=end)
//	A i | B j | X m | Y end | X end  thorough tier only, m in 1..2 ("order=A+1,B,A")
//
// and in the thorough tier triples A i | B j | C k | <every order of the parked ones>, i, j in 0..2,
// k in {0, 1, end}. A gate that is never reached (the operation finishes before its i-th load)
// makes the schedule "not applicable" (it coincides with one that has a smaller index or "end"); it
// is counted but not evaluated. When the running operation waits for something a parked one holds
// (seen in its goroutine state after about 1.5 ms if that is a lock, by a watchdog otherwise) the gate
// is opened, everything runs free and the case is still checked ("blocked"). After each schedule every operation's result is compared with the result the
// same operation gives alone on a fresh node, and every operation is then run again, sequentially,
// on the SAME shared node and compared again (a corrupted memo persists in the node).
//
// Subjects: hand-built multi-block file DAGs in the notation P<n> (dag-pb leaf with n inline bytes),
// R<n> (raw leaf), [..] (interior node), each "/BS" (BlockSizes recorded), "/noBS" (no BlockSizes: the
// size of a dag-pb child is found by loading it) or "/noBS+noFS" (no FileSize either); builder-made
// files; sharded directories at fanout 8 and 16 with at least 3 levels.
//
// Case names: gated:<subject>,A=<op>,B=<op>[,C=<op>],i=<i>,j=<j>[,k=<k>],order=<order>
package c17

import (
	"bytes"
	"context"
	"crypto/sha256"
	"fmt"
	"io"
	"math/rand"
	"runtime"
	"strconv"
	"strings"
	"sync"
	"sync/atomic"
	"testing"
	"time"

	"github.com/ipfs/go-unixfsnode"
	"github.com/ipfs/go-unixfsnode/data"
	"github.com/ipfs/go-unixfsnode/data/builder"
	dagpb "github.com/ipld/go-codec-dagpb"
	"github.com/ipld/go-ipld-prime"
	"github.com/ipld/go-ipld-prime/datamodel"
	"github.com/ipld/go-ipld-prime/linking"
	cidlink "github.com/ipld/go-ipld-prime/linking/cid"
	"github.com/ipld/go-ipld-prime/node/basicnode"

	"replay/vp"
)

// ---------------------------------------------------------------------------------------------
// the gate

const (
	gNotStarted = iota
	gRunning
	gParked
	gDone
)

const (
	evParked = iota
	evDone
)

type gEvent struct{ who, kind int }

// gOp is one operation on the shared node; run renders everything the caller can observe.
type gOp struct {
	name string
	run  func(n datamodel.Node) string
	want string // what the build inputs dictate ("" = not derived)
}

type gActor struct {
	idx    int
	op     *gOp
	state  int           // controller only
	budget int           // loads still served before parking, <0 = unlimited (gate.mu)
	loads  []string      // requested blocks (gate.mu)
	resume chan struct{} // controller -> parked actor
	result string        // written by the actor before its evDone
	goid   atomic.Int64  // the actor's goroutine, for lockWait
}

type gGate struct {
	mu     sync.Mutex
	st     *vp.Store
	open   bool    // nothing parks any more
	cur    *gActor // the one running operation; every request is its request
	events chan gEvent
}

func (g *gGate) openRead(_ linking.LinkContext, l datamodel.Link) (io.Reader, error) {
	g.mu.Lock()
	if a := g.cur; a != nil && !g.open {
		if a.budget == 0 {
			g.mu.Unlock()
			g.events <- gEvent{a.idx, evParked}
			<-a.resume
			g.mu.Lock()
		}
		if a.budget > 0 {
			a.budget--
		}
		a.loads = append(a.loads, vp.Short(l.String()))
	}
	g.mu.Unlock()
	b, ok := g.st.Raw(l)
	if !ok {
		return nil, fmt.Errorf("%w: %s not stored", vp.ErrGone, l)
	}
	return bytes.NewReader(b), nil
}

// gSeg: let actor who run, serve n loads and park it at the next (n < 0: run to completion).
type gSeg struct{ who, n int }

const (
	outRan     = iota
	outNA      // a gate was not reached
	outBlocked // watchdog: the running operation neither parked nor finished
	outHung    // operations did not finish even ungated
)

type gSubject struct {
	name      string
	st        *vp.Store
	root      datamodel.Link
	ops       []*gOp
	tripleOps []int // indices into ops used for triples

	ref   []string // per op: result alone on a fresh node
	loads []int    // per op: loads alone on a fresh (cold) node
}

type gStats struct {
	Subjects, Pairs, Triples                   int
	Schedules, NotApplicable, Pruned, Blocked  int
	PairSchedules, TripleSchedules, RefChecked int
}

type gExplorer struct {
	t        *testing.T
	r        *vp.Run
	stats    gStats
	watchdog time.Duration
	aborted  bool
}

func (e *gExplorer) reify(s *gSubject, g *gGate) datamodel.Node {
	ls := s.st.LS()
	ls.StorageReadOpener = g.openRead
	n, err := vp.Load(ls, s.root)
	if err != nil {
		e.t.Fatalf("%s: load root: %v", s.name, err)
	}
	rn, err := unixfsnode.Reify(ipld.LinkContext{Ctx: context.Background()}, n, ls)
	if err != nil {
		e.t.Fatalf("%s: reify: %v", s.name, err)
	}
	return rn
}

// curGoid is the id of the calling goroutine ("goroutine 12 [running]:").
func curGoid() int64 {
	var buf [64]byte
	f := strings.Fields(string(buf[:runtime.Stack(buf[:], false)]))
	if len(f) < 2 {
		return 0
	}
	id, _ := strconv.ParseInt(f[1], 10, 64)
	return id
}

var stackBuf = make([]byte, 1<<17) // controller only

// lockWait reports whether the goroutine is waiting for a mutex, a sync.Once or a semaphore. While
// a schedule is gated no other operation runs, so whoever holds what it waits for is parked.
func lockWait(id int64) bool {
	all := stackBuf[:runtime.Stack(stackBuf, true)]
	key := []byte(fmt.Sprintf("goroutine %d [", id))
	for off := 0; ; {
		i := bytes.Index(all[off:], key)
		if i < 0 {
			return false
		}
		i += off
		off = i + len(key)
		if i > 0 && all[i-1] != '\n' {
			continue
		}
		st := all[off:]
		return bytes.HasPrefix(st, []byte("sync.Mutex.Lock")) || bytes.HasPrefix(st, []byte("sync.RWMutex.")) || bytes.HasPrefix(st, []byte("semacquire"))
	}
}

func guarded(op *gOp, n datamodel.Node) (res string) {
	defer func() {
		if p := recover(); p != nil {
			res = fmt.Sprintf("panic: %v", p)
		}
	}()
	return op.run(n)
}

// execute runs one schedule on a fresh shared node. It returns the outcome, the index of the
// segment at which a gate was not reached (outNA), the concurrent results, the results of the
// sequential re-run on the same node and the load logs.
func (e *gExplorer) execute(s *gSubject, ops []*gOp, segs []gSeg) (out, naSeg int, conc, after []string, logs string) {
	g := &gGate{st: s.st, events: make(chan gEvent, 4*len(ops)+4)}
	node := e.reify(s, g)
	actors := make([]*gActor, len(ops))
	for i, op := range ops {
		actors[i] = &gActor{idx: i, op: op, resume: make(chan struct{}, 1)}
	}
	start := func(a *gActor) {
		a.state = gRunning
		go func() {
			defer func() { g.events <- gEvent{a.idx, evDone} }()
			a.goid.Store(curGoid())
			a.result = guarded(a.op, node)
		}()
	}
	// a fresh timer per wait: a reused one can deliver a stale tick after Stop+Reset
	wait := func(d time.Duration) (gEvent, bool) {
		select {
		case ev := <-g.events:
			return ev, true
		default:
		}
		timer := time.NewTimer(d)
		defer timer.Stop()
		select {
		case ev := <-g.events:
			return ev, true
		case <-timer.C:
			return gEvent{}, false
		}
	}

	out, naSeg = outRan, -1
	for si, sg := range segs {
		a := actors[sg.who]
		if a.state == gDone {
			if sg.n >= 0 {
				out, naSeg = outNA, si
				break
			}
			continue
		}
		g.mu.Lock()
		g.cur, a.budget = a, sg.n
		g.mu.Unlock()
		if a.state == gNotStarted {
			start(a)
		} else {
			a.state = gRunning
			a.resume <- struct{}{}
		}
		// wait for the actor to park or finish. An actor that waits for a lock a parked one holds is
		// recognised by its goroutine state within a few milliseconds; the watchdog covers the rest.
		var ev gEvent
		ok := false
		for tick, spent, inLock := 500*time.Microsecond, time.Duration(0), 0; ; {
			if ev, ok = wait(tick); ok {
				break
			}
			spent += tick
			if id := a.goid.Load(); id != 0 && lockWait(id) {
				inLock++
			} else {
				inLock = 0
			}
			if inLock >= 2 || spent >= e.watchdog {
				break
			}
			if tick < 50*time.Millisecond {
				tick *= 2
			}
		}
		if !ok {
			out = outBlocked
			break
		}
		if ev.kind == evParked {
			actors[ev.who].state = gParked
		} else {
			actors[ev.who].state = gDone
			if sg.n >= 0 {
				out, naSeg = outNA, si
				break
			}
		}
	}

	// let everything that is left finish, ungated
	g.mu.Lock()
	g.open, g.cur = true, nil
	g.mu.Unlock()
	pending := 0
	for _, a := range actors {
		switch a.state {
		case gParked:
			a.state = gRunning
			a.resume <- struct{}{}
			pending++
		case gNotStarted:
			start(a)
			pending++
		case gRunning:
			pending++
		}
	}
	for pending > 0 {
		ev, ok := wait(30 * time.Second)
		if !ok {
			return outHung, -1, nil, nil, ""
		}
		if ev.kind == evParked { // parked just before the gate was opened
			actors[ev.who].resume <- struct{}{}
			continue
		}
		actors[ev.who].state = gDone
		pending--
	}
	if out == outNA {
		return out, naSeg, nil, nil, ""
	}
	var lg []string
	for i, a := range actors {
		conc = append(conc, a.result)
		lg = append(lg, fmt.Sprintf("%c:%d", 'A'+i, len(a.loads)))
	}
	for _, op := range ops {
		after = append(after, guarded(op, node))
	}
	return out, -1, conc, after, strings.Join(lg, " ")
}

// alone runs every operation of the subject alone on a fresh node: reference results, load counts,
// and a check of the reference against the build inputs.
func (e *gExplorer) alone(s *gSubject) {
	for _, op := range s.ops {
		g := &gGate{st: s.st, events: make(chan gEvent, 4)}
		node := e.reify(s, g)
		a := &gActor{op: op, budget: -1, resume: make(chan struct{}, 1)}
		g.cur = a
		res := guarded(op, node)
		s.ref = append(s.ref, res)
		s.loads = append(s.loads, len(a.loads))
		id := fmt.Sprintf("gated-ref:%s,op=%s", s.name, op.name)
		e.r.Eval(id)
		e.stats.RefChecked++
		if op.want != "" && res != op.want {
			e.r.Fail(id, "alone on a fresh node: %s", diffStr(res, op.want))
		}
		// and a second time on the same node (warm), alone
		if again := guarded(op, node); again != res {
			e.r.Fail(id, "second sequential run on the same node: %s", diffStr(again, res))
		}
	}
}

func diffStr(got, want string) string {
	i := 0
	for i < len(got) && i < len(want) && got[i] == want[i] {
		i++
	}
	lo := i - 8
	if lo < 0 {
		lo = 0
	}
	cut := func(s string) string {
		if lo >= len(s) {
			return ""
		}
		s = s[lo:]
		if len(s) > 44 {
			s = s[:44] + ".."
		}
		return s
	}
	return fmt.Sprintf("got %q want %q (len %d/%d, differ at %d, shown from %d)", cut(got), cut(want), len(got), len(want), i, lo)
}

// check evaluates one applicable schedule.
func (e *gExplorer) check(s *gSubject, caseID string, idx []int, out int, conc, after []string, logs string) {
	e.r.Eval(caseID)
	e.stats.Schedules++
	if out == outBlocked {
		e.stats.Blocked++
	}
	var probs []string
	for k, oi := range idx {
		if conc[k] != s.ref[oi] {
			probs = append(probs, fmt.Sprintf("concurrent %c=%s: %s", 'A'+k, s.ops[oi].name, diffStr(conc[k], s.ref[oi])))
		}
	}
	for k, oi := range idx {
		if after[k] != s.ref[oi] {
			probs = append(probs, fmt.Sprintf("afterwards, sequentially on the same node, %s: %s", s.ops[oi].name, diffStr(after[k], s.ref[oi])))
		}
	}
	if len(probs) == 0 {
		return
	}
	note := ""
	if out == outBlocked {
		note = "[watchdog fired: ran ungated] "
	}
	e.r.Fail(caseID, "%s%d result(s) differ from the single-threaded result on a fresh node (loads %s): %s", note, len(probs), logs, strings.Join(probs, "; "))
}

func (e *gExplorer) run(s *gSubject, caseID string, idx []int, segs []gSeg) (out, naSeg int) {
	if e.aborted {
		return outHung, -1
	}
	ops := make([]*gOp, len(idx))
	for k, oi := range idx {
		ops[k] = s.ops[oi]
	}
	out, naSeg, conc, after, logs := e.execute(s, ops, segs)
	switch out {
	case outNA:
		e.stats.NotApplicable++
	case outHung:
		e.r.Eval(caseID)
		e.r.Fail(caseID, "operations did not finish within 30s after the gate was opened; gated exploration abandoned")
		e.aborted = true
	case outBlocked:
		if e.stats.Blocked >= 5 {
			e.watchdog = 100 * time.Millisecond
		}
		fallthrough
	default:
		e.check(s, caseID, idx, out, conc, after, logs)
	}
	return out, naSeg
}

// gIdx lists the load indices an operation with n loads is parked at: the first `limit` ones and
// its last one.
func gIdx(limit, n int) []int {
	var out []int
	for i := 0; i < limit && i < n; i++ {
		out = append(out, i)
	}
	if n > limit {
		out = append(out, n-1)
	}
	return out
}

func jName(j int) string {
	if j < 0 {
		return "end"
	}
	return strconv.Itoa(j)
}

// pairs explores every ordered pair of operations of the subject (A == B included).
func (e *gExplorer) pairs(s *gSubject) {
	limit := vp.Pick(4, 8)
	perOrder := vp.Pick(1, 3) // plain release, and in the thorough tier X+1 and X+2
	for ai := range s.ops {
		if s.loads[ai] == 0 {
			continue // A never loads: there is nothing to park it at
		}
		for bi := range s.ops {
			e.stats.Pairs++
			base := fmt.Sprintf("gated:%s,A=%s,B=%s", s.name, s.ops[ai].name, s.ops[bi].name)
			idx := []int{ai, bi}
			for _, i := range gIdx(limit, s.loads[ai]) {
				bDone := false // B finishes before its j-th load: larger j coincide with j=end
				for j := 0; j < limit; j++ {
					if bDone {
						e.stats.PairSchedules += 2 * perOrder
						e.stats.Pruned += 2 * perOrder
						continue
					}
					for oi, ord := range perms[2] {
						x, y := ord[0], ord[1]
						e.stats.PairSchedules += perOrder
						out, na := e.run(s, fmt.Sprintf("%s,i=%d,j=%d,order=%c%c", base, i, j, 'A'+x, 'A'+y), idx,
							[]gSeg{{0, i}, {1, j}, {x, -1}, {y, -1}})
						if out == outNA && na == 1 {
							bDone = true
							e.stats.PairSchedules += (1 - oi) * perOrder
							e.stats.Pruned += (2-oi)*perOrder - 1
							break
						}
						for m := 1; m < perOrder; m++ {
							out, _ := e.run(s, fmt.Sprintf("%s,i=%d,j=%d,order=%c+%d,%c,%c", base, i, j, 'A'+x, m, 'A'+y, 'A'+x), idx,
								[]gSeg{{0, i}, {1, j}, {x, m}, {y, -1}, {x, -1}})
							if out == outNA { // X finishes within m more loads: so it does within m+1
								e.stats.Pruned += perOrder - 1 - m
								break
							}
						}
					}
				}
				e.stats.PairSchedules++
				e.run(s, fmt.Sprintf("%s,i=%d,j=end,order=BA", base, i), idx, []gSeg{{0, i}, {1, -1}, {0, -1}})
			}
		}
	}
}

var perms = map[int][][]int{
	2: {{0, 1}, {1, 0}},
	3: {{0, 1, 2}, {0, 2, 1}, {1, 0, 2}, {1, 2, 0}, {2, 0, 1}, {2, 1, 0}},
}

// triples (thorough tier): A parks at i, B at j, C at k or runs to its end; then every release order.
func (e *gExplorer) triples(s *gSubject) {
	for _, ai := range s.tripleOps {
		if s.loads[ai] == 0 {
			continue
		}
		for _, bi := range s.tripleOps {
			for _, ci := range s.tripleOps {
				e.stats.Triples++
				base := fmt.Sprintf("gated:%s,A=%s,B=%s,C=%s", s.name, s.ops[ai].name, s.ops[bi].name, s.ops[ci].name)
				idx := []int{ai, bi, ci}
				for i := 0; i < 3 && i < s.loads[ai]; i++ {
					bDone := false
					for j := 0; j < 3 && !bDone; j++ {
						cDone := false
						for _, k := range []int{0, 1, -1} {
							if k >= 0 && cDone {
								e.stats.TripleSchedules += 6
								e.stats.Pruned += 6
								continue
							}
							orders := perms[3]
							if k < 0 {
								orders = perms[2] // C is done; A and B are parked
							}
							for oi, ord := range orders {
								e.stats.TripleSchedules++
								segs := []gSeg{{0, i}, {1, j}, {2, k}}
								on := ""
								for _, x := range ord {
									segs = append(segs, gSeg{x, -1})
									on += string(rune('A' + x))
								}
								if k < 0 {
									on = "C" + on
								}
								out, na := e.run(s, fmt.Sprintf("%s,i=%d,j=%d,k=%s,order=%s", base, i, j, jName(k), on), idx, segs)
								if out == outNA {
									rest := len(orders) - 1 - oi
									e.stats.TripleSchedules += rest
									e.stats.Pruned += rest
									if na == 1 {
										bDone = true // B finishes before its j-th load
									} else {
										cDone = true // C finishes before its k-th load
									}
									break
								}
							}
							if bDone {
								break
							}
						}
					}
				}
			}
		}
	}
}

// ---------------------------------------------------------------------------------------------
// file subjects

type fShape struct {
	kind byte // 'P', 'R', '['
	size int
	kids []*fShape
}

func parseFShape(t *testing.T, s string) *fShape {
	pos := 0
	var parse func() *fShape
	parse = func() *fShape {
		if pos >= len(s) {
			t.Fatalf("shape %q: unexpected end", s)
		}
		c := s[pos]
		pos++
		switch c {
		case 'P', 'R':
			st := pos
			for pos < len(s) && s[pos] >= '0' && s[pos] <= '9' {
				pos++
			}
			n, err := strconv.Atoi(s[st:pos])
			if err != nil || n <= 0 {
				t.Fatalf("shape %q: leaf without size at %d", s, st)
			}
			return &fShape{kind: c, size: n}
		case '[':
			n := &fShape{kind: '['}
			for {
				n.kids = append(n.kids, parse())
				if pos < len(s) && s[pos] == ',' {
					pos++
					continue
				}
				if pos < len(s) && s[pos] == ']' {
					pos++
					return n
				}
				t.Fatalf("shape %q: expected , or ] at %d", s, pos)
			}
		}
		t.Fatalf("shape %q: unexpected %q", s, c)
		return nil
	}
	n := parse()
	if pos != len(s) || n.kind != '[' {
		t.Fatalf("shape %q: malformed", s)
	}
	return n
}

type fBuilt struct {
	link          datamodel.Link
	bytes, stored uint64
}

type fBuilder struct {
	t       *testing.T
	st      *vp.Store
	ls      *ipld.LinkSystem
	bs, fs  bool
	seq     int
	content []byte
}

func (b *fBuilder) storePB(u data.UnixFSData, kids []fBuilt) (datamodel.Link, uint64) {
	nb := dagpb.Type.PBNode.NewBuilder()
	ma, err := nb.BeginMap(2)
	must(b.t, err)
	la, err := ma.AssembleEntry("Links")
	must(b.t, err)
	ll, err := la.BeginList(int64(len(kids)))
	must(b.t, err)
	for _, k := range kids {
		e, err := builder.BuildUnixFSDirectoryEntry("", int64(k.stored), k.link)
		must(b.t, err)
		must(b.t, ll.AssembleValue().AssignNode(e))
	}
	must(b.t, ll.Finish())
	must(b.t, ma.AssembleKey().AssignString("Data"))
	must(b.t, ma.AssembleValue().AssignBytes(data.EncodeUnixFSData(u)))
	must(b.t, ma.Finish())
	l, err := b.ls.Store(ipld.LinkContext{}, vp.V1, nb.Build())
	must(b.t, err)
	raw, _ := b.st.Raw(l)
	return l, uint64(len(raw))
}

func must(t *testing.T, err error) {
	if err != nil {
		t.Helper()
		t.Fatal(err)
	}
}

func (b *fBuilder) build(s *fShape) fBuilt {
	b.seq++
	switch s.kind {
	case 'P', 'R':
		chunk := vp.Content(s.size, 1700+int64(b.seq))
		b.content = append(b.content, chunk...)
		if s.kind == 'R' {
			l, err := b.ls.Store(ipld.LinkContext{}, vp.V1Raw, basicnode.NewBytes(chunk))
			must(b.t, err)
			return fBuilt{l, uint64(len(chunk)), uint64(len(chunk))}
		}
		u, err := builder.BuildUnixFS(func(ub *builder.Builder) {
			builder.Data(ub, chunk)
			builder.FileSize(ub, uint64(len(chunk)))
		})
		must(b.t, err)
		l, sz := b.storePB(u, nil)
		return fBuilt{l, uint64(len(chunk)), sz}
	}
	var kids []fBuilt
	var sizes []uint64
	var total, stored uint64
	for _, k := range s.kids {
		kb := b.build(k)
		kids = append(kids, kb)
		sizes = append(sizes, kb.bytes)
		total += kb.bytes
		stored += kb.stored
	}
	u, err := builder.BuildUnixFS(func(ub *builder.Builder) {
		if b.fs {
			builder.FileSize(ub, total)
		}
		if b.bs {
			builder.BlockSizes(ub, sizes)
		}
	})
	must(b.t, err)
	l, sz := b.storePB(u, kids)
	return fBuilt{l, total, stored + sz}
}

func renderBytes(b []byte, err error) string {
	if err != nil {
		return fmt.Sprintf("%x err=%v", b, err)
	}
	return fmt.Sprintf("%x", b)
}

func fileOp(name string, want string, f func(rs io.ReadSeeker) string) *gOp {
	return &gOp{name: name, want: want, run: func(n datamodel.Node) string {
		lb, ok := n.(datamodel.LargeBytesNode)
		if !ok {
			return fmt.Sprintf("%T is not a LargeBytesNode", n)
		}
		rs, err := lb.AsLargeBytes()
		if err != nil {
			return "AsLargeBytes: " + err.Error()
		}
		return f(rs)
	}}
}

func seekRead(off int64, whence int, full int) func(io.ReadSeeker) string {
	return func(rs io.ReadSeeker) string {
		p, err := rs.Seek(off, whence)
		if err != nil {
			return fmt.Sprintf("seek=%d err=%v", p, err)
		}
		if full > 0 {
			buf := make([]byte, full)
			n, err := io.ReadFull(rs, buf)
			return fmt.Sprintf("seek=%d ", p) + renderBytes(buf[:n], err)
		}
		b, err := io.ReadAll(rs)
		return fmt.Sprintf("seek=%d ", p) + renderBytes(b, err)
	}
}

// fileSubject derives the operations of a stored file from an independent walk over its blocks.
func fileSubject(t *testing.T, name string, st *vp.Store, root datamodel.Link, built []byte) *gSubject {
	content, spans, _, err := st.FileSpans(root)
	must(t, err)
	if built != nil && !bytes.Equal(content, built) {
		t.Fatalf("%s: stored content differs from the build input", name)
	}
	blk, _, err := st.Block(root)
	must(t, err)
	if len(blk.Links) < 2 {
		t.Fatalf("%s: root has %d links", name, len(blk.Links))
	}
	L := int64(len(content))
	var tops []vp.Span
	for _, k := range blk.Links {
		tops = append(tops, spans[k.Link().String()])
	}
	mid := func(s vp.Span) int64 { return int64(s.Lo + (s.Hi-s.Lo)/2) }
	m0, b1, m1, mL := mid(tops[0]), int64(tops[1].Lo), mid(tops[1]), mid(tops[len(tops)-1])
	full := int(min(6, L-b1))
	skip := b1
	if 3+skip > L {
		skip = L - 3
	}
	s := &gSubject{name: name, st: st, root: root}
	sk := func(off int64) *gOp {
		return fileOp(fmt.Sprintf("seek%d+read", off), fmt.Sprintf("seek=%d %x", off, content[off:]), seekRead(off, io.SeekStart, 0))
	}
	s.ops = []*gOp{
		fileOp("readall", fmt.Sprintf("%x", content), func(rs io.ReadSeeker) string { return renderBytes(io.ReadAll(rs)) }),
		sk(m0), sk(m1), sk(mL),
		fileOp(fmt.Sprintf("seek%d+readfull%d", b1, full), fmt.Sprintf("seek=%d %x", b1, content[b1:b1+int64(full)]), seekRead(b1, io.SeekStart, full)),
		fileOp("seekend", fmt.Sprintf("seek=%d ", L), seekRead(0, io.SeekEnd, 0)),
		fileOp(fmt.Sprintf("read3,skip%d,read", skip), fmt.Sprintf("%x|seek=%d %x", content[:3], 3+skip, content[3+skip:]), func(rs io.ReadSeeker) string {
			buf := make([]byte, 3)
			n, err := io.ReadFull(rs, buf)
			if err != nil {
				return renderBytes(buf[:n], err)
			}
			return fmt.Sprintf("%x|", buf) + seekRead(skip, io.SeekCurrent, 0)(rs)
		}),
	}
	// two top-level children: the middle one is the last one
	seen := map[string]bool{}
	var ops []*gOp
	for _, op := range s.ops {
		if !seen[op.name] {
			seen[op.name] = true
			ops = append(ops, op)
		}
	}
	s.ops = ops
	s.tripleOps = []int{0, 1, 2}
	return s
}

func handFile(t *testing.T, shape, variant string) *gSubject {
	st := vp.NewStore()
	b := &fBuilder{t: t, st: st, ls: st.LS(), bs: variant == "BS", fs: variant != "noBS+noFS"}
	root := b.build(parseFShape(t, shape))
	return fileSubject(t, fmt.Sprintf("file=%s/%s", shape, variant), st, root.link, b.content)
}

func builderFile(t *testing.T, chunker string, size int) *gSubject {
	st := vp.NewStore()
	content := vp.Content(size, 1717)
	l, _, err := builder.BuildUnixFSFile(bytes.NewReader(content), chunker, st.LS())
	must(t, err)
	return fileSubject(t, fmt.Sprintf("file=builder(%s,w%d,%dB)", chunker, builder.DefaultLinksPerBlock, size), st, l, content)
}

// ---------------------------------------------------------------------------------------------
// directory subjects

func dirSubject(t *testing.T, fanout, plain int, collBits uint) *gSubject {
	st := vp.NewStore()
	var names []string
	for i := 0; i < plain; i++ {
		names = append(names, fmt.Sprintf("entry-%03d", i))
	}
	coll := vp.Colliding(3, collBits, rand.New(rand.NewSource(int64(fanout))))
	names = append(names, coll...)
	want := map[string]string{}
	var ents []dagpb.PBLink
	for i, n := range names {
		c, _ := vp.V1Raw.Prefix.Sum([]byte(n))
		en, err := builder.BuildUnixFSDirectoryEntry(n, int64(i), cidlink.Link{Cid: c})
		must(t, err)
		ents = append(ents, en)
		want[n] = cidlink.Link{Cid: c}.String()
	}
	root, _, err := builder.BuildUnixFSShardedDirectory(fanout, 0x22, ents, st.LS())
	must(t, err)
	info, err := st.WalkHamt(root)
	must(t, err)
	if len(info.Entries) != len(names) {
		t.Fatalf("fanout %d: stored %d entries, want %d", fanout, len(info.Entries), len(names))
	}
	depth := func(n string) int {
		p, err := st.HamtPath(root, n)
		must(t, err)
		return len(p)
	}
	if d := depth(coll[0]); d < 2 {
		t.Fatalf("fanout %d: only %d levels", fanout, d+1)
	}
	shallow := names[0]
	for _, n := range names[:plain] {
		if depth(n) < depth(shallow) {
			shallow = n
		}
	}
	absent := ""
	for i := 0; i < 400; i++ {
		n := fmt.Sprintf("absent-%03d", i)
		if absent == "" || depth(n) > depth(absent) {
			absent = n
		}
	}
	lookup := func(label, name string) *gOp {
		w := "link=" + want[name]
		if want[name] == "" {
			w = "" // the error text is the library's
		}
		return &gOp{name: "lookup(" + label + ")", want: w, run: func(n datamodel.Node) string {
			v, err := n.LookupByString(name)
			if err != nil {
				return "err=" + err.Error()
			}
			l, err := v.AsLink()
			if err != nil || l == nil {
				return fmt.Sprintf("aslink=%v err=%v", l, err)
			}
			return "link=" + l.String()
		}}
	}
	digest := func(n int, h []byte, err error) string {
		if err != nil {
			return fmt.Sprintf("n=%d sha=%x err=%v", n, h[:8], err)
		}
		return fmt.Sprintf("n=%d sha=%x", n, h[:8])
	}
	hw := sha256.New()
	for _, n := range info.Order {
		fmt.Fprintf(hw, "%s=%s;", n, info.Entries[n])
		if info.Entries[n] != want[n] {
			t.Fatalf("fanout %d: stored link of %q differs", fanout, n)
		}
	}
	s := &gSubject{name: fmt.Sprintf("dir=fanout%d/%dentries/%dlevels", fanout, len(names), depth(coll[0])+1), st: st, root: root}
	s.ops = []*gOp{
		lookup("deep1", coll[0]),
		lookup("deep2", coll[1]),
		lookup("shallow", shallow),
		lookup("absent", absent),
		{name: "length", want: strconv.Itoa(len(names)), run: func(n datamodel.Node) string { return strconv.FormatInt(n.Length(), 10) }},
		{name: "iterate", want: digest(len(info.Order), hw.Sum(nil), nil), run: func(n datamodel.Node) string {
			h := sha256.New()
			it := n.MapIterator()
			cnt := 0
			for !it.Done() && cnt < len(names)+5 {
				k, v, err := it.Next()
				if err != nil {
					return digest(cnt, h.Sum(nil), err)
				}
				ks, _ := k.AsString()
				l, _ := v.AsLink()
				fmt.Fprintf(h, "%s=%v;", ks, l)
				cnt++
			}
			return digest(cnt, h.Sum(nil), nil)
		}},
	}
	s.tripleOps = []int{0, 3, 5}
	return s
}

// ---------------------------------------------------------------------------------------------

func runGated(t *testing.T, r *vp.Run) {
	began := time.Now()
	e := &gExplorer{t: t, r: r, watchdog: time.Second}
	subjects := []*gSubject{
		handFile(t, "[P10,P20,P30]", "BS"),
		handFile(t, "[P10,P20,P30]", "noBS"),
		handFile(t, "[P10,P20,P30]", "noBS+noFS"),
		handFile(t, "[P10,R20,P30]", "noBS"),
		handFile(t, "[P7,[P5,P9],P11]", "noBS"),
		handFile(t, "[P7,[P5,P9],P11]", "BS"),
		handFile(t, "[[P4,P6],[P3,P8,P5]]", "noBS"),
		handFile(t, "[P10,P20,P30,P40]", "noBS"),
		builderFile(t, "size-4", 27),
		dirSubject(t, 8, 40, 9),
		dirSubject(t, 16, 60, 12),
	}
	if vp.Thorough() {
		subjects = append(subjects,
			handFile(t, "[P1,P2,P3,P4,P5,P6]", "noBS"),
			handFile(t, "[R5,P10,R5,P20]", "noBS"),
			handFile(t, "[[P4,P6],[P3,P8,P5]]", "noBS+noFS"),
			handFile(t, "[P10,[P5,[P3,P4]],P8]", "noBS"),
			handFile(t, "[P10,[P5,[P3,P4]],P8]", "BS"),
			builderFile(t, "size-4", 83),
			builderFile(t, "size-8", 50),
			dirSubject(t, 8, 100, 12),
			dirSubject(t, 16, 200, 16),
		)
	}
	var names []string
	for _, s := range subjects {
		e.stats.Subjects++
		t0, n0 := time.Now(), e.stats.Schedules
		e.alone(s)
		e.pairs(s)
		if vp.Thorough() {
			e.triples(s)
		}
		names = append(names, fmt.Sprintf("%s (%d schedules, %.1fs)", s.name, e.stats.Schedules-n0, time.Since(t0).Seconds()))
		if e.aborted {
			break
		}
	}
	r.Sample(map[string]any{"gated": e.stats, "seconds": time.Since(began).Seconds()})
	t.Logf("gated schedules: %+v in %.1fs; subjects: %s", e.stats, time.Since(began).Seconds(), strings.Join(names, "; "))
}
