// C17 bounded stand-in (meant to run under -race): concurrent use of shared reified nodes.
//
// Bounds (quick | thorough): 3 | 25 rounds; each round reifies ONE sharded directory (fanout 16,
// 1200 | 3000 entries incl. colliding names, cold cache) and ONE multi-block file node (width 2,
// size-4, 41 chunks) and lets 8 | 32 goroutines run 40 | 120 random operations each (VERIF_SEED):
// member / non-member lookups (LookupByString, LookupByNode), full iteration, Length(),
// AsLargeBytes + full read, AsLargeBytes + Seek + partial read, AsBytes. Every result must equal
// the single-threaded answer derived from the build inputs (entry map, content bytes).
//
// Before that, gated schedules (gated_test.go): pairs (thorough: also triples) of operations on one
// shared node are interleaved deterministically at block loads (9 file DAGs + 2 sharded directories |
// 16 + 4; park indices 0..3 + last | 0..7 + last), each result compared with the single-threaded
// result on a fresh node, during and after the concurrent phase.
package c17

import (
	"bytes"
	"context"
	"fmt"
	"io"
	"math/rand"
	"sync"
	"testing"

	"github.com/ipfs/go-unixfsnode"
	"github.com/ipfs/go-unixfsnode/data/builder"
	dagpb "github.com/ipld/go-codec-dagpb"
	"github.com/ipld/go-ipld-prime"
	"github.com/ipld/go-ipld-prime/datamodel"
	cidlink "github.com/ipld/go-ipld-prime/linking/cid"
	"github.com/ipld/go-ipld-prime/node/basicnode"

	"replay/vp"
)

func TestBounded(t *testing.T) {
	r := vp.New(t)
	defer r.Done()
	saved := builder.DefaultLinksPerBlock
	builder.DefaultLinksPerBlock = 2
	defer func() { builder.DefaultLinksPerBlock = saved }()
	rng := vp.Rng(17)

	runGated(t, r)

	names := vp.Dedup(append(vp.Names(vp.Pick(1200, 3000), rng), append(vp.Colliding(4, 21, rng), vp.Colliding(5, 9, rng)...)...))
	want := map[string]string{}
	st := vp.NewStore()
	var ents []dagpb.PBLink
	for i, n := range names {
		c, _ := vp.V1Raw.Prefix.Sum([]byte(n))
		e, _ := builder.BuildUnixFSDirectoryEntry(n, int64(i), cidlink.Link{Cid: c})
		ents = append(ents, e)
		want[n] = cidlink.Link{Cid: c}.String()
	}
	dl, _, err := builder.BuildUnixFSShardedDirectory(16, 0x22, ents, st.LS())
	if err != nil {
		t.Fatal(err)
	}
	content := vp.Content(41*4-1, 17)
	fl, _, err := builder.BuildUnixFSFile(bytes.NewReader(content), "size-4", st.LS())
	if err != nil {
		t.Fatal(err)
	}
	var non []string
	for _, n := range vp.Names(200, rng) {
		if _, in := want[n]; !in {
			non = append(non, n)
		}
	}
	r.Sample(map[string]any{"dir": dl.String(), "entries": len(names), "file": fl.String(), "fileLen": len(content), "goroutines": vp.Pick(8, 32)})

	for round := 0; round < vp.Pick(3, 25); round++ {
		ls := st.LS()
		dn, err := vp.Load(ls, dl)
		if err != nil {
			t.Fatal(err)
		}
		fn, err := vp.Load(ls, fl)
		if err != nil {
			t.Fatal(err)
		}
		ctx := ipld.LinkContext{Ctx: context.Background()}
		dir, err := unixfsnode.Reify(ctx, dn, ls)
		if err != nil {
			t.Fatal(err)
		}
		fnode, err := unixfsnode.Reify(ctx, fn, ls)
		if err != nil {
			t.Fatal(err)
		}
		lb, ok := fnode.(datamodel.LargeBytesNode)
		if !ok {
			t.Fatalf("file node %T is not a LargeBytesNode", fnode)
		}
		var wg sync.WaitGroup
		for g := 0; g < vp.Pick(8, 32); g++ {
			wg.Add(1)
			go func(g int, grng *rand.Rand) {
				defer wg.Done()
				for op := 0; op < vp.Pick(40, 120); op++ {
					kind := grng.Intn(10)
					id := fmt.Sprintf("round=%d,g=%d,op=%d,kind=%d", round, g, op, kind)
					r.Eval(id)
					r.Guard(id, func() {
						switch kind {
						case 0, 1, 2:
							n := names[grng.Intn(len(names))]
							var v datamodel.Node
							var err error
							if kind == 2 {
								v, err = dir.LookupByNode(basicnode.NewString(n))
							} else {
								v, err = dir.LookupByString(n)
							}
							if err != nil {
								r.Fail(id, "lookup %q: %v", n, err)
							} else if l, _ := v.AsLink(); l == nil || l.String() != want[n] {
								r.Fail(id, "lookup %q: link %v, want %s", n, l, want[n])
							}
						case 3:
							n := non[grng.Intn(len(non))]
							if v, err := dir.LookupByString(n); err == nil {
								r.Fail(id, "non-member %q found: %v", n, v)
							}
						case 4:
							if got := dir.Length(); got != int64(len(names)) {
								r.Fail(id, "Length()=%d, want %d", got, len(names))
							}
						case 5:
							seen := map[string]int{}
							it := dir.MapIterator()
							for steps := 0; !it.Done() && steps < len(names)+5; steps++ {
								k, v, err := it.Next()
								if err != nil {
									r.Fail(id, "iteration: %v", err)
									return
								}
								ks, _ := k.AsString()
								seen[ks]++
								if l, _ := v.AsLink(); l == nil || l.String() != want[ks] {
									r.Fail(id, "iteration %q: link %v", ks, l)
								}
							}
							if len(seen) != len(names) {
								r.Fail(id, "iteration yielded %d distinct names, want %d", len(seen), len(names))
							}
							for n, c := range seen {
								if c != 1 {
									r.Fail(id, "iteration yielded %q %d times", n, c)
								}
							}
						case 6:
							rd, err := lb.AsLargeBytes()
							if err != nil {
								r.Fail(id, "AsLargeBytes: %v", err)
								return
							}
							got, err := io.ReadAll(rd)
							if err != nil || !bytes.Equal(got, content) {
								r.Fail(id, "full read: %d bytes err=%v", len(got), err)
							}
						case 7, 8:
							rd, err := lb.AsLargeBytes()
							if err != nil {
								r.Fail(id, "AsLargeBytes: %v", err)
								return
							}
							a := grng.Intn(len(content))
							b := a + 1 + grng.Intn(len(content)-a)
							if p, err := rd.Seek(int64(a), io.SeekStart); err != nil || p != int64(a) {
								r.Fail(id, "Seek(%d)=%d,%v", a, p, err)
								return
							}
							buf := make([]byte, b-a)
							if _, err := io.ReadFull(rd, buf); err != nil || !bytes.Equal(buf, content[a:b]) {
								r.Fail(id, "read [%d,%d): %x err=%v, want %x", a, b, buf, err, content[a:b])
							}
							if end, err := rd.Seek(0, io.SeekEnd); err != nil || end != int64(len(content)) {
								r.Fail(id, "Seek(0,End)=%d,%v", end, err)
							}
						case 9:
							got, err := fnode.AsBytes()
							if err != nil || !bytes.Equal(got, content) {
								r.Fail(id, "AsBytes: %d bytes err=%v", len(got), err)
							}
						}
					})
				}
			}(g, rand.New(rand.NewSource(vp.Seed()*7919+int64(round*1000+g))))
		}
		wg.Wait()
	}
}
