package c18

// Symlinks with long targets. The symlinks of the main test all have targets shorter than 30
// bytes. A Linux symlink target may be up to PATH_MAX-1 = 4095 bytes long (only each COMPONENT of it
// is limited to NAME_MAX = 255), and BuildUnixFSSymlink itself takes any string, so an importer or
// builder that caps the target at 255 bytes - or anywhere else - loses legal trees.
//
//	tree:symlink-len=<n>   n in symlinkLens = {1,2,100,254,255,256,257,300,1000,4000,4095}: a temp
//	                       tree
//	                         ln            -> target(n)
//	                         other         -> a second, different target of n bytes
//	                         file          (3 bytes)
//	                         sub/ln        -> a third target of n bytes
//	                         sub/file      (1 byte)
//	                       imported with BuildUnixFSRecursive: the import succeeds and the DAG,
//	                       walked by verify, has exactly these names, each symlink block a UnixFS
//	                       Symlink whose Data is the target text byte for byte.
//	tree:symlink-all       one directory holding a symlink per length in symlinkLens, and the same
//	                       again one level down.
//	tree:symlink-root-len=<n>  n in {255,256,4095}: the import root itself is the symlink.
//	symlink-direct:len=<n> n in {1,255,256,5000,70000}: BuildUnixFSSymlink(target) directly (no file
//	                       system, so no PATH_MAX); the stored block read back (a) with protowire +
//	                       gogo unixfs_pb, (b) through the library's own dag-pb / UnixFS decoders
//	                       and Reify: type Symlink, Data == target, no links; the returned size is
//	                       the stored block's length.
//
// Targets are relative paths built from components of at most 100 bytes; they dangle, which
// symlink(2) and the importer (which must not follow links) do not mind.

import (
	"fmt"
	"path/filepath"
	"strings"

	upb "github.com/ipfs/boxo/ipld/unixfs/pb"
	"github.com/ipfs/go-unixfsnode/data"
	"github.com/ipfs/go-unixfsnode/data/builder"
	"testing"

	"replay/vp"
)

var symlinkLens = []int{1, 2, 100, 254, 255, 256, 257, 300, 1000, 4000, 4095}

var symlinkRootLens = []int{255, 256, 4095}

var symlinkDirectLens = []int{1, 255, 256, 5000, 70000}

// longTarget returns a relative path of exactly n bytes whose components are at most 100 bytes
// long; different salts give different texts of the same length.
func longTarget(n, salt int) string {
	const alphabet = "abcdefghijklmnopqrstuvwxyz0123456789-_."
	var sb strings.Builder
	comp := 0
	for i := 0; sb.Len() < n; i++ {
		if comp == 100 && sb.Len() < n-1 {
			sb.WriteByte('/')
			comp = 0
			continue
		}
		c := alphabet[(i*7+salt*11+i/len(alphabet))%len(alphabet)]
		if c == '.' && comp < 2 { // never "." or ".." as a component: keep the text opaque
			c = 'd'
		}
		sb.WriteByte(c)
		comp++
	}
	return sb.String()
}

func symlinkTrees(t *testing.T, r *vp.Run, base string) {
	type tcase struct {
		name string
		e    *ent
	}
	var cases []tcase
	all, allSub := map[string]*ent{}, map[string]*ent{}
	for i, n := range symlinkLens {
		t1, t2, t3 := longTarget(n, 3*i), longTarget(n, 3*i+1), longTarget(n, 3*i+2)
		if len(t1) != n || len(t2) != n || len(t3) != n {
			t.Fatalf("harness: longTarget(%d) has lengths %d %d %d", n, len(t1), len(t2), len(t3))
		}
		cases = append(cases, tcase{fmt.Sprintf("symlink-len=%d", n), dir(map[string]*ent{
			"ln": link(t1), "other": link(t2), "file": file([]byte("abc")),
			"sub": dir(map[string]*ent{"ln": link(t3), "file": file([]byte("x"))}),
		})})
		all[fmt.Sprintf("ln-%d", n)] = link(t1)
		allSub[fmt.Sprintf("ln-%d", n)] = link(t3)
	}
	all["sub"] = dir(allSub)
	cases = append(cases, tcase{"symlink-all", dir(all)})
	for _, n := range symlinkRootLens {
		cases = append(cases, tcase{fmt.Sprintf("symlink-root-len=%d", n), link(longTarget(n, 100+n))})
	}

	for _, c := range cases {
		root := filepath.Join(base, c.name)
		c.e.write(t, root)
		id := "tree:" + c.name
		r.Eval(id)
		st := vp.NewStore()
		ls := st.LS()
		r.Guard(id, func() {
			l, _, err := builder.BuildUnixFSRecursive(root, ls)
			if err != nil {
				r.Fail(id, "import failed: %v", err)
				return
			}
			if l == nil {
				r.Fail(id, "import returned no link and no error")
				return
			}
			verify(r, id, "", st, ls, l, c.e)
		})
	}

	for _, n := range symlinkDirectLens {
		id := fmt.Sprintf("symlink-direct:len=%d", n)
		target := longTarget(n, 7)
		r.Eval(id)
		st := vp.NewStore()
		ls := st.LS()
		r.Guard(id, func() {
			l, sz, err := builder.BuildUnixFSSymlink(target, ls)
			if err != nil {
				r.Fail(id, "BuildUnixFSSymlink(%d-byte target) failed: %v", n, err)
				return
			}
			if l == nil {
				r.Fail(id, "BuildUnixFSSymlink returned no link and no error")
				return
			}
			raw, ok := st.Raw(l)
			if !ok {
				r.Fail(id, "returned link %s is not stored", l)
				return
			}
			if sz != uint64(len(raw)) {
				r.Fail(id, "returned size %d, stored block has %d bytes", sz, len(raw))
			}
			// (a) independent decoding, kind after Reify
			verify(r, id, "", st, ls, l, link(target))
			// (b) the library's own decoders
			nd, err := vp.Load(ls, l)
			if err != nil {
				r.Fail(id, "load: %v", err)
				return
			}
			dn, err := nd.LookupByString("Data")
			if err != nil {
				r.Fail(id, "stored node has no Data: %v", err)
				return
			}
			db, err := dn.AsBytes()
			if err != nil {
				r.Fail(id, "Data not bytes: %v", err)
				return
			}
			u, err := data.DecodeUnixFSData(db)
			if err != nil {
				r.Fail(id, "DecodeUnixFSData: %v", err)
				return
			}
			if ty := u.FieldDataType().Int(); ty != int64(upb.Data_Symlink) {
				r.Fail(id, "library reads type %d, want Symlink (%d)", ty, upb.Data_Symlink)
			}
			if !u.FieldData().Exists() {
				r.Fail(id, "library reads no Data in the UnixFS message")
			} else if got := string(u.FieldData().Must().Bytes()); got != target {
				r.Fail(id, "library reads a target of %d bytes (%.40q...), want the %d bytes given", len(got), got, n)
			}
			if ll, err := nd.LookupByString("Links"); err != nil || ll.Length() != 0 {
				r.Fail(id, "Links: %v entries (err=%v), want none", ll, err)
			}
		})
	}
}
