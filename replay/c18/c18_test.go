// C18 bounded stand-in: BuildUnixFSRecursive imports an on-disk tree faithfully.
//
// Bounds (quick | thorough): a fixed tree (nested and empty directories, unicode / space / dot
// names, empty file, 1-byte file, 600001-byte multi-chunk file, relative, absolute, dangling and
// directory symlinks) plus 25 | 400 random trees (VERIF_SEED; depth <= 3, 1..6 entries per directory,
// file sizes {0,1,1000,262144,262145}); roots that are a single regular file and a single symlink;
// in thorough a directory of 1300 entries with 200-character names (crosses the 256 KiB auto-shard
// estimate); symlinks with targets of 1..4095 bytes in plain and nested directories and as the import
// root, and BuildUnixFSSymlink called directly with targets of up to 70000 bytes (symlink_test.go:
// "tree:symlink-len=<n>", "tree:symlink-all", "tree:symlink-root-len=<n>", "symlink-direct:len=<n>");
// rejected inputs: a tree containing a fifo (at the root level and nested), and the
// character device /dev/null.
// The returned DAG is walked back through unixfsnode.Reify: every directory lists exactly the
// created names, every file's bytes equal what was written, every symlink block is a UnixFS
// Symlink (read with gogo unixfs_pb from the stored bytes) whose Data is the link text.
package c18

import (
	"bytes"
	"fmt"
	"math/rand"
	"os"
	"path/filepath"
	"sort"
	"strings"
	"syscall"
	"testing"

	upb "github.com/ipfs/boxo/ipld/unixfs/pb"
	"github.com/ipfs/go-unixfsnode"
	"github.com/ipfs/go-unixfsnode/data/builder"
	"github.com/ipld/go-ipld-prime"
	"github.com/ipld/go-ipld-prime/datamodel"

	"replay/vp"
)

type ent struct {
	kind     byte // 'd', 'f', 'l'
	content  []byte
	target   string
	children map[string]*ent
}

func (e *ent) write(t *testing.T, path string) {
	var err error
	switch e.kind {
	case 'd':
		if err = os.MkdirAll(path, 0o755); err == nil {
			for n, c := range e.children {
				c.write(t, filepath.Join(path, n))
			}
		}
	case 'f':
		err = os.WriteFile(path, e.content, 0o644)
	case 'l':
		err = os.Symlink(e.target, path)
	}
	if err != nil {
		t.Fatalf("harness: %v", err)
	}
}

func (e *ent) count() int {
	n := 1
	for _, c := range e.children {
		n += c.count()
	}
	return n
}

// verify walks the DAG at l against the model.
func verify(r *vp.Run, id, path string, st *vp.Store, ls *ipld.LinkSystem, l datamodel.Link, e *ent) {
	r.Eval("")
	nd, err := vp.Load(ls, l)
	if err != nil {
		r.Fail(id, "%s: load %s: %v", path, l, err)
		return
	}
	rn, err := unixfsnode.Reify(ipld.LinkContext{}, nd, ls)
	if err != nil {
		r.Fail(id, "%s: Reify: %v", path, err)
		return
	}
	switch e.kind {
	case 'f':
		if rn.Kind() != datamodel.Kind_Bytes {
			r.Fail(id, "%s: regular file became kind %v", path, rn.Kind())
			return
		}
		got, err := rn.AsBytes()
		if err != nil || !bytes.Equal(got, e.content) {
			r.Fail(id, "%s: reads back %d bytes (err=%v), %d on disk", path, len(got), err, len(e.content))
		}
	case 'l':
		b, _, err := st.Block(l)
		if err != nil {
			r.Fail(id, "%s: symlink block: %v", path, err)
			return
		}
		u, err := b.UnixFS()
		if err != nil || u.GetType() != upb.Data_Symlink || string(u.Data) != e.target || len(b.Links) != 0 {
			r.Fail(id, "%s: symlink to %q became type=%v data=%q links=%d err=%v", path, e.target, u.GetType(), u.GetData(), len(b.Links), err)
		}
		if rn.Kind() != datamodel.Kind_Map || rn.Length() != 0 {
			r.Fail(id, "%s: reified symlink is kind %v with %d entries", path, rn.Kind(), rn.Length())
		}
	case 'd':
		if rn.Kind() != datamodel.Kind_Map {
			r.Fail(id, "%s: directory became kind %v", path, rn.Kind())
			return
		}
		if rn.Length() != int64(len(e.children)) {
			r.Fail(id, "%s: Length()=%d, %d names on disk", path, rn.Length(), len(e.children))
		}
		var got, want []string
		it := rn.MapIterator()
		for steps := 0; !it.Done() && steps < len(e.children)+3; steps++ {
			k, v, err := it.Next()
			if err != nil {
				r.Fail(id, "%s: iteration: %v", path, err)
				return
			}
			ks, _ := k.AsString()
			got = append(got, ks)
			c, ok := e.children[ks]
			if !ok {
				continue
			}
			cl, err := v.AsLink()
			if err != nil {
				r.Fail(id, "%s/%s: not a link: %v", path, ks, err)
				continue
			}
			if lv, err := rn.LookupByString(ks); err != nil {
				r.Fail(id, "%s/%s: listed but lookup fails: %v", path, ks, err)
			} else if ll, _ := lv.AsLink(); ll == nil || ll.String() != cl.String() {
				r.Fail(id, "%s/%s: lookup gives %v, iteration %v", path, ks, ll, cl)
			}
			verify(r, id, path+"/"+ks, st, ls, cl, c)
		}
		for n := range e.children {
			want = append(want, n)
		}
		sort.Strings(got)
		sort.Strings(want)
		if strings.Join(got, "\x00") != strings.Join(want, "\x00") {
			r.Fail(id, "%s: lists %q, on disk %q", path, got, want)
		}
	}
}

var pool = []string{"a", "b c", "é", "世界", "00", ".hidden", "x y z.txt", "ü-ñ", "0A1", "README", "caf\xe8.txt", "caf\xe9.txt", "na\xefve", "\xff\xfe"}

func gen(rng *rand.Rand, depth int, salt *int64) *ent {
	e := &ent{kind: 'd', children: map[string]*ent{}}
	perm := rng.Perm(len(pool))
	for i := 1 + rng.Intn(6); i > 0; i-- {
		var c *ent
		switch k := rng.Intn(10); {
		case k < 3 && depth > 1:
			c = gen(rng, depth-1, salt)
		case k < 7:
			*salt++
			sizes := []int{0, 1, 1000, 1000, 1000, 262144, 262145}
			c = &ent{kind: 'f', content: vp.Content(sizes[rng.Intn(len(sizes))], *salt)}
		default:
			targets := []string{pool[rng.Intn(len(pool))], "../nowhere", "/etc/hostname", ".", "a/b/../c", "é 世界"}
			c = &ent{kind: 'l', target: targets[rng.Intn(len(targets))]}
		}
		e.children[pool[perm[i]]] = c
	}
	return e
}

func file(b []byte) *ent         { return &ent{kind: 'f', content: b} }
func link(t string) *ent         { return &ent{kind: 'l', target: t} }
func dir(m map[string]*ent) *ent { return &ent{kind: 'd', children: m} }

func TestBounded(t *testing.T) {
	r := vp.New(t)
	defer r.Done()
	base := t.TempDir()
	rng := vp.Rng(18)
	var salt int64

	trees := map[string]*ent{
		"fixed": dir(map[string]*ent{
			"sub dir": dir(map[string]*ent{"empty": dir(nil), "é.txt": file([]byte("hi")), "deeper": dir(map[string]*ent{"世界": file([]byte{0}), "up": link("../..")})}),
			"zero":    file(nil), "big": file(vp.Content(600001, 1)), "dangling": link("../nowhere"), "dirlink": link("sub dir"),
			"abs": link("/etc/passwd"), "rel": link("sub dir/é.txt"), ".dot": file([]byte("x")),
			// names that are not valid UTF-8 (legal on Linux; os.ReadDir returns them byte for byte)
			"caf\xe8.txt": file([]byte("e-grave")), "caf\xe9.txt": file([]byte("e-acute")), "latin1 \xfc dir": dir(map[string]*ent{"\xe4": file([]byte("a"))}),
		}),
		"emptyroot": dir(nil),
		"fileroot":  file(vp.Content(1000, 2)),
		"linkroot":  link("somewhere/else"),
	}
	order := []string{"fixed", "emptyroot", "fileroot", "linkroot"}
	for i := 0; i < vp.Pick(25, 400); i++ {
		k := fmt.Sprintf("random#%d", i)
		trees[k] = gen(rng, 3, &salt)
		order = append(order, k)
	}
	{
		// a directory large enough to be sharded automatically, with names up to NAME_MAX (255 bytes:
		// inside a shard the stored link name is the bucket prefix plus the name, so it is longer)
		m := map[string]*ent{}
		for i := 0; i < 1300; i++ {
			m[fmt.Sprintf("%s-%04d", strings.Repeat("n", 195), i)] = file([]byte{byte(i)})
		}
		for i, n := range []int{253, 254, 255, 255} {
			m[fmt.Sprintf("%s%d", strings.Repeat("L", n-1), i)] = file([]byte{byte(n)})
		}
		trees["autoshard"] = dir(map[string]*ent{"large": dir(m), "small": file([]byte("s"))})
		order = append(order, "autoshard")
	}
	for _, name := range order {
		e := trees[name]
		root := filepath.Join(base, name)
		e.write(t, root)
		id := "tree:" + name
		r.Eval(id)
		st := vp.NewStore()
		ls := st.LS()
		r.Guard(id, func() {
			l, _, err := builder.BuildUnixFSRecursive(root, ls)
			if err != nil {
				r.Fail(id, "import failed: %v", err)
				return
			}
			r.Sample(map[string]any{"case": id, "nodes": e.count(), "root": l.String(), "blocks": st.Len()})
			if name == "autoshard" {
				cl, _ := func() (datamodel.Link, error) {
					nd, _ := vp.Load(ls, l)
					rn, _ := unixfsnode.Reify(ipld.LinkContext{}, nd, ls)
					v, err := rn.LookupByString("large")
					if err != nil {
						return nil, err
					}
					return v.AsLink()
				}()
				if b, _, err := st.Block(cl); err != nil {
					t.Fatalf("harness: %v", err)
				} else if u, _ := b.UnixFS(); u.GetType() != upb.Data_HAMTShard {
					t.Fatalf("harness: the 1300-entry directory was not auto-sharded (type %v)", u.GetType())
				}
			}
			verify(r, id, "", st, ls, l, e)
		})
	}

	symlinkTrees(t, r, base)

	// rejected inputs
	reject := func(id, root string) {
		r.Eval(id)
		r.Guard(id, func() {
			l, _, err := builder.BuildUnixFSRecursive(root, vp.NewStore().LS())
			if err == nil {
				r.Fail(id, "import of a tree with a non-regular file succeeded: %v", l)
			} else if l != nil {
				r.Fail(id, "import returned link %v together with error %q", l, err)
			}
		})
	}
	f1 := filepath.Join(base, "fifo-top")
	dir(map[string]*ent{"ok": file([]byte("x"))}).write(t, f1)
	if err := syscall.Mkfifo(filepath.Join(f1, "pipe"), 0o644); err != nil {
		t.Fatalf("harness: mkfifo: %v", err)
	}
	reject("reject:fifo-top", f1)
	f2 := filepath.Join(base, "fifo-nested")
	dir(map[string]*ent{"a": dir(map[string]*ent{"b": dir(map[string]*ent{"f": file([]byte("x"))})}), "z": file(nil)}).write(t, f2)
	if err := syscall.Mkfifo(filepath.Join(f2, "a", "b", "pipe"), 0o644); err != nil {
		t.Fatalf("harness: mkfifo: %v", err)
	}
	reject("reject:fifo-nested", f2)
	reject("reject:fifo-root", filepath.Join(f1, "pipe"))
	if _, err := os.Lstat("/dev/null"); err == nil {
		reject("reject:chardev", "/dev/null")
	}
	reject("reject:nonexistent", filepath.Join(base, "does-not-exist"))
}
