// Hand-built multi-level file DAGs whose interior nodes do NOT record (all of) their children's
// block sizes. The builder of the library and the boxo importers always write one BlockSizes entry
// per link, and so do the shapes of handbuilt_test.go; a reader then never has to open a dag-pb
// child to learn its size. Files written by other tools (or by hand) may leave BlockSizes and even
// FileSize out: the reader measures such a child by opening it and seeking to its end, and goes on
// to read through the very reader it measured with. A measuring reader that is not put back to the
// start reads nothing from the child: the blocks beneath it are never requested, the content is cut
// short and an unavailable block goes unnoticed.
//
// Notation as in replay/handdag (P dag-pb leaf, R raw leaf, [..] interior node; no empty leaves
// here, so the leading-empty finding of handbuilt_test.go plays no part), 2 to 4 levels. Every shape
// is stored in these variants (root = the node handed to the operation, inner = every other
// interior node; "full" = FileSize and one BlockSizes entry per link as a well-formed file has):
//
//	noBS            every interior node: FileSize, no BlockSizes
//	noBS+noFS       every interior node: neither FileSize nor BlockSizes
//	shortBS         every interior node: FileSize, BlockSizes for all links but the last
//	rootnoBS        root: FileSize, no BlockSizes; inner: full
//	rootnoBS+noFS   root: neither; inner: full
//	innernoBS       root: full; inner: FileSize, no BlockSizes
//	innernoBS+noFS  root: full; inner: neither
//
// Links have the empty name and carry Tsize = cumulative stored size (what the reader takes as the size of
// a raw child). Same oracle and the same two checks as everywhere in this harness, for the same
// three operations: requested set == entity blocks below the root; with each single block made
// unavailable the operation returns an error.
//
// Case ids: file:noBS=<shape>/<variant>[,v0],<op>[,missing=<pos>]   (<pos> as in handbuilt_test.go)
package c06

import (
	"fmt"
	"testing"

	"github.com/ipfs/go-unixfsnode"
	"github.com/ipfs/go-unixfsnode/data"
	"github.com/ipfs/go-unixfsnode/data/builder"
	dagpb "github.com/ipld/go-codec-dagpb"
	"github.com/ipld/go-ipld-prime"
	"github.com/ipld/go-ipld-prime/datamodel"
	"github.com/ipld/go-ipld-prime/fluent/qp"
	cidlink "github.com/ipld/go-ipld-prime/linking/cid"
	"github.com/ipld/go-ipld-prime/node/basicnode"

	"replay/handdag"
	"replay/vp"
)

var noBSShapes = []string{
	// two levels, one or several interior children, raw / dag-pb / mixed leaves
	"[[R,R]]", "[[P,P]]", "[[R,R],[R,R]]", "[[P,P],[P,P,P]]", "[[R,P],[P,R]]",
	"[P,[P,P],P]", "[R,[R,R],R]", "[P,[R,R]]", "[[R,R],P]", "[[R],[P]]",
	// three levels
	"[[[R,R],[R,R]],[[R,R],[R]]]", "[[[P,P],[P]],[[P,R]]]", "[P,[P,[P,P]],P]", "[R,[R,[R,R]]]",
	"[[P,[R,R]],[[P,P],R]]",
}

// four levels, thorough tier only
var noBSShapesDeep = []string{
	"[[[[R,R],[P,P]],[R]],[P,[R,[P,R]]]]", "[[[[R,R]]]]", "[[[[P],P],P],P]", "[R,[R,[R,[R,R]]]]",
	"[[R,R,R,R],[P,P,P,P],[R,P,R,P]]", "[[[R,R,R],[R,R,R],[R,R,R]],[[P,P,P],[P,P,P]],R]",
}

// CIDv0 links between the dag-pb blocks
var noBSShapesV0 = []string{"[[R,R],[R,R]]", "[[P,P],[P,P,P]]", "[P,[P,[P,P]],P]"}

// noBSVariant says what an interior node at the given depth (root = 0) with n links records:
// whether FileSize is written and how many BlockSizes entries.
type noBSVariant struct {
	name string
	meta func(depth, n int) (fileSize bool, blockSizes int)
}

var noBSVariants = []noBSVariant{
	{"noBS", func(_, n int) (bool, int) { return true, 0 }},
	{"noBS+noFS", func(_, n int) (bool, int) { return false, 0 }},
	{"shortBS", func(_, n int) (bool, int) { return true, n - 1 }},
	{"rootnoBS", func(d, n int) (bool, int) {
		if d == 0 {
			return true, 0
		}
		return true, n
	}},
	{"rootnoBS+noFS", func(d, n int) (bool, int) {
		if d == 0 {
			return false, 0
		}
		return true, n
	}},
	{"innernoBS", func(d, n int) (bool, int) {
		if d == 0 {
			return true, n
		}
		return true, 0
	}},
	{"innernoBS+noFS", func(d, n int) (bool, int) {
		if d == 0 {
			return true, n
		}
		return false, 0
	}},
}

type noBSBuilder struct {
	t    *testing.T
	st   *vp.Store
	ls   *ipld.LinkSystem
	pb   cidlink.LinkPrototype
	v    noBSVariant
	salt int64
	seq  int
	dag  *handdag.DAG
}

type noBSBuilt struct {
	link          datamodel.Link
	bytes, stored uint64
}

func (b *noBSBuilder) storePB(u data.UnixFSData, kids []noBSBuilt) (datamodel.Link, uint64) {
	n, err := qp.BuildMap(dagpb.Type.PBNode, 2, func(ma datamodel.MapAssembler) {
		qp.MapEntry(ma, "Data", qp.Bytes(data.EncodeUnixFSData(u)))
		qp.MapEntry(ma, "Links", qp.List(int64(len(kids)), func(la datamodel.ListAssembler) {
			for _, k := range kids {
				qp.ListEntry(la, qp.Map(3, func(ma datamodel.MapAssembler) {
					qp.MapEntry(ma, "Hash", qp.Link(k.link))
					qp.MapEntry(ma, "Name", qp.String(""))
					qp.MapEntry(ma, "Tsize", qp.Int(int64(k.stored)))
				}))
			}
		}))
	})
	if err != nil {
		b.t.Fatal(err)
	}
	l, err := b.ls.Store(ipld.LinkContext{}, b.pb, n)
	if err != nil {
		b.t.Fatal(err)
	}
	raw, _ := b.st.Raw(l)
	return l, uint64(len(raw))
}

func (b *noBSBuilder) build(s *handdag.Shape, path string, depth int) noBSBuilt {
	b.seq++
	seq := b.seq
	slot := len(b.dag.Blocks)
	b.dag.Blocks = append(b.dag.Blocks, handdag.Block{Path: path, Kind: s.Kind})
	var out noBSBuilt
	switch s.Kind {
	case 'P', 'R':
		chunk := vp.Content(1+seq%7, b.salt*1000+int64(seq))
		b.dag.Content = append(b.dag.Content, chunk...)
		if s.Kind == 'R' {
			l, err := b.ls.Store(ipld.LinkContext{}, vp.V1Raw, basicnode.NewBytes(chunk))
			if err != nil {
				b.t.Fatal(err)
			}
			out = noBSBuilt{l, uint64(len(chunk)), uint64(len(chunk))}
			break
		}
		u, err := builder.BuildUnixFS(func(ub *builder.Builder) {
			builder.Data(ub, chunk)
			builder.FileSize(ub, uint64(len(chunk)))
		})
		if err != nil {
			b.t.Fatal(err)
		}
		l, sz := b.storePB(u, nil)
		out = noBSBuilt{l, uint64(len(chunk)), sz}
	case '[':
		var kids []noBSBuilt
		var sizes []uint64
		var total, stored uint64
		for i, k := range s.Kids {
			kp := fmt.Sprint(i)
			if path != "root" {
				kp = path + "." + kp
			}
			kb := b.build(k, kp, depth+1)
			kids = append(kids, kb)
			sizes = append(sizes, kb.bytes)
			total += kb.bytes
			stored += kb.stored
		}
		fs, nbs := b.v.meta(depth, len(kids))
		u, err := builder.BuildUnixFS(func(ub *builder.Builder) {
			if fs {
				builder.FileSize(ub, total)
			}
			if nbs > 0 {
				builder.BlockSizes(ub, sizes[:nbs])
			}
		})
		if err != nil {
			b.t.Fatal(err)
		}
		l, sz := b.storePB(u, kids)
		out = noBSBuilt{l, total, stored + sz}
	default:
		b.t.Fatalf("shape kind %q is not used in the noBS shapes", s.Kind)
	}
	b.dag.Blocks[slot].Link, b.dag.Blocks[slot].Bytes = out.link.String(), out.bytes
	return out
}

// noBlockSizes runs the file operations over noBSShapes x noBSVariants.
func noBlockSizes(t *testing.T, r *vp.Run) {
	run := func(notation string, v noBSVariant, suffix string, pb cidlink.LinkPrototype, salt int64) {
		name := notation + "/" + v.name + suffix
		id := "file:noBS=" + name
		sh, err := handdag.Parse(notation)
		if err != nil {
			t.Fatal(err)
		}
		st := vp.NewStore()
		b := &noBSBuilder{t: t, st: st, ls: st.LS(), pb: pb, v: v, salt: salt, dag: &handdag.DAG{Notation: notation}}
		root := b.build(sh, "root", 0)
		dag := b.dag
		dag.Root, dag.Bytes = root.link, root.bytes
		// the independent walker must agree with what was meant to be written
		content, _, order, err := st.FileSpans(dag.Root)
		if err != nil {
			t.Fatalf("%s: walk: %v", id, err)
		}
		if string(content) != string(dag.Content) || len(order) != len(dag.Blocks) {
			t.Fatalf("%s: harness bug: stored DAG holds %d bytes in %d blocks, shape dictates %d in %d", id, len(content), len(order), len(dag.Content), len(dag.Blocks))
		}
		seen := map[string]bool{}
		for i, blk := range dag.Blocks {
			if order[i] != blk.Link || seen[blk.Link] {
				t.Fatalf("%s: harness bug: walker and builder disagree on block %d, or a block sits at two positions", id, i)
			}
			seen[blk.Link] = true
		}
		// and the root must lack what the variant says it lacks
		rb, _, err := st.Block(dag.Root)
		if err != nil {
			t.Fatal(err)
		}
		ru, err := rb.UnixFS()
		if err != nil {
			t.Fatal(err)
		}
		wantFS, wantBS := v.meta(0, len(rb.Links))
		if (ru.Filesize != nil) != wantFS || len(ru.Blocksizes) != wantBS {
			t.Fatalf("%s: harness bug: root stores FileSize=%v and %d BlockSizes, variant dictates %v and %d", id, ru.Filesize != nil, len(ru.Blocksizes), wantFS, wantBS)
		}
		if notation == "[[R,R],[R,R]]" && v.name == "noBS" && suffix == "" {
			r.Sample(map[string]any{"case": id, "blocks": len(order), "bytes": len(content)})
		}
		checkNoBS(t, r, id, st, dag)
	}
	shapes := noBSShapes
	if vp.Thorough() {
		shapes = append(append([]string(nil), noBSShapes...), noBSShapesDeep...)
	}
	for i, s := range shapes {
		for j, v := range noBSVariants {
			run(s, v, "", vp.V1, int64(7000+i*10+j))
		}
	}
	for i, s := range noBSShapesV0 {
		for j, v := range noBSVariants {
			run(s, v, ",v0", handdag.V0, int64(8000+i*10+j))
		}
	}
}

// checkNoBS is check with blocks named by their position in the shape.
func checkNoBS(t *testing.T, r *vp.Run, id string, st *vp.Store, dag *handdag.DAG) {
	ls := st.LS()
	unixfsnode.AddUnixFSReificationToLinkSystem(ls)
	rn, err := vp.Load(ls, dag.Root)
	if err != nil {
		t.Fatalf("%s: %v", id, err)
	}
	var below []string
	for _, b := range dag.Blocks[1:] {
		below = append(below, b.Link)
	}
	first := dag.First()
	for _, o := range fileOps {
		cid := id + "," + o.name
		r.Eval(cid)
		r.Guard(cid, func() {
			st.ResetLog()
			if err := o.run(ls, rn); err != nil {
				r.Fail(cid, "error with every block available: %v", err)
				return
			}
			if got := vp.Dedup(st.ReadLog()); set(got) != set(below) {
				r.Fail(cid, "requested {%s}, entity blocks below root are {%s}", labelled(dag, got), labelled(dag, below))
			}
		})
		for _, miss := range below {
			miss := miss
			pos := first[miss].Label()
			mid := cid + ",missing=" + pos
			r.Eval(mid)
			r.Guard(mid, func() {
				st.Missing[miss] = true
				defer delete(st.Missing, miss)
				if err := o.run(ls, rn); err == nil {
					r.Fail(mid, "no error although block %s (%s) of the entity is unavailable", pos, vp.Short(miss))
				}
			})
		}
	}
}
