// Hand-built file DAGs whose interior nodes have dag-pb (protobuf, non-raw) children, including
// empty ones (recorded block size 0); the notation and the builder live in replay/handdag (shared
// with c20). Same oracle and same two checks as for the other files of this harness: the set of
// requested blocks equals the set of entity blocks below the root, and with each single block made
// unavailable the operation returns an error. A block is named by its position in the shape
// ("1.0(e)" = first child of the root's second child, an e leaf), so case names do not depend on
// CIDs.
//
// Two groups of shapes, under case names that cannot be confused:
//
//	file:hand=<shape>[,v0],<op>[,missing=<pos>]
//	    handdag.Shapes: no leading-empty child anywhere (empty children in middle / last / nested
//	    non-leading positions).
//	file:leading-empty=<shape>[,v0],<op>[,missing=<pos>]
//	    handdag.LeadingEmptyShapes: some child is empty and so are all siblings before it. On the
//	    library as it stands such a child (and what lies beneath it) is never requested, not even
//	    by the preload, and no error is reported when it is unavailable: a recorded known finding.
//
// A file:leading-empty= case fails for exactly one reason: "<shape>,<op>" because a leading-empty
// block was never requested, "<shape>,<op>,missing=<pos>" (only for <pos> a leading-empty block)
// because no error was returned with that block unavailable. Everything else about such a shape
// (the operation failing with every block available, any other block not requested, a block
// requested that is not part of the file, no error / a panic with any other block unavailable, a
// panic with a leading-empty block unavailable) is reported under file:hand=<shape>... like for any
// other shape.
package c06

import (
	"sort"
	"strings"
	"testing"

	"github.com/ipfs/go-unixfsnode"
	cidlink "github.com/ipld/go-ipld-prime/linking/cid"

	"replay/handdag"
	"replay/vp"
)

// handBuilt runs the file operations over handdag.Shapes and handdag.LeadingEmptyShapes.
func handBuilt(t *testing.T, r *vp.Run) {
	run := func(group, notation, suffix string, pb cidlink.LinkPrototype, salt int64) {
		name := notation + suffix
		id := "file:" + group + "=" + name
		st := vp.NewStore()
		dag, err := handdag.Build(st, notation, pb, salt)
		if err != nil {
			t.Fatalf("%s: build: %v", id, err)
		}
		content, _, order, err := st.FileSpans(dag.Root)
		if err != nil {
			t.Fatalf("%s: walk: %v", id, err)
		}
		// the independent walker must agree with what was meant to be written
		if string(content) != string(dag.Content) || uint64(len(content)) != dag.Bytes || len(order) != len(dag.Blocks) {
			t.Fatalf("%s: harness bug: stored DAG holds %d bytes in %d blocks, shape dictates %d in %d", id, len(content), len(order), len(dag.Content), len(dag.Blocks))
		}
		for i, b := range dag.Blocks {
			if order[i] != b.Link {
				t.Fatalf("%s: harness bug: walker and builder disagree on block %d", id, i)
			}
		}
		switch le := dag.LeadingEmpty(); {
		case group == "hand" && len(le) != 0:
			t.Fatalf("%s: harness bug: shape with a leading-empty child in the file:hand= group", id)
		case group == "leading-empty" && (len(le) == 0 || strings.Contains(notation, "s")):
			t.Fatalf("%s: harness bug: the shape has no leading-empty child (or shares blocks)", id)
		}
		if notation == "[P,e,P]" && suffix == "" {
			r.Sample(map[string]any{"case": id, "blocks": len(order)})
		}
		checkHand(t, r, group, name, st, dag)
	}
	for i, s := range handdag.Shapes {
		run("hand", s, "", vp.V1, int64(i))
		run("hand", s, ",v0", handdag.V0, int64(i))
	}
	for i, s := range handdag.LeadingEmptyShapes {
		run("leading-empty", s, "", vp.V1, int64(5000+i))
	}
	for i, s := range handdag.LeadingEmptyShapesV0 {
		run("leading-empty", s, ",v0", handdag.V0, int64(5100+i))
	}
}

func labelled(dag *handdag.DAG, links []string) string {
	first := dag.First()
	var out []string
	for _, l := range links {
		if b, ok := first[l]; ok {
			out = append(out, b.Label()+"="+vp.Short(l))
		} else {
			out = append(out, "not-in-file="+vp.Short(l))
		}
	}
	sort.Strings(out)
	return strings.Join(out, ",")
}

// checkHand is check for a hand-built shape. With LE = the shape's leading-empty blocks (none in
// the file:hand= group) and U = the blocks of LE that the operation never requested:
//
//	file:leading-empty=<name>,<op>                fails iff U is not empty;
//	file:hand=<name>,<op>                         fails iff the operation fails or panics, or the
//	                                              requested set differs from the blocks below the
//	                                              root with U taken out;
//	file:leading-empty=<name>,<op>,missing=<pos>  (<pos> in LE) fails iff no error is returned;
//	file:hand=<name>,<op>,missing=<pos>           fails iff no error is returned (<pos> not in LE),
//	                                              or the operation panics (any <pos>).
func checkHand(t *testing.T, r *vp.Run, group, name string, st *vp.Store, dag *handdag.DAG) {
	ls := st.LS()
	unixfsnode.AddUnixFSReificationToLinkSystem(ls)
	rn, err := vp.Load(ls, dag.Root)
	if err != nil {
		t.Fatalf("file:%s=%s: %v", group, name, err)
	}
	le := dag.LeadingEmpty()
	first := dag.First()
	var below []string // distinct blocks below the root, depth-first
	seen := map[string]bool{dag.Blocks[0].Link: true}
	for _, b := range dag.Blocks[1:] {
		if !seen[b.Link] {
			seen[b.Link] = true
			below = append(below, b.Link)
		}
	}
	for _, o := range fileOps {
		handID := "file:hand=" + name + "," + o.name
		leID := "file:leading-empty=" + name + "," + o.name
		r.Eval("file:" + group + "=" + name + "," + o.name)
		r.Guard(handID, func() {
			st.ResetLog()
			if err := o.run(ls, rn); err != nil {
				r.Fail(handID, "error with every block available: %v", err)
				return
			}
			got := vp.Dedup(st.ReadLog())
			requested := map[string]bool{}
			for _, l := range got {
				requested[l] = true
			}
			unreq := map[string]bool{}
			var rest []string
			for _, l := range below {
				if _, isLE := le[l]; isLE && !requested[l] {
					unreq[l] = true
					continue
				}
				rest = append(rest, l)
			}
			if set(got) != set(rest) {
				if len(le) == 0 {
					r.Fail(handID, "requested {%s}, entity blocks below root are {%s}", labelled(dag, got), labelled(dag, rest))
				} else {
					r.Fail(handID, "requested {%s}, entity blocks below root (never-requested leading empty children {%s} left out) are {%s}", labelled(dag, got), dag.Labels(unreq), labelled(dag, rest))
				}
			}
			if len(unreq) > 0 {
				r.Fail(leID, "leading empty child block(s) %s never requested: requested {%s}, entity blocks below root are {%s}", dag.Labels(unreq), labelled(dag, got), labelled(dag, below))
			}
		})
		for _, miss := range below {
			miss := miss
			pos := first[miss].Label()
			_, isLE := le[miss]
			handMid := handID + ",missing=" + pos
			mid := handMid
			if isLE {
				mid = leID + ",missing=" + pos
			}
			r.Eval(mid)
			r.Guard(handMid, func() {
				st.Missing[miss] = true
				defer delete(st.Missing, miss)
				if err := o.run(ls, rn); err == nil {
					if isLE {
						r.Fail(mid, "no error although leading empty child block %s (%s) of the entity is unavailable", pos, vp.Short(miss))
					} else {
						r.Fail(mid, "no error although block %s (%s) of the entity is unavailable", pos, vp.Short(miss))
					}
				}
			})
		}
	}
}
