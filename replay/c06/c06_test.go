// C06 bounded stand-in: the preloading view requests every block of the entity, nothing of the
// directory's entries, and fails when a block of the entity is unavailable.
//
// Bounds (quick | thorough):
//
//	files: builder width 2|{2,3}, "size-4", chunk counts 1..9 | 1..20, plus boxo balanced/trickle
//	  files with protobuf leaves (n in {3,7});
//	hand-built files (handbuilt_test.go): interior nodes with dag-pb children, including empty ones
//	  (recorded block size 0): 32 shapes without a leading-empty child, CIDv1 and CIDv0 links, as
//	  "file:hand=..."; 20 shapes (+3 with CIDv0 links) with a leading-empty child as
//	  "file:leading-empty=..." (known finding: such a child is never requested and no error is
//	  reported when it is unavailable; nothing else can fail under that name);
//	hand-built files without (complete) BlockSizes (nobs_test.go): 15 | 21 multi-level shapes (2-3 |
//	  2-4 levels, raw and dag-pb leaves) x 7 variants of which interior nodes leave out BlockSizes
//	  and FileSize, + 3 shapes with CIDv0 links, as "file:noBS=<shape>/<variant>...": a dag-pb child
//	  without a recorded size is measured by opening it, and must still be read through;
//	HAMTs: fanouts {8,256} | {8,16,64,256,1024} with 120 | 1500 random + colliding names whose
//	  entries point at multi-block files, at a plain directory and at another HAMT; also a plain
//	  directory with such entries (nothing may be requested).
//	operations: the "unixfs-preload" reifier, file.NewUnixFSFileWithPreload /
//	  hamt.NewUnixFSHAMTShardWithPreload, and a WalkMatching with MatchUnixFSEntitySelector +
//	  BytesConsumingMatcher. Requested set must equal the entity's blocks below its root (root is
//	  handed in as a node). Then for EVERY single block of the entity made unavailable each
//	  operation must return an error.
//
// Oracle: vp's protowire walk over the stored blocks.
package c06

import (
	"bytes"
	"context"
	"fmt"
	"sort"
	"strings"
	"testing"

	"github.com/ipfs/go-unixfsnode"
	"github.com/ipfs/go-unixfsnode/data"
	"github.com/ipfs/go-unixfsnode/data/builder"
	"github.com/ipfs/go-unixfsnode/file"
	"github.com/ipfs/go-unixfsnode/hamt"
	dagpb "github.com/ipld/go-codec-dagpb"
	"github.com/ipld/go-ipld-prime"
	"github.com/ipld/go-ipld-prime/datamodel"
	cidlink "github.com/ipld/go-ipld-prime/linking/cid"
	"github.com/ipld/go-ipld-prime/traversal"
	"github.com/ipld/go-ipld-prime/traversal/selector"

	"replay/vp"
)

type op struct {
	name string
	run  func(ls *ipld.LinkSystem, root datamodel.Node) error
}

var ctx = context.Background()

func entityWalk(ls *ipld.LinkSystem, root datamodel.Node) error {
	sel, err := selector.CompileSelector(unixfsnode.MatchUnixFSEntitySelector.Node())
	if err != nil {
		return err
	}
	prog := traversal.Progress{Cfg: &traversal.Config{LinkSystem: *ls, LinkTargetNodePrototypeChooser: vp.Chooser}}
	return prog.WalkMatching(root, sel, unixfsnode.BytesConsumingMatcher)
}

var fileOps = []op{
	{"preload-reifier", func(ls *ipld.LinkSystem, n datamodel.Node) error {
		_, err := ls.KnownReifiers["unixfs-preload"](ipld.LinkContext{Ctx: ctx}, n, ls)
		return err
	}},
	{"NewUnixFSFileWithPreload", func(ls *ipld.LinkSystem, n datamodel.Node) error {
		_, err := file.NewUnixFSFileWithPreload(ctx, n, ls)
		return err
	}},
	{"entity-walk", entityWalk},
}

var dirOps = []op{
	fileOps[0],
	{"NewUnixFSHAMTShardWithPreload", func(ls *ipld.LinkSystem, n datamodel.Node) error {
		pb := n.(dagpb.PBNode)
		d, err := data.DecodeUnixFSData(pb.Data.Must().Bytes())
		if err != nil {
			return err
		}
		if d.FieldDataType().Int() != data.Data_HAMTShard {
			return nil // plain directory: nothing to do
		}
		_, err = hamt.NewUnixFSHAMTShardWithPreload(ctx, pb, d, ls)
		return err
	}},
	fileOps[2],
}

func set(xs []string) string {
	m := map[string]bool{}
	for _, x := range xs {
		m[vp.Short(x)] = true
	}
	var out []string
	for x := range m {
		out = append(out, x)
	}
	sort.Strings(out)
	return strings.Join(out, ",")
}

// check runs every op on the entity: request set == below, and error with each block missing.
func check(t *testing.T, r *vp.Run, id string, st *vp.Store, root datamodel.Link, below []string, ops []op) {
	ls := st.LS()
	unixfsnode.AddUnixFSReificationToLinkSystem(ls)
	rn, err := vp.Load(ls, root)
	if err != nil {
		t.Fatalf("%s: %v", id, err)
	}
	for _, o := range ops {
		cid := id + "," + o.name
		r.Eval(cid)
		r.Guard(cid, func() {
			st.ResetLog()
			if err := o.run(ls, rn); err != nil {
				r.Fail(cid, "error with every block available: %v", err)
				return
			}
			if got, want := set(st.ReadLog()), set(below); got != want {
				r.Fail(cid, "requested {%s}, entity blocks below root are {%s}", got, want)
			}
		})
		seen := map[string]bool{}
		for _, miss := range below {
			if seen[miss] {
				continue
			}
			seen[miss] = true
			mid := fmt.Sprintf("%s,missing=%s", cid, vp.Short(miss))
			r.Eval(mid)
			r.Guard(mid, func() {
				st.Missing[miss] = true
				defer delete(st.Missing, miss)
				if err := o.run(ls, rn); err == nil {
					r.Fail(mid, "no error although block %s of the entity is unavailable", vp.Short(miss))
				}
			})
		}
	}
}

func TestBounded(t *testing.T) {
	r := vp.New(t)
	defer r.Done()
	saved := builder.DefaultLinksPerBlock
	defer func() { builder.DefaultLinksPerBlock = saved }()

	for _, w := range vp.Pick([]int{2}, []int{2, 3}) {
		builder.DefaultLinksPerBlock = w
		for n := 1; n <= vp.Pick(9, 20); n++ {
			want := vp.Content(n*4-1, int64(w*100+n))
			st := vp.NewStore()
			root, _, err := builder.BuildUnixFSFile(bytes.NewReader(want), "size-4", st.LS())
			if err != nil {
				t.Fatal(err)
			}
			_, _, order, err := st.FileSpans(root)
			if err != nil {
				t.Fatal(err)
			}
			id := fmt.Sprintf("file:W=%d,n=%d", w, n)
			if n == 7 {
				r.Sample(map[string]any{"case": id, "blocks": len(order)})
			}
			check(t, r, id, st, root, order[1:], fileOps)
		}
	}
	for _, layout := range []string{"balanced", "trickle"} {
		for _, n := range []int{3, 7} {
			want := vp.Content(n*4-1, int64(3000+n))
			bx := vp.NewBoxo()
			bn, err := bx.ImportFile(want, "size-4", layout, 2, false, 1)
			if err != nil {
				t.Fatal(err)
			}
			st, _ := bx.Store()
			root := cidlink.Link{Cid: bn.Cid()}
			_, _, order, err := st.FileSpans(root)
			if err != nil {
				t.Fatal(err)
			}
			check(t, r, fmt.Sprintf("file:boxo-%s,n=%d", layout, n), st, root, order[1:], fileOps)
		}
	}

	handBuilt(t, r)
	noBlockSizes(t, r)

	builder.DefaultLinksPerBlock = 2
	rng := vp.Rng(6)
	names := vp.Names(vp.Pick(120, 1500), rng)
	names = vp.Dedup(append(names, append(vp.Colliding(4, 21, rng), vp.Colliding(3, 12, rng)...)...))
	for fi, fanout := range vp.Pick([]int{8, 256}, []int{8, 16, 64, 256, 1024}) {
		st := vp.NewStore()
		ls := st.LS()
		// entry targets: three multi-block files, a plain directory, another HAMT
		var targets []datamodel.Link
		var sizes []uint64
		for k := 0; k < 3; k++ {
			l, sz, err := builder.BuildUnixFSFile(bytes.NewReader(vp.Content(9+4*k, int64(600+k))), "size-4", ls)
			if err != nil {
				t.Fatal(err)
			}
			targets, sizes = append(targets, l), append(sizes, sz)
		}
		var sub []dagpb.PBLink
		for k := 0; k < 30; k++ {
			e, _ := builder.BuildUnixFSDirectoryEntry(fmt.Sprintf("sub-%d", k), int64(sizes[k%3]), targets[k%3])
			sub = append(sub, e)
		}
		pl, psz, err := builder.BuildUnixFSDirectory(sub[:3], ls)
		if err != nil {
			t.Fatal(err)
		}
		sl, ssz, err := builder.BuildUnixFSShardedDirectory(8, 0x22, sub, ls)
		if err != nil {
			t.Fatal(err)
		}
		targets, sizes = append(targets, pl, sl), append(sizes, psz, ssz)
		var ents []dagpb.PBLink
		for i, n := range names {
			e, _ := builder.BuildUnixFSDirectoryEntry(n, int64(sizes[i%5]), targets[i%5])
			ents = append(ents, e)
		}
		hl, _, err := builder.BuildUnixFSShardedDirectory(fanout, 0x22, ents, ls)
		if err != nil {
			t.Fatal(err)
		}
		info, err := st.WalkHamt(hl)
		if err != nil {
			t.Fatal(err)
		}
		id := fmt.Sprintf("hamt:fanout=%d,entries=%d", fanout, len(names))
		r.Sample(map[string]any{"case": id, "shards": len(info.Shards), "storeBlocks": st.Len()})
		check(t, r, id, st, hl, info.Shards[1:], dirOps)
		if fi == 0 {
			dl, _, err := builder.BuildUnixFSDirectory(ents, ls)
			if err != nil {
				t.Fatal(err)
			}
			check(t, r, fmt.Sprintf("plaindir:entries=%d", len(names)), st, dl, nil, dirOps)
		}
	}
}
