package c01

// Builder-written files with the LARGEST chunk settings the chunker accepts. Every other case of
// this harness uses chunks of 1..16 bytes; the chunker takes "size-<n>" up to n = 1048576 (1 MiB,
// boxo's ChunkSizeLimit) and rabin parameters up to the same maximum, and a leaf of exactly that
// size is a legal block. Limits on block sizes (the builder has a BlockSizeLimit of the same
// value) must not reject it.
//
//	size-1048576   content lengths 1048575, 1048576, 1048577, 2*1048576+12345
//	               (one short leaf; one leaf of exactly the limit; a full leaf + 1 byte; two full leaves + tail)
//	size-1048575   1048575 and 1048576+5 (a leaf one below the limit)
//	size-524288    1048576+1
//	rabin-262144-524288-1048576
//	               ~3 MiB (3*1048576+4321 bytes), both tiers; the content is picked (salt searched
//	               with boxo's chunker, at most 40 tries) so that at least one chunk has the
//	               maximal size 1048576; thorough adds a second content and the all-zero content.
//	thorough adds  size-1048576 with 5*1048576 bytes, size-1048574 with 2*1048576, size-262144 with
//	               4*1048576+1.
//
// The build must succeed and the file must read back exactly through file.NewUnixFSFile,
// unixfsnode.Reify and the "unixfs-preload" reifier: AsBytes, one streamed read with a 64 KiB
// buffer, Seek(0,End) == len. (The many-buffer-sizes sweep of checkNode would read 3 MiB byte by
// byte; it is left to the small cases.)
//
// Case ids: builder:chunker=<chunker>,len=<n>[,content=<class>]/<direct|reify|preload>; a build that
// fails is reported once as builder:chunker=<chunker>,len=<n>[,content=<class>]/build.

import (
	"bytes"
	"context"
	"fmt"
	"io"
	"testing"

	chunk "github.com/ipfs/boxo/chunker"
	"github.com/ipfs/go-unixfsnode"
	"github.com/ipfs/go-unixfsnode/data/builder"
	"github.com/ipfs/go-unixfsnode/file"
	"github.com/ipld/go-ipld-prime"
	"github.com/ipld/go-ipld-prime/datamodel"

	"replay/vp"
)

const mib = 1048576

// chunkSizes splits content with boxo's chunker (the reference for what chunks the setting yields).
func chunkSizes(t *testing.T, content []byte, chunker string) []int {
	spl, err := chunk.FromString(bytes.NewReader(content), chunker)
	if err != nil {
		t.Fatalf("chunker %q is not accepted by boxo: %v", chunker, err)
	}
	var out []int
	for {
		b, err := spl.NextBytes()
		if err == io.EOF {
			return out
		}
		if err != nil {
			t.Fatalf("chunker %q: %v", chunker, err)
		}
		out = append(out, len(b))
	}
}

// checkNodeBig is the cheap part of checkNode: AsBytes, one streamed read, Seek(0,End).
func checkNodeBig(r *vp.Run, id, mode string, nd datamodel.Node, want []byte) {
	r.Eval("")
	cid := id + "/" + mode
	got, err := nd.AsBytes()
	if err != nil || !bytes.Equal(got, want) {
		r.Fail(cid, "AsBytes: got %d bytes err=%v, want %d bytes%s", len(got), err, len(want), firstDiff(got, want))
		return
	}
	lb, ok := nd.(datamodel.LargeBytesNode)
	if !ok {
		if nd.Kind() != datamodel.Kind_Bytes {
			r.Fail(cid, "kind %v, want bytes", nd.Kind())
		}
		return
	}
	rd, err := lb.AsLargeBytes()
	if err != nil {
		r.Fail(cid, "AsLargeBytes: %v", err)
		return
	}
	acc := make([]byte, 0, len(want))
	buf := make([]byte, 64<<10)
	for steps := 0; steps < len(want)+16; steps++ {
		n, err := rd.Read(buf)
		acc = append(acc, buf[:n]...)
		if err == io.EOF {
			break
		}
		if err != nil {
			r.Fail(cid, "stream buf=65536: error %v after %d bytes", err, len(acc))
			return
		}
	}
	if !bytes.Equal(acc, want) {
		r.Fail(cid, "stream buf=65536: got %d bytes, want %d%s", len(acc), len(want), firstDiff(acc, want))
		return
	}
	rd, _ = lb.AsLargeBytes()
	if end, err := rd.Seek(0, io.SeekEnd); err != nil || end != int64(len(want)) {
		r.Fail(cid, "Seek(0,End)=%d,%v want %d", end, err, len(want))
	}
}

func firstDiff(got, want []byte) string {
	for i := 0; i < len(got) && i < len(want); i++ {
		if got[i] != want[i] {
			return fmt.Sprintf(" (first difference at offset %d)", i)
		}
	}
	return ""
}

// large runs the cases with the builder's default link width (these files have 1..17 leaves).
func large(t *testing.T, r *vp.Run, defaultWidth int) {
	saved := builder.DefaultLinksPerBlock
	defer func() { builder.DefaultLinksPerBlock = saved }()
	builder.DefaultLinksPerBlock = defaultWidth

	type bigCase struct {
		chunker string
		suffix  string
		want    []byte
	}
	var cases []bigCase
	add := func(chunker string, n int) {
		cases = append(cases, bigCase{chunker, "", vp.Content(n, int64(424200+len(cases)))})
	}
	for _, n := range []int{mib - 1, mib, mib + 1, 2*mib + 12345} {
		add("size-1048576", n)
	}
	add("size-1048575", mib-1)
	add("size-1048575", mib+5)
	add("size-524288", mib+1)
	if vp.Thorough() {
		add("size-1048576", 5*mib)
		add("size-1048574", 2*mib)
		add("size-262144", 4*mib+1)
	}

	// rabin with the maximal max: pick content with a chunk of exactly 1 MiB
	const rabin = "rabin-262144-524288-1048576"
	const rabinLen = 3*mib + 4321
	found := 0
	for salt := int64(0); salt < 40 && found < vp.Pick(1, 2); salt++ {
		c := vp.Content(rabinLen, 515100+salt)
		hasMax := false
		for _, s := range chunkSizes(t, c, rabin) {
			hasMax = hasMax || s == mib
		}
		if hasMax {
			suffix := ""
			if found > 0 {
				suffix = ",content=second"
			}
			cases = append(cases, bigCase{rabin, suffix, c})
			found++
		}
	}
	if found == 0 {
		// not a failure of the library: fall back to some content, whatever its chunks
		t.Logf("NOTE: no content with a maximal rabin chunk found in 40 tries; using salt 0")
		cases = append(cases, bigCase{rabin, "", vp.Content(rabinLen, 515100)})
	}
	if vp.Thorough() {
		cases = append(cases, bigCase{rabin, ",content=zeros", make([]byte, rabinLen)})
	}

	for _, c := range cases {
		id := fmt.Sprintf("builder:chunker=%s,len=%d%s", c.chunker, len(c.want), c.suffix)
		sizes := chunkSizes(t, c.want, c.chunker)
		largest := 0
		for _, s := range sizes {
			largest = max(largest, s)
		}
		r.Eval(id)
		st := vp.NewStore()
		var root datamodel.Link
		var err error
		func() {
			defer func() {
				if p := recover(); p != nil {
					root, err = nil, fmt.Errorf("panic: %v", p)
				}
			}()
			root, _, err = builder.BuildUnixFSFile(bytes.NewReader(c.want), c.chunker, st.LS())
		}()
		if err != nil || root == nil {
			if err == nil {
				err = fmt.Errorf("no link and no error")
			}
			r.Fail(id+"/build", "BuildUnixFSFile: %v (boxo's chunker yields %d chunks, the largest of %d bytes)", err, len(sizes), largest)
			continue
		}
		if c.chunker == rabin && c.suffix == "" || len(c.want) == mib {
			r.Sample(map[string]any{"case": id, "root": root.String(), "blocks": st.Len(), "chunks": len(sizes), "largestChunk": largest})
		}
		ls := st.LS()
		unixfsnode.AddUnixFSReificationToLinkSystem(ls)
		nd, err := vp.Load(ls, root)
		if err != nil {
			r.Fail(id+"/build", "load root: %v", err)
			continue
		}
		r.Guard(id, func() {
			if f, err := file.NewUnixFSFile(context.Background(), nd, ls); err != nil {
				r.Fail(id+"/direct", "NewUnixFSFile: %v", err)
			} else {
				checkNodeBig(r, id, "direct", f, c.want)
			}
			if f, err := unixfsnode.Reify(ipld.LinkContext{Ctx: context.Background()}, nd, ls); err != nil {
				r.Fail(id+"/reify", "Reify: %v", err)
			} else {
				checkNodeBig(r, id, "reify", f, c.want)
			}
			if f, err := ls.KnownReifiers["unixfs-preload"](ipld.LinkContext{Ctx: context.Background()}, nd, ls); err != nil {
				r.Fail(id+"/preload", "preload reify: %v", err)
			} else {
				checkNodeBig(r, id, "preload", f, c.want)
			}
		})
		if vp.IsPB(root) {
			if b, _, err := st.Block(root); err == nil {
				if u, err := b.UnixFS(); err == nil && u.Filesize != nil && u.GetFilesize() != uint64(len(c.want)) {
					r.Fail(id, "declared FileSize %d, want %d", u.GetFilesize(), len(c.want))
				}
			}
		}
	}
}
