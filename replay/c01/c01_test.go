// C01 bounded stand-in: file build -> read round trip, and boxo-written file DAGs read back.
//
// Bounds (quick | thorough):
//
//	builder side: link width W in {2,3,4} | {2,3,4,5}; chunker "size-3" | "size-{1,3,5,16}";
//	  every chunk count n in 0..W^3+W (thorough adds the default width 174 with size-3 and
//	  n in 0..176, 348, 349, 30277), content length n*K-1 (short last chunk) and n*K (exact);
//	  readers: file.NewUnixFSFile, unixfsnode.Reify, the "unixfs-preload" reifier;
//	  streamed reads with buffer sizes {1,2,3,4,7,64}; Seek(0,End) == len; declared FileSize == len.
//	reference side: boxo balanced|trickle x raw|protobuf leaves x CIDv0|v1 (v0 only with protobuf
//	  leaves), W in {2,3}, n in 0..30 | W in {2,3,4}, n in 0..120; chunker size-3.
//
//	builder side, repetitive content (repetitive_test.go): all-zero, periodic with a period of
//	  1..3 chunks, "A x A y A ..", two identical halves, over the same (W, n) ranges: DAGs that link
//	  the same block or subtree from several positions. Case ids "builder:W=..,n=..,content=<class>".
//
//	builder side, largest chunk settings (large_test.go): size-1048576 / size-1048575 / size-524288
//	  and rabin-262144-524288-1048576 on 1..3 MiB of content (leaves of exactly the 1 MiB limit);
//	  AsBytes + one 64 KiB-buffer stream per reader. Case ids "builder:chunker=..,len=..".
//
// Content bytes are pseudo-random from VERIF_SEED (main loop: pairwise distinct chunks).
package c01

import (
	"bytes"
	"context"
	"fmt"
	"io"
	"testing"

	"github.com/ipfs/go-unixfsnode"
	"github.com/ipfs/go-unixfsnode/data/builder"
	"github.com/ipfs/go-unixfsnode/file"
	"github.com/ipld/go-ipld-prime"
	"github.com/ipld/go-ipld-prime/datamodel"
	cidlink "github.com/ipld/go-ipld-prime/linking/cid"

	"replay/vp"
)

var bufSizes = []int{1, 2, 3, 4, 7, 64}

// checkNode reads content back through every access path of one reified node.
func checkNode(r *vp.Run, id, mode string, nd datamodel.Node, want []byte) {
	r.Eval("")
	cid := id + "/" + mode
	got, err := nd.AsBytes()
	if err != nil || !bytes.Equal(got, want) {
		r.Fail(cid, "AsBytes: got %d bytes err=%v, want %d bytes", len(got), err, len(want))
		return
	}
	lb, ok := nd.(datamodel.LargeBytesNode)
	if !ok {
		if nd.Kind() != datamodel.Kind_Bytes {
			r.Fail(cid, "kind %v, want bytes", nd.Kind())
		}
		return
	}
	for _, bs := range bufSizes {
		rd, err := lb.AsLargeBytes()
		if err != nil {
			r.Fail(cid, "AsLargeBytes: %v", err)
			return
		}
		var acc []byte
		buf := make([]byte, bs)
		for steps := 0; steps < 4*len(want)+16; steps++ {
			n, err := rd.Read(buf)
			acc = append(acc, buf[:n]...)
			if err == io.EOF {
				break
			}
			if err != nil {
				r.Fail(cid, "stream buf=%d: error %v after %d bytes", bs, err, len(acc))
				break
			}
		}
		if !bytes.Equal(acc, want) {
			r.Fail(cid, "stream buf=%d: got %d bytes, want %d", bs, len(acc), len(want))
		}
	}
	rd, _ := lb.AsLargeBytes()
	end, err := rd.Seek(0, io.SeekEnd)
	if err != nil || end != int64(len(want)) {
		r.Fail(cid, "Seek(0,End)=%d,%v want %d", end, err, len(want))
	}
	if len(want) > 2 {
		mid := int64(len(want) / 2)
		if p, err := rd.Seek(mid, io.SeekStart); err != nil || p != mid {
			r.Fail(cid, "Seek(%d,Start)=%d,%v", mid, p, err)
		}
		rest, err := io.ReadAll(rd)
		if err != nil || !bytes.Equal(rest, want[mid:]) {
			r.Fail(cid, "read after mid seek: %d bytes err=%v want %d", len(rest), err, len(want)-int(mid))
		}
	}
}

func checkAll(r *vp.Run, id string, st *vp.Store, root datamodel.Link, want []byte) {
	ls := st.LS()
	unixfsnode.AddUnixFSReificationToLinkSystem(ls)
	nd, err := vp.Load(ls, root)
	if err != nil {
		r.Fail(id, "load root: %v", err)
		return
	}
	r.Guard(id, func() {
		if f, err := file.NewUnixFSFile(context.Background(), nd, ls); err != nil {
			r.Fail(id+"/direct", "NewUnixFSFile: %v", err)
		} else {
			checkNode(r, id, "direct", f, want)
		}
		if f, err := unixfsnode.Reify(ipld.LinkContext{Ctx: context.Background()}, nd, ls); err != nil {
			r.Fail(id+"/reify", "Reify: %v", err)
		} else {
			checkNode(r, id, "reify", f, want)
		}
		if f, err := ls.KnownReifiers["unixfs-preload"](ipld.LinkContext{Ctx: context.Background()}, nd, ls); err != nil {
			r.Fail(id+"/preload", "preload reify: %v", err)
		} else {
			checkNode(r, id, "preload", f, want)
		}
	})
	// declared file size of a dag-pb root
	if vp.IsPB(root) {
		if b, _, err := st.Block(root); err == nil {
			if u, err := b.UnixFS(); err == nil && u.Filesize != nil && u.GetFilesize() != uint64(len(want)) {
				r.Fail(id, "declared FileSize %d, want %d", u.GetFilesize(), len(want))
			}
		}
	}
}

func TestBounded(t *testing.T) {
	r := vp.New(t)
	defer r.Done()
	saved := builder.DefaultLinksPerBlock
	defer func() { builder.DefaultLinksPerBlock = saved }()

	widths := vp.Pick([]int{2, 3, 4}, []int{2, 3, 4, 5, 174})
	ks := vp.Pick([]int{3}, []int{1, 3, 5, 16})
	for _, w := range widths {
		builder.DefaultLinksPerBlock = w
		for _, k := range ks {
			for n := 0; n <= w*w*w+w; n++ {
				if w == 174 && n > 176 && n != 348 && n != 349 && n != 30277 {
					continue // default width: only the shape boundaries
				}
				if w == 174 && k != 3 {
					break
				}
				for _, short := range []int{1, 0} {
					if n == 0 && short == 1 {
						continue
					}
					size := n*k - short
					if size < 0 {
						size = 0
					}
					id := fmt.Sprintf("build:W=%d,K=%d,n=%d,len=%d", w, k, n, size)
					want := vp.Content(size, int64(w*100000+k*10000+n*2+short))
					st := vp.NewStore()
					root, _, err := builder.BuildUnixFSFile(bytes.NewReader(want), fmt.Sprintf("size-%d", k), st.LS())
					if err != nil {
						t.Fatalf("%s: build: %v", id, err)
					}
					r.Eval(id)
					if n == w*w+1 || n == w*w*w+w {
						r.Sample(map[string]any{"case": id, "root": root.String(), "blocks": st.Len()})
					}
					checkAll(r, id, st, root, want)
				}
			}
		}
	}

	repetitive(t, r)
	large(t, r, saved)

	maxN := vp.Pick(30, 120)
	for _, layout := range []string{"balanced", "trickle"} {
		for _, raw := range []bool{true, false} {
			for _, ver := range []int{0, 1} {
				if ver == 0 && raw {
					continue
				}
				for _, w := range vp.Pick([]int{2, 3}, []int{2, 3, 4}) {
					for n := 0; n <= maxN; n++ {
						size := n*3 - 1
						if size < 0 {
							size = 0
						}
						id := fmt.Sprintf("boxo:%s,raw=%v,v%d,W=%d,n=%d", layout, raw, ver, w, n)
						want := vp.Content(size, int64(900000+w*1000+n))
						bx := vp.NewBoxo()
						nd, err := bx.ImportFile(want, "size-3", layout, w, raw, ver)
						if err != nil {
							t.Fatalf("%s: boxo import: %v", id, err)
						}
						st, err := bx.Store()
						if err != nil {
							t.Fatal(err)
						}
						r.Eval(id)
						checkAll(r, id, st, cidlink.Link{Cid: nd.Cid()}, want)
					}
				}
			}
		}
	}
}
