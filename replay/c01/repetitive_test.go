package c01

// Builder-written files with REPETITIVE content: equal chunks are equal blocks, so the stored DAG
// links one block (or one whole subtree) from several positions, also several times from a single
// node. The pseudo-random contents of the main loop have pairwise distinct chunks and never
// produce such a DAG; a reader that keeps per-link state (one child reader per distinct link, a
// cache keyed by CID, ...) reads these files back truncated or out of order without any error.
//
// Classes (chunk = K bytes, n chunks, content length n*K unless "short"):
//
//	zeros    every byte 0                          (one leaf block; every interior level repeats)
//	period1  A A A A ...    A a pseudo-random chunk (as zeros, with a non-trivial block)
//	period2  A B A B ...                            (W=2: [A,B] subtrees repeat; W=3: A B A | B A B)
//	period3  A B C A B C ...                        (W=3: one subtree repeated; W=2,4: shifted)
//	aba      A x1 A x2 A x3 ... xi pairwise distinct (W>=3: a node links A twice around other blocks)
//	halves   x1 .. xh x1 .. xh [y]  h = n/2          (two identical halves, an odd n adds a fresh chunk)
//
// Bounds (quick | thorough): W in {2,3,4} | {2,3,4,5} with every n in 1..W^3+W, K=3, exact length;
// thorough adds the length n*K-1 (",short"), K=16 (",K=16") and the default width 174 with
// n in 1..176, 348, 349, and 30277 (zeros, period3, halves only). n=0 (the empty file) is the same input in every class and is
// covered by the main loop.
//
// Case ids: builder:W=<W>,n=<n>,content=<class>[,short|,K=16]/<direct|reify|preload>

import (
	"bytes"
	"fmt"
	"testing"

	"github.com/ipfs/go-unixfsnode/data/builder"

	"replay/vp"
)

var repetitiveClasses = []string{"zeros", "period1", "period2", "period3", "aba", "halves"}

// repetitiveContent returns n chunks of k bytes of the given class.
func repetitiveContent(class string, n, k int, salt int64) []byte {
	named := func(tag byte) []byte {
		c := vp.Content(k, salt*7+int64(tag))
		c[0] = tag // A, B, C differ from each other whatever the seed
		return c
	}
	fresh := func(i int) []byte { return vp.Content(k, salt*100003+1000+int64(i)) }
	a, b, c := named(0xA1), named(0xB2), named(0xC3)
	out := make([]byte, 0, n*k)
	switch class {
	case "zeros":
		return make([]byte, n*k)
	case "period1", "period2", "period3":
		cycle := [][]byte{a, b, c}[:int(class[len(class)-1]-'0')]
		for i := 0; i < n; i++ {
			out = append(out, cycle[i%len(cycle)]...)
		}
	case "aba":
		for i := 0; i < n; i++ {
			if i%2 == 0 {
				out = append(out, a...)
			} else {
				out = append(out, fresh(i)...)
			}
		}
	case "halves":
		h := n / 2
		for i := 0; i < h; i++ {
			out = append(out, fresh(i)...)
		}
		out = append(out, out...)
		if n%2 == 1 {
			out = append(out, fresh(n)...)
		}
	default:
		panic("unknown content class " + class)
	}
	return out
}

func repetitive(t *testing.T, r *vp.Run) {
	saved := builder.DefaultLinksPerBlock
	defer func() { builder.DefaultLinksPerBlock = saved }()

	type variant struct {
		k, short int
		suffix   string
	}
	variants := vp.Pick(
		[]variant{{3, 0, ""}},
		[]variant{{3, 0, ""}, {3, 1, ",short"}, {16, 0, ",K=16"}})
	for _, w := range vp.Pick([]int{2, 3, 4}, []int{2, 3, 4, 5, 174}) {
		builder.DefaultLinksPerBlock = w
		for n := 1; n <= w*w*w+w; n++ {
			if w == 174 && n > 176 && n != 348 && n != 349 && n != 30277 {
				continue // default width: only the shape boundaries
			}
			for _, v := range variants {
				if w == 174 && v.suffix != "" {
					continue
				}
				for ci, class := range repetitiveClasses {
					if n == 30277 && class != "zeros" && class != "period3" && class != "halves" {
						continue // 90 KB read byte by byte: three classes are enough
					}
					id := fmt.Sprintf("builder:W=%d,n=%d,content=%s%s", w, n, class, v.suffix)
					want := repetitiveContent(class, n, v.k, int64(w*1000000+n*10+ci))
					want = want[:len(want)-v.short]
					st := vp.NewStore()
					root, _, err := builder.BuildUnixFSFile(bytes.NewReader(want), fmt.Sprintf("size-%d", v.k), st.LS())
					if err != nil {
						t.Fatalf("%s: build: %v", id, err)
					}
					r.Eval(id)
					checkAll(r, id, st, root, want)
				}
			}
		}
	}
}
