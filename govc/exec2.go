package main

import (
	"fmt"
	"go/ast"
	"go/token"
	"go/types"
	"sort"
	"strconv"
	"strings"

	"golang.org/x/tools/go/ssa"
)

type unsupported struct{ msg string }

// Generate runs the symbolic execution of the function and produces script items.
func (g *FnGen) Generate() (err error) {
	defer func() {
		if r := recover(); r != nil {
			if u, ok := r.(unsupported); ok {
				g.outOfSubset = append(g.outOfSubset, u.msg)
				err = fmt.Errorf("out-of-subset: %s", u.msg)
				return
			}
			panic(r)
		}
	}()
	fn := g.fn
	g.analyzeLoops()
	g.nameSites()
	g.st = State{}
	g.curGuard = "true"

	// parameters
	for i, p := range fn.Params {
		v := g.mkVal(g.freshConst("p_"+p.Name(), g.D.sortOf(p.Type())), p.Type())
		g.vals[p] = v
		g.env[p.Name()] = v
		if g.paramSet == nil {
			g.paramSet = map[string]bool{}
		}
		if v.S == sortRef {
			g.paramSet[v.T] = true
		}
		if i == 0 && fn.Signature.Recv() != nil {
			g.env["recv"] = v
		}
		g.assume("true", g.wfFacts(v), "type")
		g.assume("true", g.liveFact(g.st, v), "live")
	}
	for _, p := range fn.Params {
		g.assumeTypeInv(g.vals[p], "true")
	}
	for _, fv := range fn.FreeVars {
		v := g.mkVal(g.freshConst("fv_"+fv.Name(), g.D.sortOf(fv.Type())), fv.Type())
		g.vals[fv] = v
		g.env[fv.Name()] = v
		g.assume("true", g.wfFacts(v), "type")
		g.assume("true", g.liveFact(g.st, v), "live")
		if v.S == sortRef {
			if _, ok := fv.Type().Underlying().(*types.Pointer); ok {
				g.assume("true", not("(= "+v.T+" nil)"), "freevar-cell")
			}
		}
	}
	g.assume("true", sel(g.D.get(g.st, liveKey), "nil"), "live")
	if fn.Signature.Recv() != nil && len(fn.Params) > 0 {
		r := g.vals[fn.Params[0]]
		if r.S == sortRef {
			if _, ok := r.Go.Underlying().(*types.Pointer); ok {
				g.assume("true", not("(= "+r.T+" nil)"), "receiver-non-nil")
				g.assumptions["method receivers of pointer type are non-nil on entry"] = true
			}
		}
	}
	g.entrySt = g.st.clone()

	// global invariants (axioms about package-level state) and requires
	g.assumeGlobals("true")
	if g.C != nil {
		for i, c := range g.C.Requires {
			g.assumeClause("true", c.E, g.ctxEntry(), fmt.Sprintf("requires:%d", i))
		}
		// "calls X": a function-local flag per named callee, false on entry, set by every call of X
		// (merged at joins like heap state, forgotten by loops that contain such a call)
		for _, c := range g.C.MustCall {
			key := mustCallKey(c)
			g.D.heapKeySort(key, sortBool)
			g.st[key] = "false"
		}
		for i, c := range g.C.Shape {
			g.assumeClause("true", c.E, g.ctxEntry(), fmt.Sprintf("shape:%d", i))
			g.assumptions["input shape assumed for every obligation of "+g.name+" (guaranteed by the dependency's typing, not checked at callers): "+c.Src] = true
		}
		if len(g.C.Domain) > 0 {
			var parts []string
			for _, c := range g.C.Domain {
				ctx := g.ctxEntry()
				parts = append(parts, g.evalBool(c.E, ctx))
				cc := *ctx
				cc.st = ctx.st.clone()
				cc.oldSt = ctx.oldSt.clone()
				g.qfacts = append(g.qfacts, QFact{e: c.E, ctx: cc, guard: "true"})
			}
			g.domainTerm = g.def("Wdomain", sortBool, and(parts...))
		}
		if g.C.Decreases != nil {
			v := g.eval(g.C.Decreases.E, g.ctxEntry())
			g.entryVals = map[string]string{"decreases": to64(v)}
		}
	}

	g.cover("entry", "true")
	order := g.rpo()
	for _, b := range order {
		g.processBlock(b)
	}
	for k, r := range g.rets {
		g.cover(fmt.Sprintf("return%d", k+1), r.guard)
	}
	g.finish()
	return nil
}

func (g *FnGen) ctxEntry() *EvalCtx {
	return &EvalCtx{g: g, env: g.env, st: g.entrySt, oldSt: g.entrySt, oldEnv: g.env}
}

func (g *FnGen) ctxNow(guard string) *EvalCtx {
	return &EvalCtx{g: g, env: g.env, st: g.st, oldSt: g.entrySt, oldEnv: g.env, guard: guard}
}

func (g *FnGen) forwardPreds(b *ssa.BasicBlock) []*ssa.BasicBlock {
	var out []*ssa.BasicBlock
	for _, p := range b.Preds {
		if b.Dominates(p) {
			continue
		}
		if _, ok := g.blockGuard[p]; !ok {
			continue // unreachable predecessor
		}
		out = append(out, p)
	}
	return out
}

func (g *FnGen) exitGuard(p, b *ssa.BasicBlock) string {
	return and(g.blockGuard[p]+"", g.edge(p, b))
}

func (g *FnGen) mergeStates(b *ssa.BasicBlock, preds []*ssa.BasicBlock) State {
	if len(preds) == 0 {
		return g.st.clone()
	}
	if len(preds) == 1 {
		return g.exitState[preds[0]].clone()
	}
	keys := map[string]bool{}
	for _, p := range preds {
		for k := range g.exitState[p] {
			keys[k] = true
		}
	}
	out := State{}
	for _, k := range sortedKeys(keys) {
		first := g.D.get(g.exitState[preds[0]], k)
		same := true
		for _, p := range preds[1:] {
			if g.D.get(g.exitState[p], k) != first {
				same = false
			}
		}
		if same {
			out[k] = first
			continue
		}
		t := g.D.get(g.exitState[preds[len(preds)-1]], k)
		for i := len(preds) - 2; i >= 0; i-- {
			t = ite(g.exitGuard(preds[i], b), g.D.get(g.exitState[preds[i]], k), t)
		}
		out[k] = g.def("hm", g.D.heapSorts[k], t)
	}
	return out
}

func (g *FnGen) phiIncoming(phi *ssa.Phi, b *ssa.BasicBlock, preds []*ssa.BasicBlock) string {
	idx := func(p *ssa.BasicBlock) int {
		for i, q := range b.Preds {
			if q == p {
				return i
			}
		}
		return -1
	}
	if len(preds) == 0 {
		return g.D.zeroOf(phi.Type())
	}
	t := g.val(phi.Edges[idx(preds[len(preds)-1])]).T
	for i := len(preds) - 2; i >= 0; i-- {
		t = ite(g.exitGuard(preds[i], b), g.val(phi.Edges[idx(preds[i])]).T, t)
	}
	return t
}

func (g *FnGen) loopSpec(li *loopInfo) *LoopSpec {
	if g.C == nil {
		return nil
	}
	return g.C.Loops[li.ordinal]
}

// loopEnv extends the parameter environment with the header phis (by source name).
func (g *FnGen) loopEnv(b *ssa.BasicBlock, valueOf func(phi *ssa.Phi) Val) map[string]Val {
	env := map[string]Val{}
	for k, v := range g.env {
		env[k] = v
	}
	save := g.curBlock
	saveIdx := g.curIdx
	if g.curBlock != b {
		// evaluating for the header from a back-edge source: locals as seen at the end of that block
	} else {
		g.curIdx = 0
	}
	for k, v := range g.localsNow() {
		env[k] = v
	}
	g.curBlock, g.curIdx = save, saveIdx
	for k, v := range g.ghostLocals {
		env[k] = v
	}
	for _, ins := range b.Instrs {
		phi, ok := ins.(*ssa.Phi)
		if !ok {
			break
		}
		v := valueOf(phi)
		if phi.Comment != "" {
			env[phi.Comment] = v
		}
		env[phi.Name()] = v
	}
	// named SSA values defined in dominating blocks are available under their register name
	return env
}

func (g *FnGen) processBlock(b *ssa.BasicBlock) {
	preds := g.forwardPreds(b)
	var guard string
	if b == g.fn.Blocks[0] {
		guard = g.entryGuard
	} else if b == g.fn.Recover {
		return // recover block: only reached by a recovered panic, which we prove absent or confine
	} else {
		var parts []string
		for _, p := range preds {
			parts = append(parts, g.exitGuard(p, b))
		}
		if len(parts) == 0 {
			return // unreachable
		}
		guard = g.def("R_"+fmt.Sprint(b.Index), sortBool, or(parts...))
	}
	g.blockGuard[b] = guard
	g.curBlock = b
	g.curGuard = guard
	g.st = g.mergeStates(b, preds)

	li := g.loops[b]
	if li != nil {
		spec := g.loopSpec(li)
		// 1. invariant on entry
		entryEnv := g.loopEnv(b, func(phi *ssa.Phi) Val {
			return g.mkVal(g.def("phi_in_"+phi.Name(), g.D.sortOf(phi.Type()), g.phiIncoming(phi, b, preds)), phi.Type())
		})
		if spec != nil {
			for i, c := range spec.Invariants {
				ctx := &EvalCtx{g: g, env: entryEnv, st: g.st, oldSt: g.entrySt, oldEnv: g.env, guard: guard}
				g.obligeClause("invariant-entry", fmt.Sprintf("loop%d:%s", li.ordinal, clauseLabel(c, i)), guard, c, ctx, b.Instrs[0].Pos())
			}
		} else if !g.sweep && g.C != nil && !g.C.Trusted {
			g.assumptions[fmt.Sprintf("loop %d of %s has no invariant (treated as true)", li.ordinal, g.name)] = true
		}
		// range-over-slice loops: the hidden index obeys -1 <= idx < len by construction of the
		// SSA pattern; it is emitted as a checked invariant rather than assumed.
		autoInv := g.rangeIndexInvariants(b)
		for _, ai := range autoInv {
			in := g.phiIncoming(ai.phi, b, preds)
			g.oblige("invariant-entry", fmt.Sprintf("loop%d:auto-rangeindex", li.ordinal), guard, ai.inv(in), "range index starts at -1", b.Instrs[0].Pos())
		}
		// type invariants of the objects known before the loop (parameters, objects allocated so far)
		// are carried as checked loop invariants
		tiObjs := g.typeInvObjects()
		for n, o := range tiObjs {
			g.obligeTypeInv("invariant-entry", fmt.Sprintf("loop%d:auto-typeinv#%d", li.ordinal, n+1), and(guard, not("(= "+o.T+" nil)")), o, g.st, "type invariant of "+typeInvName(o.Go)+" holds on loop entry", b.Instrs[0].Pos())
		}
		g.loopTypeInvObjs[b] = tiObjs
		// 2. havoc
		for _, k := range sortedKeys(li.mods) {
			if k == "*" {
				for hk := range g.D.heapSorts {
					g.st[hk] = g.freshConst("hv", g.D.heapSorts[hk])
				}
				continue
			}
			g.ensureKey(k)
			if _, ok := g.D.heapSorts[k]; !ok {
				panic(unsupported{"loop writes heap key " + k + " whose sort cannot be reconstructed"})
			}
			g.st[k] = g.freshConst("hv", g.D.heapSorts[k])
		}
		if li.mods[liveKey] {
			// monotonicity of Live for the values we know about
			for _, v := range g.env {
				g.assume(guard, g.liveFact(g.st, v), "live")
			}
			for _, a := range g.root().allAllocs {
				g.assume("true", sel(g.D.get(g.st, liveKey), a), "live-alloc")
			}
			g.assume("true", sel(g.D.get(g.st, liveKey), "nil"), "live")
		}
		for _, ins := range b.Instrs {
			phi, ok := ins.(*ssa.Phi)
			if !ok {
				break
			}
			v := g.mkVal(g.freshConst("phi_"+phi.Name(), g.D.sortOf(phi.Type())), phi.Type())
			g.vals[phi] = v
			g.assume("true", g.wfFacts(v), "type")
			g.assume(guard, g.liveFact(g.st, v), "live")
		}
		// 3. assume invariant
		if spec != nil {
			env := g.loopEnv(b, func(phi *ssa.Phi) Val { return g.vals[phi] })
			for i, c := range spec.Invariants {
				ctx := &EvalCtx{g: g, env: env, st: g.st, oldSt: g.entrySt, oldEnv: g.env, guard: guard}
				if g.domainTerm != "" {
					g.assumeClause(and(guard, g.domainTerm), c.E, ctx, fmt.Sprintf("invariant:%d", i))
				} else {
					g.assumeClause(guard, c.E, ctx, fmt.Sprintf("invariant:%d", i))
				}
			}
			if spec.Decreases != nil {
				ctx := &EvalCtx{g: g, env: env, st: g.st, oldSt: g.entrySt, oldEnv: g.env, guard: guard}
				v := g.eval(spec.Decreases.E, ctx)
				if g.entryVals == nil {
					g.entryVals = map[string]string{}
				}
				g.entryVals[fmt.Sprintf("loop%d", li.ordinal)] = g.def("measure", sortBV64, to64(v))
			}
		}
		for _, ai := range autoInv {
			g.assume(guard, ai.inv(g.vals[ai.phi].T), "auto-rangeindex")
		}
		for _, o := range tiObjs {
			g.assumeTypeInvAt(and(guard, not("(= "+o.T+" nil)")), o, g.st, "auto-typeinv")
		}
		g.autoInvs[b] = autoInv
		g.assumeGlobals(guard)
	} else {
		for _, ins := range b.Instrs {
			phi, ok := ins.(*ssa.Phi)
			if !ok {
				break
			}
			pv := g.mkVal(g.def("phi_"+phi.Name(), g.D.sortOf(phi.Type()), g.phiIncoming(phi, b, preds)), phi.Type())
			if pv.S == sortRef {
				var alts []Val
				for _, e := range phi.Edges {
					if ev, ok := g.vals[e]; ok {
						alts = append(alts, ev)
					} else if c, ok := e.(*ssa.Const); ok {
						alts = append(alts, g.constVal(c))
					}
				}
				pv.Place, pv.PlaceLost = mergePlaces(alts)
			}
			g.vals[phi] = pv
		}
	}

	for i, ins := range b.Instrs {
		if _, ok := ins.(*ssa.Phi); ok {
			continue
		}
		g.curIdx = i
		g.instr(ins)
	}
	g.curIdx = len(b.Instrs)
	g.exitState[b] = g.st

	// back edges out of this block: invariant preserved
	for _, s := range b.Succs {
		if !s.Dominates(b) {
			continue
		}
		li := g.loops[s]
		spec := g.loopSpec(li)
		eg := g.exitGuard(b, s)
		idx := -1
		for i, q := range s.Preds {
			if q == b {
				idx = i
			}
		}
		for _, ai := range g.autoInvs[s] {
			g.oblige("invariant-preserved", fmt.Sprintf("loop%d:auto-rangeindex", li.ordinal), eg, ai.inv(g.val(ai.phi.Edges[idx]).T), "range index stays below the length", token.NoPos)
		}
		for n, o := range g.loopTypeInvObjs[s] {
			g.obligeTypeInv("invariant-preserved", fmt.Sprintf("loop%d:auto-typeinv#%d", li.ordinal, n+1), and(eg, not("(= "+o.T+" nil)")), o, g.st, "type invariant of "+typeInvName(o.Go)+" is preserved by the loop body", token.NoPos)
		}
		if spec == nil {
			continue
		}
		env := g.loopEnv(s, func(phi *ssa.Phi) Val {
			v := g.val(phi.Edges[idx])
			v.Go = phi.Type()
			return v
		})
		for i, c := range spec.Invariants {
			ctx := &EvalCtx{g: g, env: env, st: g.st, oldSt: g.entrySt, oldEnv: g.env, guard: eg}
			g.obligeClause("invariant-preserved", fmt.Sprintf("loop%d:%s", li.ordinal, clauseLabel(c, i)), eg, c, ctx, b.Instrs[len(b.Instrs)-1].Pos())
		}
		if spec.Decreases != nil {
			ctx := &EvalCtx{g: g, env: env, st: g.st, oldSt: g.entrySt, oldEnv: g.env, guard: eg}
			v := to64(g.eval(spec.Decreases.E, ctx))
			m := g.entryVals[fmt.Sprintf("loop%d", li.ordinal)]
			g.oblige("decreases", fmt.Sprintf("loop%d", li.ordinal), eg,
				and(fmt.Sprintf("(bvslt %s %s)", v, m), fmt.Sprintf("(bvsle (_ bv0 64) %s)", m)), spec.Decreases.Src, token.NoPos)
		}
	}
}

func clauseLabel(c Clause, i int) string {
	if c.Name != "" {
		return c.Name
	}
	return fmt.Sprint(i)
}

// ---------------------------------------------------------------------------------------
// Instructions

func (g *FnGen) setVal(v ssa.Value, x Val) { g.vals[v] = x }

func (g *FnGen) defVal(v ssa.Value, term string) Val {
	t := v.Type()
	x := g.mkVal(g.def(v.Name(), g.D.sortOf(t), term), t)
	g.vals[v] = x
	return x
}

func (g *FnGen) instr(ins ssa.Instruction) {
	guard := g.curGuard
	switch x := ins.(type) {
	case *ssa.DebugRef:
		if id, ok := x.Expr.(*ast.Ident); ok && !x.IsAddr && g.parent == nil {
			var lv Val
			have := false
			if v, ok := g.vals[x.X]; ok {
				lv, have = v, true
			} else if c, ok := x.X.(*ssa.Const); ok {
				lv, have = g.constVal(c), true
			}
			if have {
				if g.localDefs == nil {
					g.localDefs = map[string][]localDef{}
				}
				g.localDefs[id.Name] = append(g.localDefs[id.Name], localDef{g.curBlock, g.curIdx, lv})
			}
		}
		// an addressable struct-typed local (`b := T{...}` whose address escapes) is named in
		// contracts through its address: `b.f` reads the field through that pointer
		if id, ok := x.Expr.(*ast.Ident); ok && x.IsAddr && g.parent == nil {
			if pt, ok := x.X.Type().Underlying().(*types.Pointer); ok {
				if _, isStruct := pt.Elem().Underlying().(*types.Struct); isStruct {
					if v, ok := g.vals[x.X]; ok {
						if g.localDefs == nil {
							g.localDefs = map[string][]localDef{}
						}
						g.localDefs[id.Name] = append(g.localDefs[id.Name], localDef{g.curBlock, g.curIdx, v})
					}
				}
			}
		}
	case *ssa.Alloc:
		g.doAlloc(x)
	case *ssa.BinOp:
		g.doBinOp(x)
	case *ssa.UnOp:
		g.doUnOp(x)
	case *ssa.Convert:
		g.doConvert(x)
	case *ssa.ChangeType:
		v := g.val(x.X)
		v.Go = x.Type()
		g.vals[x] = v
	case *ssa.ChangeInterface:
		v := g.val(x.X)
		v.Go = x.Type()
		g.vals[x] = v
	case *ssa.MakeInterface:
		g.doMakeInterface(x)
	case *ssa.Extract:
		tup, ok := g.tuples[x.Tuple]
		if !ok {
			panic(unsupported{"extract from unknown tuple " + x.Tuple.Name()})
		}
		v := tup[x.Index]
		g.vals[x] = v
	case *ssa.Field:
		sv := g.val(x.X)
		info := g.D.structInfo[sv.S]
		g.defVal(x, "("+info.fields[x.Field]+" "+sv.T+")")
	case *ssa.FieldAddr:
		g.doFieldAddr(x)
	case *ssa.IndexAddr:
		g.doIndexAddr(x)
	case *ssa.Index:
		av := g.val(x.X)
		iv := g.val(x.Index)
		if av.S == sortStr {
			i64 := to64(iv)
			g.oblige("index", g.siteNames[x], guard, and(fmt.Sprintf("(bvsle (_ bv0 64) %s)", i64), fmt.Sprintf("(bvslt %s (slen %s))", i64, av.T)), "string index in range", x.Pos())
			g.defVal(x, fmt.Sprintf("(sat %s %s)", av.T, i64))
			return
		}
		n := x.X.Type().Underlying().(*types.Array).Len()
		i64 := to64(iv)
		g.oblige("index", g.siteNames[x], guard, and(fmt.Sprintf("(bvsle (_ bv0 64) %s)", i64), fmt.Sprintf("(bvslt %s %s)", i64, bvInt(n, 64))), "array index in range", x.Pos())
		g.defVal(x, sel(av.T, i64))
	case *ssa.Lookup:
		g.doLookup(x)
	case *ssa.Slice:
		g.doSlice(x)
	case *ssa.MakeSlice:
		g.doMakeSlice(x)
	case *ssa.MakeMap:
		r := g.allocRef(x.Name(), guard)
		mt := x.Type().Underlying().(*types.Map)
		h, _, l := g.D.mapKeysT(mt.Key(), mt.Elem())
		ks := g.D.sortOf(mt.Key())
		g.st[h] = g.def("h", g.D.heapSorts[h], store(g.D.get(g.st, h), r, fmt.Sprintf("((as const (Array %s Bool)) false)", ks)))
		g.st[l] = g.def("h", g.D.heapSorts[l], store(g.D.get(g.st, l), r, bvInt(0, 64)))
		g.vals[x] = Val{T: r, S: sortRef, Go: x.Type()}
	case *ssa.MapUpdate:
		g.doMapUpdate(x)
	case *ssa.MakeClosure:
		r := g.allocRef(x.Name(), guard)
		g.vals[x] = Val{T: r, S: sortRef, Go: x.Type()}
		g.checkBoundMethod(x)
	case *ssa.Range:
		g.vals[x] = Val{T: "nil", S: sortRef, Go: x.Type()}
	case *ssa.Next:
		g.doNext(x)
	case *ssa.TypeAssert:
		g.doTypeAssert(x)
	case *ssa.Store:
		g.doStore(x)
	case *ssa.Call:
		g.doCall(x, x)
	case *ssa.Defer:
		g.defers = append(g.defers, x)
	case *ssa.RunDefers:
		pre := g.st.clone()
		for i := len(g.defers) - 1; i >= 0; i-- {
			d := g.defers[i]
			for k := range g.E.callMods(d, true) {
				g.havocKey(k)
			}
		}
		// A deferred call cannot reach the cells of this function's non-escaping locals (go/ssa
		// marks them "local", Heap == false: their address is never stored or passed on). Since
		// x/tools 0.29 the results of a function with a defer are spilled to such cells around
		// rundefers, so without this the wholesale havoc above would forget the results.
		if len(g.defers) > 0 {
			var locals []string
			for _, b := range g.fn.Blocks {
				for _, in := range b.Instrs {
					if al, ok := in.(*ssa.Alloc); ok && !al.Heap {
						if v, ok := g.vals[al]; ok {
							locals = append(locals, v.T)
						}
					}
				}
			}
			var hkeys []string
			for k := range g.D.heapSorts {
				hkeys = append(hkeys, k)
			}
			sort.Strings(hkeys)
			for _, k := range hkeys {
				srt := g.D.heapSorts[k]
				if k == liveKey || !strings.HasPrefix(srt, "(Array Ref ") || g.st[k] == pre[k] || pre[k] == "" {
					continue
				}
				cur := g.D.get(g.st, k)
				for _, l := range locals {
					cur = store(cur, l, sel(g.D.get(pre, k), l))
				}
				g.st[k] = g.def("hkeep", srt, cur)
			}
		}
	case *ssa.Go:
		panic(unsupported{"go statement"})
	case *ssa.Select:
		panic(unsupported{"select"})
	case *ssa.Send:
		panic(unsupported{"channel send"})
	case *ssa.If:
		c := g.val(x.Cond).T
		b := g.curBlock
		if b.Succs[0] == b.Succs[1] {
			g.edgeCond[[2]*ssa.BasicBlock{b, b.Succs[0]}] = "true"
		} else {
			g.edgeCond[[2]*ssa.BasicBlock{b, b.Succs[0]}] = c
			g.edgeCond[[2]*ssa.BasicBlock{b, b.Succs[1]}] = not(c)
		}
	case *ssa.Jump:
	case *ssa.Return:
		var rs []Val
		for _, r := range x.Results {
			rs = append(rs, g.val(r))
		}
		g.rets = append(g.rets, retInfo{block: g.curBlock, idx: g.curIdx, pos: x.Pos(), guard: guard, results: rs, st: g.st.clone()})
	case *ssa.Panic:
		if g.C != nil && g.C.MayPanic {
			return
		}
		g.oblige("panic", g.siteNames[x], guard, "false", "explicit panic is unreachable", x.Pos())
	case *ssa.SliceToArrayPointer, *ssa.MultiConvert:
		panic(unsupported{fmt.Sprintf("%T", ins)})
	default:
		panic(unsupported{fmt.Sprintf("instruction %T", ins)})
	}
}

func (g *FnGen) havocKey(k string) {
	if k == "*" {
		for hk, s := range g.D.heapSorts {
			if hk == liveKey {
				continue
			}
			g.st[hk] = g.freshConst("hv", s)
		}
		return
	}
	if k == liveKey {
		return // Live is only extended explicitly
	}
	g.ensureKey(k)
	if s, ok := g.D.heapSorts[k]; ok {
		g.st[k] = g.freshConst("hv", s)
	}
}

// allocRef introduces a freshly allocated reference.
func (g *FnGen) allocRef(name, guard string) string {
	r := g.freshConst("new_"+name, sortRef)
	live := g.D.get(g.st, liveKey)
	g.assume("true", not("(= "+r+" nil)"), "alloc")
	g.assume(guard, not(sel(live, r)), "alloc-fresh")
	rt := g.root()
	if rt.entrySt != nil {
		g.assume("true", not(sel(g.D.get(rt.entrySt, liveKey), r)), "alloc-not-live-at-entry")
	}
	rt.allAllocs = append(rt.allAllocs, r)
	if rt.allocSet == nil {
		rt.allocSet = map[string]bool{}
	}
	rt.allocSet[r] = true
	g.st[liveKey] = g.def("live", g.D.heapSorts[liveKey], store(live, r, "true"))
	return r
}

func (g *FnGen) doAlloc(x *ssa.Alloc) {
	et := x.Type().(*types.Pointer).Elem()
	r := g.allocRef(x.Name(), g.curGuard)
	v := Val{T: r, S: sortRef, Go: x.Type()}
	g.vals[x] = v
	if x.Comment != "" && g.parent == nil {
		if _, isStruct := et.Underlying().(*types.Struct); !isStruct {
			if _, isArr := et.Underlying().(*types.Array); !isArr {
				if g.cellVars == nil {
					g.cellVars = map[string]Val{}
				}
				g.cellVars[x.Comment] = v
			}
		}
	}
	if tn := typeInvName(x.Type()); tn != "" && len(g.S.TypeInvs[tn]) > 0 && x.Heap {
		rt := g.root()
		rt.ownAllocs[tn] = append(rt.ownAllocs[tn], ownAlloc{r, g.curGuard})
	}
	// zero-initialise
	switch u := et.Underlying().(type) {
	case *types.Struct:
		_ = u
		g.storeStruct(g.st, r, et, g.D.zeroOf(et))
	case *types.Array:
		k := g.D.memKeyT(u.Elem())
		g.st[k] = g.def("h", g.D.heapSorts[k], store(g.D.get(g.st, k), r, g.D.zeroOf(et)))
	default:
		p := g.placeOf(v)
		g.storePlace(g.st, p, g.D.zeroOf(et))
	}
}

func (g *FnGen) doFieldAddr(x *ssa.FieldAddr) {
	base := g.val(x.X)
	if base.PlaceLost {
		panic(unsupported{"field address through a pointer whose target differs between control-flow paths"})
	}
	st, s := derefStruct(x.X.Type())
	if st == nil {
		panic(unsupported{"FieldAddr on non-struct pointer"})
	}
	ft := s.Field(x.Field).Type()
	resT := x.Type()
	if base.Place != nil {
		// nested: field of a struct value stored at a place
		p := *base.Place
		p.Path = append(append([]pathStep{}, p.Path...), pathStep{structSort: g.D.sortOf(st), field: x.Field})
		p.Elem = ft
		g.vals[x] = Val{T: g.opaqueAddr(&p), S: sortRef, Go: resT, Place: &p}
		return
	}
	g.oblige(nilKind(x.X), g.siteNames[x], g.curGuard, not("(= "+base.T+" nil)"), "field access through nil pointer", x.Pos())
	key, _ := g.D.fieldKey(st, x.Field)
	p := &Place{Key: key, Base: base.T, Elem: ft}
	g.vals[x] = Val{T: g.opaqueAddr(p), S: sortRef, Go: resT, Place: p}
}

// opaqueAddr gives an address that escapes a deterministic identity.
func (g *FnGen) opaqueAddr(p *Place) string {
	id := sanitize(p.Key)
	for _, s := range p.Path {
		id += fmt.Sprintf("_%d", s.field)
	}
	if p.Idx != "" {
		g.D.declare("addr2:"+id, fmt.Sprintf("(declare-fun addr_%s (Ref (_ BitVec 64)) Ref)", id))
		t := fmt.Sprintf("(addr_%s %s %s)", id, p.Base, p.Idx)
		g.assume("true", not("(= "+t+" nil)"), "addr-non-nil")
		return t
	}
	if p.Base == "" {
		g.D.declare("addr0:"+id, fmt.Sprintf("(declare-const addr_%s Ref)", id))
		return "addr_" + id
	}
	g.D.declare("addr1:"+id, fmt.Sprintf("(declare-fun addr_%s (Ref) Ref)", id))
	t := fmt.Sprintf("(addr_%s %s)", id, p.Base)
	g.assume("true", not("(= "+t+" nil)"), "addr-non-nil")
	return t
}

func (g *FnGen) doIndexAddr(x *ssa.IndexAddr) {
	base := g.val(x.X)
	iv := g.val(x.Index)
	i64 := to64(iv)
	switch t := x.X.Type().Underlying().(type) {
	case *types.Slice:
		g.oblige("index", g.siteNames[x], g.curGuard,
			and(fmt.Sprintf("(bvsle (_ bv0 64) %s)", i64), fmt.Sprintf("(bvslt %s (s_len %s))", i64, base.T)), "slice index in range", x.Pos())
		p := &Place{Key: g.D.memKeyT(t.Elem()), Base: "(s_base " + base.T + ")", Idx: fmt.Sprintf("(bvadd (s_off %s) %s)", base.T, i64), Elem: t.Elem()}
		g.vals[x] = Val{T: g.opaqueAddr(p), S: sortRef, Go: x.Type(), Place: p}
	case *types.Pointer:
		arr := t.Elem().Underlying().(*types.Array)
		g.oblige("index", g.siteNames[x], g.curGuard,
			and(fmt.Sprintf("(bvsle (_ bv0 64) %s)", i64), fmt.Sprintf("(bvslt %s %s)", i64, bvInt(arr.Len(), 64))), "array index in range", x.Pos())
		if base.Place != nil {
			panic(unsupported{"IndexAddr on array nested in a place"})
		}
		p := &Place{Key: g.D.memKeyT(arr.Elem()), Base: base.T, Idx: i64, Elem: arr.Elem()}
		g.vals[x] = Val{T: g.opaqueAddr(p), S: sortRef, Go: x.Type(), Place: p}
	default:
		panic(unsupported{"IndexAddr on " + x.X.Type().String()})
	}
}

func (g *FnGen) doLookup(x *ssa.Lookup) {
	switch t := x.X.Type().Underlying().(type) {
	case *types.Map:
		m := g.val(x.X)
		k := g.val(x.Index)
		h, vk, _ := g.D.mapKeysT(t.Key(), t.Elem())
		has := sel(sel(g.D.get(g.st, h), m.T), k.T)
		zero := g.D.zeroOf(t.Elem())
		// reading a nil map yields the zero value
		hasT := g.def(x.Name()+"_ok", sortBool, and(not("(= "+m.T+" nil)"), has))
		valT := g.def(x.Name()+"_v", g.D.sortOf(t.Elem()), ite(hasT, sel(sel(g.D.get(g.st, vk), m.T), k.T), zero))
		v := g.mkVal(valT, t.Elem())
		g.assume("true", g.wfFacts(v), "type")
		g.assume(g.curGuard, g.liveFact(g.st, v), "live")
		if x.CommaOk {
			g.tuples[x] = []Val{v, {T: hasT, S: sortBool, Go: types.Typ[types.Bool]}}
		} else {
			g.vals[x] = v
		}
	default:
		// string index
		s := g.val(x.X)
		i64 := to64(g.val(x.Index))
		g.oblige("index", g.siteNames[x], g.curGuard,
			and(fmt.Sprintf("(bvsle (_ bv0 64) %s)", i64), fmt.Sprintf("(bvslt %s (slen %s))", i64, s.T)), "string index in range", x.Pos())
		g.defVal(x, fmt.Sprintf("(sat %s %s)", s.T, i64))
	}
}

func (g *FnGen) doSlice(x *ssa.Slice) {
	base := g.val(x.X)
	// C17: a slice taken of an array that lives inside a node type shared between goroutines
	// hands out that node's own storage; whoever receives it may write it without any lock. Only
	// allowed on an object this function created itself.
	if fa, ok := x.X.(*ssa.FieldAddr); ok && len(g.S.SharedTypes) > 0 {
		if st, _ := derefStruct(fa.X.Type()); st != nil && g.S.SharedTypes[typeName(st)] {
			owner := g.val(fa.X)
			g.oblige("shared-write", g.siteNames[x]+":"+typeName(st)+":slice-of-own-storage", g.curGuard, g.isFresh(owner.T), "storage inside a shared node is sliced (and so handed out for writing) only on a fresh object", x.Pos())
		}
	}
	var lo, hi, max string
	if x.Low != nil {
		lo = to64(g.val(x.Low))
	} else {
		lo = bvInt(0, 64)
	}
	switch t := x.X.Type().Underlying().(type) {
	case *types.Slice:
		if x.High != nil {
			hi = to64(g.val(x.High))
		} else {
			hi = "(s_len " + base.T + ")"
		}
		capT := "(s_cap " + base.T + ")"
		if x.Max != nil {
			max = to64(g.val(x.Max))
		} else {
			max = capT
		}
		cond := and(fmt.Sprintf("(bvsle (_ bv0 64) %s)", lo), fmt.Sprintf("(bvsle %s %s)", lo, hi),
			fmt.Sprintf("(bvsle %s %s)", hi, max), fmt.Sprintf("(bvsle %s %s)", max, capT))
		g.oblige("slice", g.siteNames[x], g.curGuard, cond, "slice bounds in range", x.Pos())
		g.defVal(x, fmt.Sprintf("(mk_slice (s_base %s) (bvadd (s_off %s) %s) (bvsub %s %s) (bvsub %s %s))", base.T, base.T, lo, hi, lo, max, lo))
	case *types.Basic: // string
		if x.High != nil {
			hi = to64(g.val(x.High))
		} else {
			hi = "(slen " + base.T + ")"
		}
		cond := and(fmt.Sprintf("(bvsle (_ bv0 64) %s)", lo), fmt.Sprintf("(bvsle %s %s)", lo, hi), fmt.Sprintf("(bvsle %s (slen %s))", hi, base.T))
		g.oblige("slice", g.siteNames[x], g.curGuard, cond, "string slice bounds in range", x.Pos())
		v := g.defVal(x, fmt.Sprintf("(ssub %s %s %s)", base.T, lo, hi))
		g.assume(g.curGuard, fmt.Sprintf("(= (slen %s) (bvsub %s %s))", v.T, hi, lo), "ssub-len")
		g.assume(g.curGuard, implies(and(fmt.Sprintf("(= %s (_ bv0 64))", lo), fmt.Sprintf("(= %s (slen %s))", hi, base.T)), fmt.Sprintf("(= %s %s)", v.T, base.T)), "ssub-whole")
	case *types.Pointer: // pointer to array
		arr := t.Elem().Underlying().(*types.Array)
		n := bvInt(arr.Len(), 64)
		if x.High != nil {
			hi = to64(g.val(x.High))
		} else {
			hi = n
		}
		if x.Max != nil {
			max = to64(g.val(x.Max))
		} else {
			max = n
		}
		cond := and(fmt.Sprintf("(bvsle (_ bv0 64) %s)", lo), fmt.Sprintf("(bvsle %s %s)", lo, hi),
			fmt.Sprintf("(bvsle %s %s)", hi, max), fmt.Sprintf("(bvsle %s %s)", max, n))
		g.oblige("slice", g.siteNames[x], g.curGuard, cond, "array slice bounds in range", x.Pos())
		g.defVal(x, fmt.Sprintf("(mk_slice %s %s (bvsub %s %s) (bvsub %s %s))", base.T, lo, hi, lo, max, lo))
	default:
		panic(unsupported{"Slice on " + x.X.Type().String()})
	}
}

func (g *FnGen) doMakeSlice(x *ssa.MakeSlice) {
	ln := to64(g.val(x.Len))
	cp := to64(g.val(x.Cap))
	g.oblige("make", g.siteNames[x], g.curGuard, and(fmt.Sprintf("(bvsle (_ bv0 64) %s)", ln), fmt.Sprintf("(bvsle %s %s)", ln, cp)), "make: 0 <= len <= cap", x.Pos())
	r := g.allocRef(x.Name(), g.curGuard)
	et := x.Type().Underlying().(*types.Slice).Elem()
	k := g.D.memKeyT(et)
	es := g.D.sortOf(et)
	zeroArr := fmt.Sprintf("((as const (Array (_ BitVec 64) %s)) %s)", es, g.D.zeroOf(et))
	g.st[k] = g.def("h", g.D.heapSorts[k], store(g.D.get(g.st, k), r, zeroArr))
	g.defVal(x, fmt.Sprintf("(mk_slice %s (_ bv0 64) %s %s)", r, ln, cp))
}

func (g *FnGen) doMapUpdate(x *ssa.MapUpdate) {
	m := g.val(x.Map)
	k := g.val(x.Key)
	v := g.val(x.Value)
	mt := x.Map.Type().Underlying().(*types.Map)
	h, vk, l := g.D.mapKeysT(mt.Key(), mt.Elem())
	g.oblige("nil-map", g.siteNames[x], g.curGuard, not("(= "+m.T+" nil)"), "assignment to entry in nil map", x.Pos())
	g.checkSharedWrite(x, m.T, "map "+typeName(x.Map.Type()), x.Pos())
	// a map read from a field of an invariant-carrying struct belongs to that struct: updating it
	// may break the struct's invariant, which is then re-checked like after a field write
	if ld, ok := x.Map.(*ssa.UnOp); ok && ld.Op == token.MUL {
		if fa, ok := ld.X.(*ssa.FieldAddr); ok {
			g.noteInvWrite(fa, nil)
		}
	}
	hasArr := g.D.get(g.st, h)
	had := sel(sel(hasArr, m.T), k.T)
	// at-site assertions of the contract ("at call mapupdate#k assert ..."; #0 = every map update of
	// the function), evaluated before the update with upd_map / upd_key / upd_value / upd_had bound
	if g.C != nil && g.parent == nil {
		ord := 0
		if sn := g.siteNames[x]; strings.HasPrefix(sn, "mapupdate#") {
			ord, _ = strconv.Atoi(strings.TrimPrefix(sn, "mapupdate#"))
		}
		for _, cs := range g.C.Calls {
			if cs.Callee != "mapupdate" || (cs.K != 0 && cs.K != ord) {
				continue
			}
			env := map[string]Val{"upd_map": m, "upd_key": k, "upd_value": v,
				"upd_had": {T: g.def("upd_had", sortBool, had), S: sortBool, Go: types.Typ[types.Bool]}}
			for k2, v2 := range g.env {
				if _, dup := env[k2]; !dup {
					env[k2] = v2
				}
			}
			for i, a := range cs.Assert {
				ctx := &EvalCtx{g: g, env: env, st: g.st, oldSt: g.entrySt, oldEnv: g.env, guard: g.curGuard}
				g.obligeClause("assert", g.siteNames[x]+"/"+clauseLabel(a, i), g.curGuard, a, ctx, x.Pos())
			}
		}
	}
	lenArr := g.D.get(g.st, l)
	g.st[l] = g.def("h", g.D.heapSorts[l], store(lenArr, m.T, ite(had, sel(lenArr, m.T), fmt.Sprintf("(bvadd %s (_ bv1 64))", sel(lenArr, m.T)))))
	g.st[h] = g.def("h", g.D.heapSorts[h], store(hasArr, m.T, store(sel(hasArr, m.T), k.T, "true")))
	valArr := g.D.get(g.st, vk)
	g.st[vk] = g.def("h", g.D.heapSorts[vk], store(valArr, m.T, store(sel(valArr, m.T), k.T, v.T)))
}

func (g *FnGen) doNext(x *ssa.Next) {
	rng := x.Iter.(*ssa.Range)
	ok := Val{T: g.freshConst(x.Name()+"_ok", sortBool), S: sortBool, Go: types.Typ[types.Bool]}
	if x.IsString {
		s := g.val(rng.X)
		k := g.freshVal(x.Name()+"_k", types.Typ[types.Int], g.curGuard)
		v := g.freshVal(x.Name()+"_v", types.Typ[types.Rune], g.curGuard)
		g.assume(g.curGuard, implies(ok.T, and(fmt.Sprintf("(bvsle (_ bv0 64) %s)", k.T), fmt.Sprintf("(bvslt %s (slen %s))", k.T, s.T))), "range-string")
		g.tuples[x] = []Val{ok, k, v}
		return
	}
	m := g.val(rng.X)
	mt := rng.X.Type().Underlying().(*types.Map)
	h, vk, _ := g.D.mapKeysT(mt.Key(), mt.Elem())
	k := g.freshVal(x.Name()+"_k", mt.Key(), g.curGuard)
	v := g.freshVal(x.Name()+"_v", mt.Elem(), g.curGuard)
	g.assume(g.curGuard, implies(ok.T, and(not("(= "+m.T+" nil)"), sel(sel(g.D.get(g.st, h), m.T), k.T),
		fmt.Sprintf("(= %s %s)", v.T, sel(sel(g.D.get(g.st, vk), m.T), k.T)))), "range-map")
	g.tuples[x] = []Val{ok, k, v}
}

func (g *FnGen) doStore(x *ssa.Store) {
	addr := g.val(x.Addr)
	v := g.val(x.Val)
	// frame / shared-state obligations
	if p := g.placeOf(addr); p != nil && p.Base != "" && p.Idx == "" {
		g.checkAssign(x, p, x.Pos())
		g.noteInvWrite(x.Addr, p)
	} else if p == nil {
		// whole-struct store through a pointer
		g.checkAssignRef(x, addr, x.Pos())
	}
	g.storeTo(g.st, addr, v)
}

func (g *FnGen) doMakeInterface(x *ssa.MakeInterface) {
	v := g.val(x.X)
	t := x.X.Type()
	tid := g.D.typeID(t)
	switch t.Underlying().(type) {
	case *types.Pointer, *types.Map, *types.Chan, *types.Signature, *types.Interface:
		// reference types: the interface value is the reference itself (a typed nil pointer is
		// modelled as a nil interface: listed as an assumption)
		g.vals[x] = Val{T: v.T, S: sortRef, Go: x.Type()}
		g.assume(g.curGuard, implies(not("(= "+v.T+" nil)"), fmt.Sprintf("(= (dyntype %s) %d)", v.T, tid)), "dyntype")
		return
	}
	// value types are boxed by an injective function of the value
	bs := fmt.Sprintf("box_%d", tid)
	g.D.declare("box:"+bs, fmt.Sprintf("(declare-fun %s (%s) Ref)", bs, v.S))
	g.D.declare("unbox:"+bs, fmt.Sprintf("(declare-fun un%s (Ref) %s)", bs, v.S))
	r := g.defVal(x, fmt.Sprintf("(%s %s)", bs, v.T))
	g.assume("true", and(not("(= "+r.T+" nil)"), fmt.Sprintf("(= (dyntype %s) %d)", r.T, tid), fmt.Sprintf("(= (un%s %s) %s)", bs, r.T, v.T)), "box")
	g.assume(g.curGuard, sel(g.D.get(g.st, liveKey), r.T), "box-live")
}

func (g *FnGen) doTypeAssert(x *ssa.TypeAssert) {
	v := g.val(x.X)
	at := x.AssertedType
	var okT string
	var res Val
	if _, isIface := at.Underlying().(*types.Interface); isIface {
		tid := g.D.typeID(at)
		okT = and(not("(= "+v.T+" nil)"), fmt.Sprintf("(implements (dyntype %s) %d)", v.T, tid))
		okT = g.def(x.Name()+"_ok", sortBool, okT)
		res = Val{T: g.def(x.Name()+"_v", sortRef, ite(okT, v.T, "nil")), S: sortRef, Go: at}
	} else {
		tid := g.D.typeID(at)
		okT = g.def(x.Name()+"_ok", sortBool, and(not("(= "+v.T+" nil)"), fmt.Sprintf("(= (dyntype %s) %d)", v.T, tid)))
		switch at.Underlying().(type) {
		case *types.Pointer, *types.Map, *types.Chan, *types.Signature:
			res = Val{T: g.def(x.Name()+"_v", sortRef, ite(okT, v.T, "nil")), S: sortRef, Go: at}
		default:
			bs := fmt.Sprintf("box_%d", tid)
			s := g.D.sortOf(at)
			g.D.declare("box:"+bs, fmt.Sprintf("(declare-fun %s (%s) Ref)", bs, s))
			g.D.declare("unbox:"+bs, fmt.Sprintf("(declare-fun un%s (Ref) %s)", bs, s))
			res = g.mkVal(g.def(x.Name()+"_v", s, ite(okT, fmt.Sprintf("(un%s %s)", bs, v.T), g.D.zeroOf(at))), at)
			g.assume("true", g.wfFacts(res), "type")
		}
	}
	g.assumeTypeInv(res, g.curGuard)
	if x.CommaOk {
		g.tuples[x] = []Val{res, {T: okT, S: sortBool, Go: types.Typ[types.Bool]}}
		return
	}
	g.oblige("typeassert", g.siteNames[x], g.curGuard, okT, "type assertion without comma-ok succeeds", x.Pos())
	g.vals[x] = res
}

func (g *FnGen) doConvert(x *ssa.Convert) {
	v := g.val(x.X)
	from := x.X.Type().Underlying()
	to := x.Type().Underlying()
	ts := g.D.sortOf(x.Type())
	switch {
	case isBV(v.S) && isBV(ts):
		g.defVal(x, convInt(v.T, bvWidth(v.S), bvWidth(ts), isSigned(x.X.Type())))
	case v.S == sortStr && ts == sortSlice:
		// []byte(s): fresh backing array whose contents are the string's bytes
		r := g.allocRef(x.Name(), g.curGuard)
		et := to.(*types.Slice).Elem()
		k := g.D.memKeyT(et)
		arr := g.freshConst("strbytes", fmt.Sprintf("(Array (_ BitVec 64) %s)", g.D.sortOf(et)))
		g.st[k] = g.def("h", g.D.heapSorts[k], store(g.D.get(g.st, k), r, arr))
		res := g.defVal(x, fmt.Sprintf("(mk_slice %s (_ bv0 64) (slen %s) (slen %s))", r, v.T, v.T))
		if g.D.sortOf(et) == bvSort(8) {
			g.assume(g.curGuard, fmt.Sprintf("(= (bytes2str %s (_ bv0 64) (slen %s) %s) %s)", r, v.T, arr, v.T), "str-bytes")
		}
		_ = res
	case v.S == sortSlice && ts == sortStr:
		et := from.(*types.Slice).Elem()
		k := g.D.memKeyT(et)
		res := g.defVal(x, fmt.Sprintf("(bytes2str (s_base %s) (s_off %s) (s_len %s) %s)", v.T, v.T, v.T, sel(g.D.get(g.st, k), "(s_base "+v.T+")")))
		g.assume("true", fmt.Sprintf("(= (slen %s) (s_len %s))", res.T, v.T), "bytes-str-len")
	case v.S == ts:
		nv := v
		nv.Go = x.Type()
		g.vals[x] = nv
	case isBV(v.S) && ts == sortStr:
		r := g.freshVal(x.Name(), x.Type(), g.curGuard)
		g.vals[x] = r
	case ts == sortFloat || v.S == sortFloat:
		r := g.freshVal(x.Name(), x.Type(), g.curGuard)
		g.vals[x] = r
	default:
		panic(unsupported{fmt.Sprintf("convert %s -> %s", x.X.Type(), x.Type())})
	}
}

func (g *FnGen) doUnOp(x *ssa.UnOp) {
	v := g.val(x.X)
	switch x.Op {
	case token.NOT:
		g.defVal(x, not(v.T))
	case token.SUB:
		if v.S == sortFloat {
			g.vals[x] = g.freshVal(x.Name(), x.Type(), g.curGuard)
			return
		}
		g.defVal(x, "(bvneg "+v.T+")")
	case token.XOR:
		g.defVal(x, "(bvnot "+v.T+")")
	case token.MUL:
		if v.Place != nil && v.Place.Base != "" && v.Place.Idx == "" {
			g.checkGuardedRead(x, v.Place.Key, v.Place.Base, x.Pos())
		}
		if v.Place == nil {
			g.oblige(nilKind(x.X), g.siteNames[x], g.curGuard, not("(= "+v.T+" nil)"), "load through nil pointer", x.Pos())
		}
		r := g.load(g.st, v)
		r = g.mkVal(g.def(x.Name(), r.S, r.T), x.Type())
		g.vals[x] = r
		g.assume("true", g.wfFacts(r), "type")
		g.assume(g.curGuard, g.liveFact(g.st, r), "live")
		g.assumeTypeInv(r, g.curGuard)
		if gl, ok := x.X.(*ssa.Global); ok {
			g.globalFacts(gl, r)
		}
	case token.ARROW:
		panic(unsupported{"channel receive"})
	default:
		panic(unsupported{"unop " + x.Op.String()})
	}
}

func (g *FnGen) doBinOp(x *ssa.BinOp) {
	a := g.val(x.X)
	b := g.val(x.Y)
	signed := isSigned(x.X.Type())
	switch x.Op {
	case token.EQL, token.NEQ:
		var t string
		if a.S == sortSlice {
			t = fmt.Sprintf("(= (s_base %s) (s_base %s))", a.T, b.T) // only comparison with nil is legal
		} else {
			t = fmt.Sprintf("(= %s %s)", a.T, b.T)
		}
		if x.Op == token.NEQ {
			t = not(t)
		}
		g.defVal(x, t)
		return
	}
	if a.S == sortStr {
		switch x.Op {
		case token.ADD:
			r := g.defVal(x, fmt.Sprintf("(scat %s %s)", a.T, b.T))
			g.assume("true", fmt.Sprintf("(= (slen %s) (bvadd (slen %s) (slen %s)))", r.T, a.T, b.T), "scat-len")
			g.assume("true", g.wfFacts(r), "type")
		default:
			g.D.declare("strlt", "(declare-fun strlt (Str Str) Bool)")
			var t string
			switch x.Op {
			case token.LSS:
				t = fmt.Sprintf("(strlt %s %s)", a.T, b.T)
			case token.GTR:
				t = fmt.Sprintf("(strlt %s %s)", b.T, a.T)
			case token.LEQ:
				t = not(fmt.Sprintf("(strlt %s %s)", b.T, a.T))
			case token.GEQ:
				t = not(fmt.Sprintf("(strlt %s %s)", a.T, b.T))
			default:
				panic(unsupported{"string op " + x.Op.String()})
			}
			g.defVal(x, t)
		}
		return
	}
	if a.S == sortFloat {
		g.vals[x] = g.freshVal(x.Name(), x.Type(), g.curGuard)
		return
	}
	if a.S == sortBool {
		switch x.Op {
		case token.AND, token.LAND:
			g.defVal(x, and(a.T, b.T))
		case token.OR, token.LOR:
			g.defVal(x, or(a.T, b.T))
		default:
			panic(unsupported{"bool op " + x.Op.String()})
		}
		return
	}
	w := bvWidth(a.S)
	bin := func(op string) { g.defVal(x, fmt.Sprintf("(%s %s %s)", op, a.T, b.T)) }
	switch x.Op {
	case token.ADD:
		bin("bvadd")
	case token.SUB:
		bin("bvsub")
	case token.MUL:
		bin("bvmul")
	case token.QUO, token.REM:
		g.oblige("div", g.siteNames[x], g.curGuard, not(fmt.Sprintf("(= %s %s)", b.T, bvInt(0, w))), "division by zero", x.Pos())
		op := map[bool]map[token.Token]string{true: {token.QUO: "bvsdiv", token.REM: "bvsrem"}, false: {token.QUO: "bvudiv", token.REM: "bvurem"}}[signed][x.Op]
		bin(op)
	case token.AND:
		bin("bvand")
	case token.OR:
		bin("bvor")
	case token.XOR:
		bin("bvxor")
	case token.AND_NOT:
		g.defVal(x, fmt.Sprintf("(bvand %s (bvnot %s))", a.T, b.T))
	case token.SHL, token.SHR:
		bw := bvWidth(b.S)
		if isSigned(x.Y.Type()) {
			g.oblige("shift", g.siteNames[x], g.curGuard, fmt.Sprintf("(bvsle %s %s)", bvInt(0, bw), b.T), "negative shift count", x.Pos())
		}
		g.defVal(x, shiftTerm(x.Op == token.SHL, signed, a.T, w, b.T, bw))
	case token.LSS, token.LEQ, token.GTR, token.GEQ:
		ops := map[token.Token][2]string{token.LSS: {"bvslt", "bvult"}, token.LEQ: {"bvsle", "bvule"}, token.GTR: {"bvsgt", "bvugt"}, token.GEQ: {"bvsge", "bvuge"}}
		op := ops[x.Op][1]
		if signed {
			op = ops[x.Op][0]
		}
		bin(op)
	default:
		panic(unsupported{"binop " + x.Op.String()})
	}
}

// shiftTerm implements Go shift semantics: counts >= width give 0 (or sign fill).
func shiftTerm(left, signed bool, a string, w int, b string, bw int) string {
	var cnt string
	big := "false"
	if bw > w {
		cnt = fmt.Sprintf("((_ extract %d 0) %s)", w-1, b)
		big = fmt.Sprintf("(bvuge %s %s)", b, bvInt(int64(w), bw))
	} else {
		cnt = convInt(b, bw, w, false)
	}
	switch {
	case left:
		return ite(big, bvInt(0, w), fmt.Sprintf("(bvshl %s %s)", a, cnt))
	case signed:
		return ite(big, fmt.Sprintf("(bvashr %s %s)", a, bvInt(int64(w-1), w)), fmt.Sprintf("(bvashr %s %s)", a, cnt))
	default:
		return ite(big, bvInt(0, w), fmt.Sprintf("(bvlshr %s %s)", a, cnt))
	}
}

// ---------------------------------------------------------------------------------------
// Frame and shared-state checks at stores

func namedOf(t types.Type) string {
	if p, ok := t.Underlying().(*types.Pointer); ok {
		t = p.Elem()
	}
	return typeName(t)
}

func (g *FnGen) isFresh(ref string) string {
	return and(sel(g.D.get(g.st, liveKey), ref), not(sel(g.D.get(g.entrySt, liveKey), ref)))
}

func (g *FnGen) checkAssign(ins ssa.Instruction, p *Place, pos token.Pos) {
	g.checkSharedKey(ins, p.Key, p.Base, pos)
	if g.C == nil || !g.C.HasAssign {
		return
	}
	if strings.HasPrefix(p.Key, "C:") || strings.HasPrefix(p.Key, "Glob:") && false {
		// cells are only reachable through pointers; treated like any other place
	}
	// allowed: fresh objects, or a place named by the assigns clause
	allowed := []string{g.isFresh(p.Base)}
	for _, a := range g.C.Assigns {
		k, base := g.resolveAssignPlace(a)
		if k == "*" || (k == p.Key && base == "") {
			allowed = append(allowed, "true")
		} else if k == p.Key {
			allowed = append(allowed, fmt.Sprintf("(= %s %s)", p.Base, base))
		}
	}
	g.oblige("assigns", g.siteNames[ins]+":"+strings.TrimPrefix(p.Key, "F:"), g.curGuard, or(allowed...), "write is permitted by the assigns clause", pos)
}

func (g *FnGen) checkAssignRef(ins ssa.Instruction, addr Val, pos token.Pos) {
	pt, _ := addr.Go.Underlying().(*types.Pointer)
	if pt == nil {
		return
	}
	if st, ok := pt.Elem().Underlying().(*types.Struct); ok {
		_ = st
		g.checkSharedType(ins, namedOf(addr.Go), addr.T, pos)
		if g.C != nil && g.C.HasAssign {
			allowed := []string{g.isFresh(addr.T)}
			for _, a := range g.C.Assigns {
				if a == "*" {
					allowed = append(allowed, "true")
				}
			}
			g.oblige("assigns", g.siteNames[ins]+":"+namedOf(addr.Go), g.curGuard, or(allowed...), "whole-struct write is permitted by the assigns clause", pos)
		}
	}
}

// resolveAssignPlace evaluates "x.f" of the function's own assigns clause to (key, base term).
func (g *FnGen) resolveAssignPlace(a string) (string, string) {
	a = strings.TrimSpace(a)
	if a == "*" {
		return "*", ""
	}
	if strings.HasPrefix(a, "key:") {
		return strings.TrimPrefix(a, "key:"), ""
	}
	if strings.HasPrefix(a, "mem(") {
		n := strings.TrimSuffix(strings.TrimPrefix(a, "mem("), ")")
		if v, ok := g.env[n]; ok && v.S == sortSlice {
			return g.D.memKeyT(v.Go.Underlying().(*types.Slice).Elem()), "(s_base " + v.T + ")"
		}
		return "?", ""
	}
	if i := strings.Index(a, "("); i > 0 && strings.HasSuffix(a, ")") {
		return "G:" + a[:i], ""
	}
	if i := strings.LastIndex(a, "."); i > 0 {
		if nt := lookupNamedType(g.P, a[:i]); nt != nil && strings.Contains(a[:i], ".") {
			if st, ok := nt.Underlying().(*types.Struct); ok {
				for j := 0; j < st.NumFields(); j++ {
					if st.Field(j).Name() == a[i+1:] {
						k, _ := g.D.fieldKey(nt, j)
						return k, ""
					}
				}
			}
		}
		e, err := ParseExpr(a[:i])
		if err == nil {
			if id, ok := e.(EIdent); ok {
				if _, isParam := g.env[id.Name]; !isParam {
					if nt := lookupNamedType(g.P, a[:i]); nt != nil {
						if st, ok := nt.Underlying().(*types.Struct); ok {
							for j := 0; j < st.NumFields(); j++ {
								if st.Field(j).Name() == a[i+1:] {
									k, _ := g.D.fieldKey(nt, j)
									return k, ""
								}
							}
						}
					}
					return "?", ""
				}
			}
			base := g.eval(e, g.ctxEntry())
			key := fieldPathKey(g.D, base.Go, []string{a[i+1:]})
			// the base of the last hop
			obj, idx := lookupFieldByName(base.Go, a[i+1:])
			_ = obj
			cur := base
			for n, fi := range idx {
				if n == len(idx)-1 {
					break
				}
				cur = g.selectFieldIdx(cur, fi, g.entrySt)
			}
			return key, cur.T
		}
	}
	if _, ok := g.S.GhostVars[a]; ok {
		return "GV:" + a, ""
	}
	return "?", ""
}

// checkSharedKey: C17 sufficient condition — no write to a pre-existing object of a type that is
// declared shared between goroutines.
func (g *FnGen) checkSharedKey(ins ssa.Instruction, key, base string, pos token.Pos) {
	if !strings.HasPrefix(key, "F:") {
		return
	}
	tn := key[2:strings.LastIndex(key, ".")]
	if g.S.SharedTypes[tn] && !g.S.Guarded[key] && !(g.root().C != nil && g.root().C.OnceGuarded) {
		// holding a lock justifies writing the fields declared as guarded by it, nothing else: a
		// new mutable field of a shared node type needs a declaration (and with it a reason why
		// concurrent callers still see what they see alone)
		g.oblige("shared-write", g.siteNames[ins]+":"+tn+":undeclared:"+key[strings.LastIndex(key, ".")+1:], g.curGuard, g.isFresh(base), "field of a shared node type that is not declared guarded is written only on a fresh object", pos)
		return
	}
	g.checkSharedType(ins, tn, base, pos)
}

func (g *FnGen) checkSharedType(ins ssa.Instruction, tn, base string, pos token.Pos) {
	if !g.S.SharedTypes[tn] {
		return
	}
	g.oblige("shared-write", g.siteNames[ins]+":"+tn, g.curGuard, or(g.isFresh(base), g.lockHeldFor(tn, base)), "write to an object of a shared node type happens only on a fresh object or under its lock", pos)
}

func (g *FnGen) checkSharedWrite(ins ssa.Instruction, ref, what string, pos token.Pos) {
	// map writes: the map is shared when it was read from a field of a shared type; we approximate
	// by requiring the map itself to be fresh or a lock to be held.
	if len(g.S.SharedTypes) == 0 {
		return
	}
	mu, ok := ins.(*ssa.MapUpdate)
	if !ok {
		return
	}
	owner, ownerT := mapOwner(mu.Map)
	if owner == nil || !g.S.SharedTypes[ownerT] {
		return
	}
	ov := g.val(owner)
	if fa, ok := mu.Map.(*ssa.UnOp).X.(*ssa.FieldAddr); ok {
		if st, _ := derefStruct(fa.X.Type()); st != nil {
			if key, _ := g.D.fieldKey(st, fa.Field); !g.S.Guarded[key] {
				g.oblige("shared-write", g.siteNames[ins]+":"+ownerT+":undeclared-map", g.curGuard, or(g.isFresh(ref), g.isFresh(ov.T)), "map held in a field of a shared node type that is not declared guarded is written only when fresh", pos)
				return
			}
		}
	}
	g.oblige("shared-write", g.siteNames[ins]+":"+ownerT, g.curGuard, or(g.isFresh(ref), g.isFresh(ov.T), g.lockHeldFor(ownerT, ov.T)), "map held by a shared node is written only when fresh or under its lock", pos)
}

// mapOwner finds the struct pointer whose field the map was loaded from.
func mapOwner(m ssa.Value) (ssa.Value, string) {
	if u, ok := m.(*ssa.UnOp); ok && u.Op == token.MUL {
		if fa, ok := u.X.(*ssa.FieldAddr); ok {
			return fa.X, namedOf(fa.X.Type())
		}
	}
	return nil, ""
}

// lockHeldFor: the owner's mutex (the first sync.Mutex / sync.RWMutex field of the struct type) is
// held, according to the ghost lock set maintained by the Lock/Unlock contracts.
func (g *FnGen) lockHeldFor(tn, base string) string {
	return g.lockHeldMode(tn, base, false)
}

// lockHeldMode: with shared=true a read hold of an RWMutex also counts (enough for reads).
func (g *FnGen) lockHeldMode(tn, base string, shared bool) string {
	if g.root().C != nil && g.root().C.OnceGuarded {
		return "true"
	}
	if _, ok := g.S.GhostFields["held"]; !ok {
		return "false"
	}
	t := lookupNamedType(g.P, tn)
	if t == nil {
		return "false"
	}
	st, ok := t.Underlying().(*types.Struct)
	if !ok {
		return "false"
	}
	for i := 0; i < st.NumFields(); i++ {
		ft := typeName(st.Field(i).Type())
		if ft == "sync.Mutex" || ft == "sync.RWMutex" {
			key, _ := g.D.fieldKey(t, i)
			addr := g.opaqueAddr(&Place{Key: key, Base: base})
			hk := g.ensureGhostField("held")
			h := sel(g.D.get(g.st, hk), addr)
			if shared {
				if _, ok := g.S.GhostFields["rheld"]; ok {
					rk := g.ensureGhostField("rheld")
					return or(h, sel(g.D.get(g.st, rk), addr))
				}
			}
			return h
		}
	}
	return "false"
}

// checkGuardedRead: a field declared "guarded" is read only while the owner's mutex is held (or on
// an object this call allocated).
func (g *FnGen) checkGuardedRead(ins ssa.Instruction, key, base string, pos token.Pos) {
	if !g.S.Guarded[key] {
		return
	}
	tn := key[2:strings.LastIndex(key, ".")]
	g.oblige("shared-write", g.siteNames[ins]+":read:"+strings.TrimPrefix(key, "F:"), g.curGuard, or(g.isFresh(base), g.lockHeldMode(tn, base, true)), "guarded field is read only under the owner's lock (a read hold suffices)", pos)
}

type autoInv struct {
	phi *ssa.Phi
	inv func(term string) string
}

// rangeIndexInvariants recognises the SSA shape of "for i, x := range slice":
//
//	idx = phi [pre: -1, body: next]; next = idx + 1; if next < len(s) goto body else done
func (g *FnGen) rangeIndexInvariants(h *ssa.BasicBlock) []autoInv {
	var out []autoInv
	for _, ins := range h.Instrs {
		phi, ok := ins.(*ssa.Phi)
		if !ok {
			break
		}
		if phi.Comment != "rangeindex" {
			continue
		}
		// find next = phi + 1 and the comparison next < L in the header
		var next *ssa.BinOp
		var lim ssa.Value
		for _, in2 := range h.Instrs {
			if bo, ok := in2.(*ssa.BinOp); ok {
				if bo.Op == token.ADD && bo.X == phi {
					if c, ok := bo.Y.(*ssa.Const); ok && c.Int64() == 1 {
						next = bo
					}
				}
				if bo.Op == token.LSS && next != nil && bo.X == next {
					lim = bo.Y
				}
			}
		}
		if next == nil || lim == nil {
			continue
		}
		if _, defined := g.vals[lim]; !defined {
			if _, isConst := lim.(*ssa.Const); !isConst {
				continue
			}
		}
		limT := g.val(lim).T
		out = append(out, autoInv{phi: phi, inv: func(t string) string {
			return and(fmt.Sprintf("(bvsle (bvneg (_ bv1 64)) %s)", t), or(fmt.Sprintf("(bvslt %s %s)", t, limT), fmt.Sprintf("(= %s (bvneg (_ bv1 64)))", t)), fmt.Sprintf("(bvsle %s (_ bv%d 64))", limT, int64(1)<<56))
		}})
	}
	return out
}

// checkBoundMethod: a method value (x.M) captures its receiver when it is created and is later
// called where no contract is visible. Preconditions labelled "recv-..." speak only about the
// receiver and are discharged here; any other precondition cannot be carried by a method value.
func (g *FnGen) checkBoundMethod(x *ssa.MakeClosure) {
	fn := x.Fn.(*ssa.Function)
	if !strings.HasSuffix(fn.Name(), "$bound") || len(x.Bindings) != 1 {
		return
	}
	obj, ok := fn.Object().(*types.Func)
	if !ok {
		return
	}
	target := g.P.Prog.FuncValue(obj)
	if target == nil {
		return
	}
	ct := g.S.Contracts[fnName(target)]
	if ct == nil {
		return
	}
	recv := g.val(x.Bindings[0])
	env := map[string]Val{"recv": recv}
	if r := target.Signature.Recv(); r != nil && r.Name() != "" {
		env[r.Name()] = recv
	}
	for i, rq := range ct.Requires {
		label := clauseLabel(rq, i)
		if strings.HasPrefix(label, "recv") {
			ctx := &EvalCtx{g: g, env: env, st: g.st, oldSt: g.st, oldEnv: env, guard: g.curGuard}
			g.obligeClause("requires", "methodvalue:"+fnName(target)+"/"+label, g.curGuard, rq, ctx, x.Pos())
		} else {
			g.oblige("requires", "methodvalue:"+fnName(target)+"/"+label, g.curGuard, "false", "a method value cannot carry the precondition: "+rq.Src, x.Pos())
		}
	}
}

// noteInvWrite records a write to a field of an object whose type carries an invariant, so that
// the invariant is re-checked for that object when the function returns.
func (g *FnGen) noteInvWrite(addr ssa.Value, p *Place) {
	fa, ok := addr.(*ssa.FieldAddr)
	if !ok {
		return
	}
	for {
		inner, ok := fa.X.(*ssa.FieldAddr)
		if !ok {
			break
		}
		fa = inner
	}
	tn := typeInvName(fa.X.Type())
	if tn == "" || len(g.S.TypeInvs[tn]) == 0 {
		return
	}
	r := g.root()
	base := g.val(fa.X)
	for _, a := range r.ownAllocs[tn] {
		if a.term == base.T {
			return
		}
	}
	for _, d := range r.dirty[tn] {
		if d.v.T == base.T {
			return
		}
	}
	r.dirty[tn] = append(r.dirty[tn], dirtyObj{base, g.curGuard})
}

// checkTypeInvsAtReturn emits, for one return site, the invariant obligations of every object
// this function allocated or dirtied.
func (g *FnGen) checkTypeInvsAtReturn(k int, rt retInfo) {
	for _, tn := range sortedTypeNames(g.ownAllocs, g.dirty) {
		t := lookupNamedType(g.P, tn)
		if t == nil {
			continue
		}
		pt := types.NewPointer(t)
		n := 0
		for _, a := range g.ownAllocs[tn] {
			n++
			v := Val{T: a.term, S: sortRef, Go: pt}
			g.obligeTypeInv("typeinv", fmt.Sprintf("%s:new#%d@ret%d", tn, n, k+1), and(rt.guard, a.guard), v, rt.st, "invariant of "+tn+" holds for the object allocated here", rt.pos)
		}
		for i, d := range g.dirty[tn] {
			g.obligeTypeInv("typeinv", fmt.Sprintf("%s:written#%d@ret%d", tn, i+1, k+1), and(rt.guard, d.guard, not("(= "+d.v.T+" nil)")), d.v, rt.st, "invariant of "+tn+" is re-established for the object written here", rt.pos)
		}
	}
}

func sortedTypeNames(a map[string][]ownAlloc, b map[string][]dirtyObj) []string {
	m := map[string]bool{}
	for k := range a {
		m[k] = true
	}
	for k := range b {
		m[k] = true
	}
	return sortedKeys(m)
}

// ensureKey registers a heap key (computed by the effect analysis in another declaration context)
// in this generator's declarations, so that a havoc of it is never silently skipped.
func (g *FnGen) ensureKey(k string) {
	if _, ok := g.D.heapSorts[k]; ok {
		return
	}
	typeOf := func(name string) types.Type {
		if strings.HasPrefix(name, "(_ BitVec") {
			switch bvWidth(name) {
			case 8:
				return types.Typ[types.Uint8]
			case 16:
				return types.Typ[types.Uint16]
			case 32:
				return types.Typ[types.Uint32]
			default:
				return types.Typ[types.Uint64]
			}
		}
		switch name {
		case sortRef:
			return types.NewPointer(types.Typ[types.Int])
		case sortBool:
			return types.Typ[types.Bool]
		case sortStr:
			return types.Typ[types.String]
		case sortSlice:
			return types.NewSlice(types.Typ[types.Uint8])
		case sortFloat:
			return types.Typ[types.Float64]
		}
		return lookupNamedType(g.P, name)
	}
	switch {
	case strings.HasPrefix(k, "G:"):
		if _, ok := g.S.GhostFields[k[2:]]; ok {
			g.ensureGhostField(k[2:])
		}
	case strings.HasPrefix(k, "GV:"):
		if _, ok := g.S.GhostVars[k[3:]]; ok {
			g.ensureGhostVar(k[3:])
		}
	case strings.HasPrefix(k, "F:"):
		i := strings.LastIndex(k, ".")
		if t := lookupNamedType(g.P, k[2:i]); t != nil {
			if st, ok := t.Underlying().(*types.Struct); ok {
				for j := 0; j < st.NumFields(); j++ {
					if st.Field(j).Name() == k[i+1:] {
						g.D.fieldKey(t, j)
					}
				}
			}
		}
	case strings.HasPrefix(k, "M:"):
		if t := typeOf(k[2:]); t != nil {
			g.D.memKeyT(t)
		}
	case strings.HasPrefix(k, "C:"):
		if t := typeOf(k[2:]); t != nil {
			g.D.cellKeyT(t)
		}
	case strings.HasPrefix(k, "MapHas:"), strings.HasPrefix(k, "MapVal:"), strings.HasPrefix(k, "MapLen:"):
		rest := k[strings.Index(k, ":")+1:]
		// key and value names are separated by the first ':' that is not inside parentheses
		depth, cut := 0, -1
		for i, c := range rest {
			if c == '(' {
				depth++
			} else if c == ')' {
				depth--
			} else if c == ':' && depth == 0 {
				cut = i
				break
			}
		}
		if cut > 0 {
			kt, vt := typeOf(rest[:cut]), typeOf(rest[cut+1:])
			if kt != nil && vt != nil {
				g.D.mapKeysT(kt, vt)
			}
		}
	case strings.HasPrefix(k, "Glob:"):
		name := k[5:]
		for _, sp := range g.P.Prog.AllPackages() {
			for mn, m := range sp.Members {
				if gl, ok := m.(*ssa.Global); ok && shortName(gl.String()) == name {
					_ = mn
					g.D.globalKey(name, g.D.sortOf(gl.Type().(*types.Pointer).Elem()))
				}
			}
		}
	}
}

// typeInvObjects lists the objects whose type invariant the current function knows about at this
// point: parameters of a type with an invariant and the objects it has allocated so far.
func (g *FnGen) typeInvObjects() []Val {
	var out []Val
	if g.parent == nil {
		for _, p := range g.fn.Params {
			v := g.vals[p]
			if tn := typeInvName(v.Go); tn != "" && len(g.S.TypeInvs[tn]) > 0 {
				out = append(out, v)
			}
		}
	}
	r := g.root()
	for _, tn := range sortedTypeNames(r.ownAllocs, nil) {
		t := lookupNamedType(g.P, tn)
		if t == nil {
			continue
		}
		for _, a := range r.ownAllocs[tn] {
			out = append(out, Val{T: a.term, S: sortRef, Go: types.NewPointer(t)})
		}
	}
	return out
}

func mustCallKey(callee string) string { return "GV:$called:" + callee }
