package main

import (
	"fmt"
	"go/token"
	"go/types"
	"golang.org/x/tools/go/ssa"
	"golang.org/x/tools/go/ssa/ssautil"
	"hash/fnv"
	"math/big"
	"regexp"
	"sort"
	"strings"
	"sync"
)

// EvalCtx is the context in which a contract expression is evaluated.
type EvalCtx struct {
	g      *FnGen
	env    map[string]Val
	st     State
	oldSt  State
	oldEnv map[string]Val
	guard  string
	bound  map[string]Val

	isOld    bool
	callee   bool                // evaluating a callee's clause: its parameter names shadow the caller's captured variables
	skolem   bool                // skolemise positive universal quantifiers (goal position)
	neg      bool                // current polarity is negative
	noq      bool                // inside <==> / ite condition: no skolemisation or instantiation
	skolems  map[string]Val      // skolem constants introduced so far (by bound variable name)
	instAt   map[string]string   // instantiate positive universal quantifiers over these variables
	goalInst map[string][]string // goal position: replace negative universal quantifiers by these instances
}

func (c *EvalCtx) flip() *EvalCtx {
	n := *c
	n.neg = !c.neg
	return &n
}

func (c *EvalCtx) opaque() *EvalCtx {
	n := *c
	n.noq = true
	return &n
}

func (c *EvalCtx) withOld() *EvalCtx {
	n := *c
	n.st = c.oldSt
	n.isOld = true
	if c.oldEnv != nil {
		n.env = c.oldEnv
	}
	return &n
}

type evalError struct{ msg string }

func efail(f string, a ...interface{}) { panic(evalError{fmt.Sprintf(f, a...)}) }

func (g *FnGen) evalBool(e Expr, ctx *EvalCtx) string {
	v := g.eval(e, ctx)
	if v.S != sortBool {
		efail("expected Bool, got %s in %s", v.S, g.name)
	}
	return v.T
}

func ctypeByName(d *Decls, P *Program, n string) (string, bool, types.Type) {
	switch n {
	case "int":
		return sortBV64, true, types.Typ[types.Int]
	case "int64":
		return sortBV64, true, types.Typ[types.Int64]
	case "uint":
		return sortBV64, false, types.Typ[types.Uint]
	case "uint64":
		return sortBV64, false, types.Typ[types.Uint64]
	case "int32":
		return bvSort(32), true, types.Typ[types.Int32]
	case "uint32":
		return bvSort(32), false, types.Typ[types.Uint32]
	case "byte", "uint8":
		return bvSort(8), false, types.Typ[types.Uint8]
	case "int8":
		return bvSort(8), true, types.Typ[types.Int8]
	case "uint16":
		return bvSort(16), false, types.Typ[types.Uint16]
	case "bool":
		return sortBool, false, types.Typ[types.Bool]
	case "string":
		return sortStr, false, types.Typ[types.String]
	case "Ref":
		return sortRef, false, nil
	case "[]byte":
		return sortSlice, false, types.NewSlice(types.Typ[types.Uint8])
	case "[]uint64":
		return sortSlice, false, types.NewSlice(types.Typ[types.Uint64])
	case "Int":
		return "Int", true, nil
	}
	if strings.HasPrefix(n, "[]") {
		if t := lookupNamedType(P, n[2:]); t != nil {
			return sortSlice, false, types.NewSlice(t)
		}
	}
	ptr := strings.HasPrefix(n, "*")
	if t := lookupNamedType(P, n); t != nil {
		if ptr {
			t = types.NewPointer(t)
		}
		return d.sortOf(t), isSigned(t), t
	}
	return "", false, nil
}

func (g *FnGen) ensureGhostField(name string) string {
	gf := g.S.GhostFields[name]
	key := "G:" + name
	as, _, _ := ctypeByName(g.D, g.P, gf.ArgType)
	rs, _, _ := ctypeByName(g.D, g.P, gf.ResType)
	if as == "" || rs == "" {
		efail("bad ghost field type for %s", name)
	}
	g.D.heapKeySort(key, fmt.Sprintf("(Array %s %s)", as, rs))
	return key
}

func (g *FnGen) ensureGhostVar(name string) string {
	gv := g.S.GhostVars[name]
	key := "GV:" + name
	s, _, _ := ctypeByName(g.D, g.P, gv.Type)
	g.D.heapKeySort(key, s)
	return key
}

// coerce makes two integer operands agree (untyped literals adopt the other side's type).
func (g *FnGen) coerce(a, b Val) (Val, Val) {
	if a.Lit != nil && b.Lit == nil && isBV(b.S) {
		a = Val{T: bvLit(a.Lit, bvWidth(b.S)), S: b.S, Go: b.Go, Signed: b.Signed}
	} else if b.Lit != nil && a.Lit == nil && isBV(a.S) {
		b = Val{T: bvLit(b.Lit, bvWidth(a.S)), S: a.S, Go: a.Go, Signed: a.Signed}
	} else if a.Lit != nil && b.Lit != nil {
		return a, b
	}
	if a.Lit != nil && b.S == "Int" {
		a = Val{T: intLit(a.Lit), S: "Int", Signed: true}
	}
	if b.Lit != nil && a.S == "Int" {
		b = Val{T: intLit(b.Lit), S: "Int", Signed: true}
	}
	if isBV(a.S) && isBV(b.S) && a.S != b.S {
		efail("operand width mismatch: %s vs %s (%s, %s)", a.S, b.S, a.T, b.T)
	}
	return a, b
}

func intLit(v *big.Int) string {
	if v.Sign() < 0 {
		return "(- " + new(big.Int).Neg(v).String() + ")"
	}
	return v.String()
}

func litVal(v *big.Int) Val {
	return Val{T: bvLit(v, 64), S: sortBV64, Signed: true, Lit: v}
}

func (g *FnGen) selectFieldIdx(x Val, idx int, st State) Val {
	if x.PlaceLost {
		efail("field of a pointer whose target differs between control-flow paths")
	}
	if stT, s := derefStruct(x.Go); stT != nil && x.Place != nil {
		// the pointer designates a struct stored at a known place (slice element, nested field)
		sv := g.loadPlace(st, x.Place)
		info := g.D.structInfo[g.D.sortOf(stT)]
		v := g.mkVal("("+info.fields[idx]+" "+sv+")", s.Field(idx).Type())
		return v
	}
	if stT, s := derefStruct(x.Go); stT != nil {
		k, _ := g.D.fieldKey(stT, idx)
		ft := s.Field(idx).Type()
		v := g.mkVal(g.hsel(g.D.get(st, k), x.T), ft)
		if (v.S == sortSlice || v.S == sortStr) && !strings.Contains(v.T, "q_") {
			g.assume("true", g.wfFacts(v), "type") // every slice/string value is well-formed
		}
		return v
	}
	if s, ok := x.Go.Underlying().(*types.Struct); ok {
		info := g.D.structInfo[g.D.sortOf(x.Go)]
		v := g.mkVal("("+info.fields[idx]+" "+x.T+")", s.Field(idx).Type())
		if (v.S == sortSlice || v.S == sortStr) && !strings.Contains(v.T, "q_") {
			g.assume("true", g.wfFacts(v), "type")
		}
		return v
	}
	efail("field selection on non-struct %v", x.Go)
	return Val{}
}

// placeOfExpr resolves a field selection in a contract to the place it designates.
func (g *FnGen) placeOfExpr(e Expr, ctx *EvalCtx) *Place {
	sel, ok := e.(ESel)
	if !ok {
		efail("addrof expects a field selection")
	}
	if inner, ok := sel.X.(ESel); ok {
		// struct-valued field of an outer place?
		bv := g.eval(sel.X, ctx)
		if st, ok := bv.Go.Underlying().(*types.Struct); ok && bv.S != sortRef {
			p := *g.placeOfExpr(inner, ctx)
			_, idx := lookupFieldByName(bv.Go, sel.Field)
			if len(idx) != 1 {
				efail("addrof: %s is not a direct field", sel.Field)
			}
			p.Path = append(append([]pathStep{}, p.Path...), pathStep{structSort: g.D.sortOf(bv.Go), field: idx[0]})
			p.Elem = st.Field(idx[0]).Type()
			return &p
		}
	}
	base := g.eval(sel.X, ctx)
	stT, sT := derefStruct(base.Go)
	_, idx := lookupFieldByName(base.Go, sel.Field)
	if stT == nil || len(idx) != 1 || base.Place != nil || base.PlaceLost {
		efail("addrof: %s is not a direct field of a struct pointer", sel.Field)
	}
	key, _ := g.D.fieldKey(stT, idx[0])
	return &Place{Key: key, Base: base.T, Elem: sT.Field(idx[0]).Type()}
}

func (g *FnGen) selectField(x Val, name string, st State) Val {
	if x.Go == nil {
		efail("field %s of untyped value %s", name, x.T)
	}
	_, idx := lookupFieldByName(x.Go, name)
	if idx == nil {
		efail("no field %s in %v", name, x.Go)
	}
	cur := x
	for _, i := range idx {
		cur = g.selectFieldIdx(cur, i, st)
	}
	return cur
}

func (g *FnGen) eval(e Expr, ctx *EvalCtx) Val {
	switch x := e.(type) {
	case ELit:
		return litVal(x.Val)
	case EBool:
		if x.Val {
			return Val{T: "true", S: sortBool}
		}
		return Val{T: "false", S: sortBool}
	case ENil:
		return Val{T: "nil", S: sortRef}
	case EStr:
		return Val{T: g.D.strLit(x.Val), S: sortStr, Go: types.Typ[types.String]}
	case EIdent:
		if v, ok := ctx.bound[x.Name]; ok {
			return v
		}
		if ctx.callee {
			if v, ok := ctx.env[x.Name]; ok {
				return v
			}
		}
		if cv, ok := g.root().cellVars[x.Name]; ok && !ctx.isOld {
			return g.load(ctx.st, cv)
		}
		if v, ok := ctx.env[x.Name]; ok {
			return v
		}
		if _, ok := g.S.GhostVars[x.Name]; ok {
			key := g.ensureGhostVar(x.Name)
			s := g.D.heapSorts[key]
			_, sg, gt := ctypeByName(g.D, g.P, g.S.GhostVars[x.Name].Type)
			return Val{T: g.D.get(ctx.st, key), S: s, Signed: sg, Go: gt}
		}
		// package-level variable of the function's package: "pkg.Name" handled in ESel
		if g.fn != nil && g.fn.Pkg != nil {
			if m, ok := g.fn.Pkg.Members[x.Name]; ok {
				if gl, ok := m.(interface{ Type() types.Type }); ok {
					if pt, ok := gl.Type().(*types.Pointer); ok {
						name := shortName(g.fn.Pkg.Pkg.Path() + "." + x.Name)
						key := g.D.globalKey(name, g.D.sortOf(pt.Elem()))
						return g.mkVal(g.D.get(ctx.st, key), pt.Elem())
					}
				}
			}
		}
		efail("unknown identifier %q in contract of %s", x.Name, g.name)
	case ESel:
		if id, ok := x.X.(EIdent); ok {
			// result.N
			if _, isVar := ctx.env[id.Name]; !isVar {
				if _, isB := ctx.bound[id.Name]; !isB {
					// pkg.Global
					for _, sp := range g.P.Prog.AllPackages() {
						if sp.Pkg.Name() == id.Name || shortName(sp.Pkg.Path()) == id.Name {
							if m, ok := sp.Members[x.Field]; ok {
								if pt, ok := m.Type().(*types.Pointer); ok {
									name := shortName(sp.Pkg.Path() + "." + x.Field)
									key := g.D.globalKey(name, g.D.sortOf(pt.Elem()))
									return g.mkVal(g.D.get(ctx.st, key), pt.Elem())
								}
							}
						}
					}
					efail("unknown identifier %q", id.Name)
				}
			}
		}
		base := g.eval(x.X, ctx)
		return g.selectField(base, x.Field, ctx.st)
	case ETypeAssert:
		base := g.eval(x.X, ctx)
		_, _, t := ctypeByName(g.D, g.P, x.Type)
		if t == nil {
			efail("unknown type %q", x.Type)
		}
		if g.D.sortOf(t) != sortRef {
			// unboxing of a value type
			tid := g.D.typeID(t)
			bs := fmt.Sprintf("box_%d", tid)
			s := g.D.sortOf(t)
			g.D.declare("box:"+bs, fmt.Sprintf("(declare-fun %s (%s) Ref)", bs, s))
			g.D.declare("unbox:"+bs, fmt.Sprintf("(declare-fun un%s (Ref) %s)", bs, s))
			return g.mkVal(fmt.Sprintf("(un%s %s)", bs, base.T), t)
		}
		return Val{T: base.T, S: sortRef, Go: t}
	case EIndex:
		base := g.eval(x.X, ctx)
		iv := g.eval(x.I, ctx)
		var i64 string
		if iv.Lit != nil {
			i64 = bvLit(iv.Lit, 64)
		} else {
			i64 = to64(iv)
		}
		switch {
		case base.S == sortSlice:
			et := base.Go.Underlying().(*types.Slice).Elem()
			k := g.D.memKeyT(et)
			return g.mkVal(sel(sel(g.D.get(ctx.st, k), "(s_base "+base.T+")"), fmt.Sprintf("(bvadd (s_off %s) %s)", base.T, i64)), et)
		case base.S == sortStr:
			return Val{T: fmt.Sprintf("(sat %s %s)", base.T, i64), S: bvSort(8), Go: types.Typ[types.Uint8]}
		case strings.HasPrefix(base.S, "(Array"):
			var et types.Type
			if base.Go != nil {
				if a, ok := base.Go.Underlying().(*types.Array); ok {
					et = a.Elem()
				}
			}
			if et != nil {
				return g.mkVal(sel(base.T, i64), et)
			}
			es := strings.TrimSuffix(strings.TrimPrefix(base.S, "(Array (_ BitVec 64) "), ")")
			return Val{T: sel(base.T, i64), S: es}
		}
		efail("indexing non-indexable %s", base.S)
	case EUnary:
		if x.Op == "!" {
			return Val{T: not(g.evalBool(x.X, ctx.flip())), S: sortBool}
		}
		v := g.eval(x.X, ctx)
		switch x.Op {
		case "!":
			return Val{T: not(g.evalBool(x.X, ctx.flip())), S: sortBool}
		case "-":
			if v.Lit != nil {
				return litVal(new(big.Int).Neg(v.Lit))
			}
			if v.S == "Int" {
				return Val{T: "(- " + v.T + ")", S: "Int", Signed: true}
			}
			return Val{T: "(bvneg " + v.T + ")", S: v.S, Go: v.Go, Signed: v.Signed}
		case "^":
			return Val{T: "(bvnot " + v.T + ")", S: v.S, Go: v.Go, Signed: v.Signed}
		}
	case EBinary:
		return g.evalBinary(x, ctx)
	case EForall:
		return g.evalQuant(x, ctx)
	case ECall:
		return g.evalCall(x, ctx)
	}
	efail("cannot evaluate %T", e)
	return Val{}
}

func (g *FnGen) evalQuant(x EForall, ctx *EvalCtx) Val {
	s, signed, gt := ctypeByName(g.D, g.P, x.Type)
	if s == "" {
		efail("unknown type %q in quantifier", x.Type)
	}
	nb := map[string]Val{}
	for k, v := range ctx.bound {
		nb[k] = v
	}
	if x.Lo != nil {
		var parts []string
		for i := new(big.Int).Set(x.Lo); i.Cmp(x.Hi) < 0; i = new(big.Int).Add(i, big.NewInt(1)) {
			nb[x.Var] = Val{T: bvLit(i, bvWidth(s)), S: s, Signed: signed, Go: gt}
			c2 := *ctx
			c2.bound = nb
			parts = append(parts, g.evalBool(x.Body, &c2))
		}
		if x.Exists {
			return Val{T: or(parts...), S: sortBool}
		}
		return Val{T: and(parts...), S: sortBool}
	}
	if !ctx.noq && ctx.neg && !x.Exists && ctx.skolem {
		if ts, ok := ctx.goalInst[x.Var]; ok {
			// a hypothesis of the goal: weakening it to finitely many instances is sound
			var parts []string
			for _, t := range ts {
				nb2 := map[string]Val{}
				for k, v := range nb {
					nb2[k] = v
				}
				nb2[x.Var] = Val{T: t, S: s, Signed: signed, Go: gt}
				c2 := *ctx
				c2.bound = nb2
				parts = append(parts, g.evalBool(x.Body, &c2))
			}
			return Val{T: and(parts...), S: sortBool}
		}
	}
	if !ctx.noq && !ctx.neg && !x.Exists {
		if t, ok := ctx.instAt[x.Var]; ok {
			nb[x.Var] = Val{T: t, S: s, Signed: signed, Go: gt}
			c2 := *ctx
			c2.bound = nb
			return Val{T: g.evalBool(x.Body, &c2), S: sortBool}
		}
		if ctx.skolem {
			sk := g.freshConst("sk_"+x.Var, s)
			v := Val{T: sk, S: s, Signed: signed, Go: gt}
			nb[x.Var] = v
			if ctx.skolems != nil {
				ctx.skolems[x.Var] = v
			}
			c2 := *ctx
			c2.bound = nb
			return Val{T: g.evalBool(x.Body, &c2), S: sortBool}
		}
	}
	vn := g.D.fresh("q_" + x.Var)
	nb[x.Var] = Val{T: vn, S: s, Signed: signed, Go: gt}
	c2 := *ctx
	c2.bound = nb
	body := g.evalBool(x.Body, &c2)
	q := "forall"
	if x.Exists {
		q = "exists"
	}
	return Val{T: fmt.Sprintf("(%s ((%s %s)) %s)", q, vn, s, body), S: sortBool}
}

func (g *FnGen) evalBinary(x EBinary, ctx *EvalCtx) Val {
	switch x.Op {
	case "&&":
		return Val{T: and(g.evalBool(x.X, ctx), g.evalBool(x.Y, ctx)), S: sortBool}
	case "||":
		return Val{T: or(g.evalBool(x.X, ctx), g.evalBool(x.Y, ctx)), S: sortBool}
	case "==>":
		return Val{T: implies(g.evalBool(x.X, ctx.flip()), g.evalBool(x.Y, ctx)), S: sortBool}
	case "<==>":
		return Val{T: fmt.Sprintf("(= %s %s)", g.evalBool(x.X, ctx.opaque()), g.evalBool(x.Y, ctx.opaque())), S: sortBool}
	}
	if x.Op == "==" || x.Op == "!=" {
		ctx = ctx.opaque()
	}
	a := g.eval(x.X, ctx)
	b := g.eval(x.Y, ctx)
	if a.Lit != nil && b.Lit != nil {
		r := new(big.Int)
		switch x.Op {
		case "+":
			return litVal(r.Add(a.Lit, b.Lit))
		case "-":
			return litVal(r.Sub(a.Lit, b.Lit))
		case "*":
			return litVal(r.Mul(a.Lit, b.Lit))
		case "<<":
			return litVal(r.Lsh(a.Lit, uint(b.Lit.Int64())))
		case "/":
			return litVal(r.Quo(a.Lit, b.Lit))
		}
	}
	if x.Op == "<<" || x.Op == ">>" {
		// shift count may have any integer type
		if a.Lit != nil {
			a = Val{T: bvLit(a.Lit, 64), S: sortBV64, Signed: true}
		}
		w := bvWidth(a.S)
		var bt string
		bw := 64
		if b.Lit != nil {
			bt = bvLit(b.Lit, 64)
		} else {
			bt = b.T
			bw = bvWidth(b.S)
		}
		return Val{T: shiftTerm(x.Op == "<<", a.Signed, a.T, w, bt, bw), S: a.S, Go: a.Go, Signed: a.Signed}
	}
	a, b = g.coerce(a, b)
	switch x.Op {
	case "==", "!=":
		var t string
		if a.S == sortRef && b.S == sortSlice {
			t = fmt.Sprintf("(= (s_base %s) nil)", b.T)
		} else if b.S == sortRef && a.S == sortSlice {
			t = fmt.Sprintf("(= (s_base %s) nil)", a.T)
		} else {
			if a.S != b.S {
				efail("comparing %s with %s (%s, %s)", a.S, b.S, a.T, b.T)
			}
			t = fmt.Sprintf("(= %s %s)", a.T, b.T)
		}
		if x.Op == "!=" {
			t = not(t)
		}
		return Val{T: t, S: sortBool}
	}
	if a.S == "Int" {
		ops := map[string]string{"+": "+", "-": "-", "*": "*", "<": "<", "<=": "<=", ">": ">", ">=": ">=", "/": "div", "%": "mod"}
		op, ok := ops[x.Op]
		if !ok {
			efail("operator %s on Int", x.Op)
		}
		rs := "Int"
		if strings.ContainsAny(x.Op, "<>") {
			rs = sortBool
		}
		return Val{T: fmt.Sprintf("(%s %s %s)", op, a.T, b.T), S: rs, Signed: true}
	}
	if !isBV(a.S) {
		efail("operator %s on sort %s", x.Op, a.S)
	}
	signed := a.Signed
	var op string
	res := Val{S: a.S, Go: a.Go, Signed: a.Signed}
	switch x.Op {
	case "+":
		op = "bvadd"
	case "-":
		op = "bvsub"
	case "*":
		op = "bvmul"
	case "/":
		op = map[bool]string{true: "bvsdiv", false: "bvudiv"}[signed]
	case "%":
		op = map[bool]string{true: "bvsrem", false: "bvurem"}[signed]
	case "&":
		op = "bvand"
	case "|":
		op = "bvor"
	case "^":
		op = "bvxor"
	case "&^":
		res.T = fmt.Sprintf("(bvand %s (bvnot %s))", a.T, b.T)
		return res
	case "<":
		op = map[bool]string{true: "bvslt", false: "bvult"}[signed]
		res = Val{S: sortBool}
	case "<=":
		op = map[bool]string{true: "bvsle", false: "bvule"}[signed]
		res = Val{S: sortBool}
	case ">":
		op = map[bool]string{true: "bvsgt", false: "bvugt"}[signed]
		res = Val{S: sortBool}
	case ">=":
		op = map[bool]string{true: "bvsge", false: "bvuge"}[signed]
		res = Val{S: sortBool}
	default:
		efail("unknown operator %s", x.Op)
	}
	res.T = fmt.Sprintf("(%s %s %s)", op, a.T, b.T)
	return res
}

func (g *FnGen) evalCall(x ECall, ctx *EvalCtx) Val {
	switch x.Fn {
	case "old":
		return g.eval(x.Args[0], ctx.withOld())
	case "len", "cap":
		v := g.eval(x.Args[0], ctx)
		switch {
		case v.S == sortSlice:
			return Val{T: fmt.Sprintf("(s_%s %s)", x.Fn, v.T), S: sortBV64, Signed: true, Go: types.Typ[types.Int]}
		case v.S == sortStr:
			return Val{T: "(slen " + v.T + ")", S: sortBV64, Signed: true, Go: types.Typ[types.Int]}
		case v.S == sortRef && v.Go != nil:
			if mt, ok := v.Go.Underlying().(*types.Map); ok {
				_, _, l := g.D.mapKeysT(mt.Key(), mt.Elem())
				return Val{T: sel(g.D.get(ctx.st, l), v.T), S: sortBV64, Signed: true, Go: types.Typ[types.Int]}
			}
		}
		efail("len of %s", v.S)
	case "ite":
		c := g.evalBool(x.Args[0], ctx.opaque())
		a := g.eval(x.Args[1], ctx)
		b := g.eval(x.Args[2], ctx)
		a, b = g.coerce(a, b)
		r := a
		r.Lit = nil
		r.T = ite(c, a.T, b.T)
		return r
	case "fresh":
		v := g.eval(x.Args[0], ctx)
		ref := v.T
		if v.S == sortSlice {
			ref = "(s_base " + v.T + ")"
		}
		return Val{T: and(sel(g.D.get(ctx.st, liveKey), ref), not(sel(g.D.get(ctx.oldSt, liveKey), ref))), S: sortBool}
	case "live":
		// live(x): x exists (was allocated or handed in) in the current state
		v := g.eval(x.Args[0], ctx)
		ref := v.T
		if v.S == sortSlice {
			ref = "(s_base " + v.T + ")"
		}
		return Val{T: sel(g.D.get(ctx.st, liveKey), ref), S: sortBool}
	case "typeis":
		v := g.eval(x.Args[0], ctx)
		tn := x.Args[1].(EStr).Val
		_, _, t := ctypeByName(g.D, g.P, tn)
		if t == nil {
			efail("unknown type %q in typeis", tn)
		}
		return Val{T: and(not("(= "+v.T+" nil)"), fmt.Sprintf("(= (dyntype %s) %d)", v.T, g.D.typeID(t))), S: sortBool}
	case "implements":
		v := g.eval(x.Args[0], ctx)
		tn := x.Args[1].(EStr).Val
		_, _, t := ctypeByName(g.D, g.P, tn)
		if t == nil {
			efail("unknown type %q in implements", tn)
		}
		return Val{T: fmt.Sprintf("(implements (dyntype %s) %d)", v.T, g.D.typeID(t)), S: sortBool}
	case "maphas", "mapget":
		m := g.eval(x.Args[0], ctx)
		k := g.eval(x.Args[1], ctx)
		mt, ok := m.Go.Underlying().(*types.Map)
		if !ok {
			efail("maphas on non-map")
		}
		h, vk, _ := g.D.mapKeysT(mt.Key(), mt.Elem())
		if k.Lit != nil {
			k = Val{T: bvLit(k.Lit, bvWidth(g.D.sortOf(mt.Key()))), S: g.D.sortOf(mt.Key())}
		}
		if x.Fn == "maphas" {
			return Val{T: sel(sel(g.D.get(ctx.st, h), m.T), k.T), S: sortBool}
		}
		return g.mkVal(sel(sel(g.D.get(ctx.st, vk), m.T), k.T), mt.Elem())
	case "substr":
		v := g.eval(x.Args[0], ctx)
		lo := g.eval(x.Args[1], ctx)
		hi := g.eval(x.Args[2], ctx)
		lt, ht := lo.T, hi.T
		if lo.Lit != nil {
			lt = bvLit(lo.Lit, 64)
		}
		if hi.Lit != nil {
			ht = bvLit(hi.Lit, 64)
		}
		return Val{T: fmt.Sprintf("(ssub %s %s %s)", v.T, lt, ht), S: sortStr, Go: types.Typ[types.String]}
	case "base":
		v := g.eval(x.Args[0], ctx)
		return Val{T: "(s_base " + v.T + ")", S: sortRef}
	case "str":
		// str(p): the string spelled by the bytes of slice p (same term as the conversion string(p))
		v := g.eval(x.Args[0], ctx)
		if v.S == sortStr {
			return v
		}
		if v.S != sortSlice || v.Go == nil {
			efail("str expects a byte slice")
		}
		et := v.Go.Underlying().(*types.Slice).Elem()
		k := g.D.memKeyT(et)
		return Val{T: fmt.Sprintf("(bytes2str (s_base %s) (s_off %s) (s_len %s) %s)", v.T, v.T, v.T, sel(g.D.get(ctx.st, k), "(s_base "+v.T+")")), S: sortStr, Go: types.Typ[types.String]}
	case "cat":
		a := g.eval(x.Args[0], ctx)
		b := g.eval(x.Args[1], ctx)
		if a.S != sortStr || b.S != sortStr {
			efail("cat expects two strings")
		}
		return Val{T: fmt.Sprintf("(scat %s %s)", a.T, b.T), S: sortStr, Go: types.Typ[types.String]}
	case "sum":
		// sum(k, lo, hi, body): the wrapping machine sum of body for k = lo .. hi-1. It is an
		// uninterpreted function of (lo, hi) whose symbol is determined by the body term (which
		// names the heap arrays of the evaluation state, so a different heap is a different sum);
		// each occurrence is unfolded by one step at its upper bound.
		if len(x.Args) != 4 {
			efail("sum(k, lo, hi, body)")
		}
		kid, ok := x.Args[0].(EIdent)
		if !ok {
			efail("sum: first argument is the bound variable")
		}
		to64t := func(v Val) string {
			if v.Lit != nil {
				return bvLit(v.Lit, 64)
			}
			return to64(v)
		}
		lo := to64t(g.eval(x.Args[1], ctx))
		hi := to64t(g.eval(x.Args[2], ctx))
		bodyAt := func(t string) Val {
			c2 := *ctx
			nb := map[string]Val{}
			for k, v := range ctx.bound {
				nb[k] = v
			}
			nb[kid.Name] = Val{T: t, S: sortBV64, Signed: true, Go: types.Typ[types.Int]}
			c2.bound = nb
			return g.eval(x.Args[3], &c2)
		}
		// The enclosing spec definition's parameters (and other bound variables) are arguments of
		// the sum function, not part of its identity: two sums over equal arguments are then equal
		// by congruence even when the argument terms are spelled differently.
		var pnames []string
		used := map[string]bool{}
		exprIdents(x.Args[3], used)
		for n := range ctx.bound {
			if n != kid.Name && used[n] {
				pnames = append(pnames, n)
			}
		}
		sort.Strings(pnames)
		var psorts, pterms []string
		phBound := map[string]Val{}
		for _, n := range pnames {
			v := ctx.bound[n]
			t, srt := v.T, v.S
			if v.Lit != nil {
				t, srt = bvLit(v.Lit, 64), sortBV64
			}
			psorts = append(psorts, srt)
			pterms = append(pterms, t)
			pv := v
			pv.Lit = nil
			pv.T = "q_sump_" + n
			pv.S = srt
			pv.Place = nil
			phBound[n] = pv
		}
		phCtx := *ctx
		nbp := map[string]Val{}
		for n, v := range phBound {
			nbp[n] = v
		}
		nbp[kid.Name] = Val{T: "q_sumk", S: sortBV64, Signed: true, Go: types.Typ[types.Int]}
		phCtx.bound = nbp
		ph := g.eval(x.Args[3], &phCtx)
		if !isBV(ph.S) || ph.Lit != nil {
			efail("sum: body must be a machine integer term")
		}
		hsh := fnv.New64a()
		hsh.Write([]byte(ph.S + "|" + ph.T + "|" + strings.Join(psorts, ",")))
		fn := fmt.Sprintf("sum_%x", hsh.Sum64())
		argSorts := append([]string{"(_ BitVec 64)", "(_ BitVec 64)"}, psorts...)
		g.D.declare("sum:"+fn, fmt.Sprintf("(declare-fun %s (%s) %s)", fn, strings.Join(argSorts, " "), ph.S))
		app := func(lo, hi string) string {
			return fmt.Sprintf("(%s %s)", fn, strings.Join(append([]string{lo, hi}, pterms...), " "))
		}
		term := app(lo, hi)
		if !strings.Contains(hi, "q_") && !strings.Contains(lo, "q_") && !strings.Contains(strings.Join(pterms, " "), "q_") {
			key := "sum-unfold:" + term
			if g.root().sumUnfolded == nil {
				g.root().sumUnfolded = map[string]bool{}
			}
			if !g.root().sumUnfolded[key] {
				g.root().sumUnfolded[key] = true
				prev := fmt.Sprintf("(bvsub %s (_ bv1 64))", hi)
				bv := bodyAt(prev)
				g.assume("true", and(
					implies(fmt.Sprintf("(bvsle %s %s)", hi, lo), fmt.Sprintf("(= %s (_ bv0 %d))", term, bvWidth(ph.S))),
					implies(fmt.Sprintf("(bvsgt %s %s)", hi, lo), fmt.Sprintf("(= %s (bvadd %s %s))", term, app(lo, prev), bv.T))), "sum-unfold")
			}
		}
		return Val{T: term, S: ph.S, Signed: ph.Signed, Go: ph.Go}
	case "loophead":
		// loophead(x): the value the source-level variable x had at the head of the innermost loop
		// that encloses the current program point (in this iteration): the header phi named x
		id, ok := x.Args[0].(EIdent)
		if !ok {
			efail("loophead takes a variable name")
		}
		var best *loopInfo
		for _, li := range g.loops {
			if li.blocks[g.curBlock] && (best == nil || len(li.blocks) < len(best.blocks)) {
				best = li
			}
		}
		if best == nil {
			efail("loophead(%s) used outside a loop in %s", id.Name, g.name)
		}
		for _, ins := range best.header.Instrs {
			phi, ok := ins.(*ssa.Phi)
			if !ok {
				break
			}
			if phi.Comment == id.Name {
				if v, ok := g.vals[phi]; ok {
					return v
				}
			}
		}
		efail("loophead(%s): the enclosing loop of %s carries no variable of that name", id.Name, g.name)
		return Val{}
	case "addrof":
		// addrof(p.f) / addrof(p.f.g): the address of a field (or of a field nested in struct-valued
		// fields) of the struct p points to; the same deterministic address term the executor gives
		// to the corresponding FieldAddr chain
		pl := g.placeOfExpr(x.Args[0], ctx)
		return Val{T: g.opaqueAddr(pl), S: sortRef, Go: types.NewPointer(pl.Elem), Place: pl}
	case "deref":
		v := g.eval(x.Args[0], ctx)
		if v.Go == nil {
			efail("deref of untyped value")
		}
		pt, ok := v.Go.Underlying().(*types.Pointer)
		if !ok {
			efail("deref of non-pointer %v", v.Go)
		}
		if _, ok := pt.Elem().Underlying().(*types.Struct); ok {
			return g.mkVal(g.loadStruct(ctx.st, v.T, pt.Elem()), pt.Elem())
		}
		k := g.D.cellKeyT(pt.Elem())
		return g.mkVal(sel(g.D.get(ctx.st, k), v.T), pt.Elem())
	case "toInt":
		v := g.eval(x.Args[0], ctx)
		if v.Lit != nil {
			return Val{T: intLit(v.Lit), S: "Int", Signed: true}
		}
		if v.Signed {
			w := bvWidth(v.S)
			return Val{T: fmt.Sprintf("(ite (bvslt %s %s) (- (bv2nat %s) %s) (bv2nat %s))", v.T, bvInt(0, w), v.T, new(big.Int).Lsh(big.NewInt(1), uint(w)).String(), v.T), S: "Int", Signed: true}
		}
		return Val{T: "(bv2nat " + v.T + ")", S: "Int", Signed: true}
	}
	// casts
	if s, signed, gt := ctypeByName(g.D, g.P, x.Fn); s != "" && isBV(s) && len(x.Args) == 1 {
		v := g.eval(x.Args[0], ctx)
		if v.Lit != nil {
			return Val{T: bvLit(v.Lit, bvWidth(s)), S: s, Signed: signed, Go: gt}
		}
		if !isBV(v.S) {
			efail("cast of non-integer %s", v.S)
		}
		return Val{T: convInt(v.T, bvWidth(v.S), bvWidth(s), v.Signed), S: s, Signed: signed, Go: gt}
	}
	// aliases of pure external functions: the same uninterpreted function the call sites use
	if al, ok := g.S.Aliases[x.Fn]; ok {
		var as, ts []string
		psig := g.pkgFuncSig(al.Func)
		for i, a := range x.Args {
			v := g.eval(a, ctx)
			if v.Lit != nil {
				w := 64
				if psig != nil && i < psig.Params().Len() {
					if ps := g.D.sortOf(psig.Params().At(i).Type()); isBV(ps) {
						w = bvWidth(ps)
					}
				}
				v = Val{T: bvLit(v.Lit, w), S: bvSort(w)}
			}
			as = append(as, v.S)
			ts = append(ts, v.T)
		}
		if ct := g.S.Contracts[al.Func]; ct != nil && len(ct.PureReads) > 0 {
			// memory arguments, in the order of the reads clause; the slice is found by parameter
			// position among the alias arguments (receiver first)
			names := g.paramNamesOf(al.Func)
			for _, pn := range ct.PureReads {
				for idx, n := range names {
					if n == pn && idx < len(x.Args) {
						v := g.eval(x.Args[idx], ctx)
						if v.S != sortSlice || v.Go == nil {
							efail("alias %s: argument %d is not a typed slice", x.Fn, idx)
						}
						et := v.Go.Underlying().(*types.Slice).Elem()
						k := g.D.memKeyT(et)
						as = append(as, fmt.Sprintf("(Array (_ BitVec 64) %s)", g.D.sortOf(et)))
						ts = append(ts, sel(g.D.get(ctx.st, k), "(s_base "+v.T+")"))
					}
				}
			}
		}
		rs, signed, gt := ctypeByName(g.D, g.P, al.ResType)
		if rs == "" {
			efail("alias %s: unknown result type %s", x.Fn, al.ResType)
		}
		fn := fmt.Sprintf("pf_%s_%d", sanitize(al.Func), al.Index)
		g.D.declare("pure:"+fn, fmt.Sprintf("(declare-fun %s (%s) %s)", fn, strings.Join(as, " "), rs))
		t := fn
		if len(ts) > 0 {
			t = fmt.Sprintf("(%s %s)", fn, strings.Join(ts, " "))
		}
		return Val{T: t, S: rs, Signed: signed, Go: gt}
	}
	// ghost fields
	if gf, ok := g.S.GhostFields[x.Fn]; ok {
		key := g.ensureGhostField(x.Fn)
		a := g.eval(x.Args[0], ctx)
		rs, signed, gt := ctypeByName(g.D, g.P, gf.ResType)
		at := a.T
		if a.Lit != nil {
			as, _, _ := ctypeByName(g.D, g.P, gf.ArgType)
			at = bvLit(a.Lit, bvWidth(as))
		}
		return Val{T: sel(g.D.get(ctx.st, key), at), S: rs, Signed: signed, Go: gt}
	}
	// spec functions
	if sf, ok := g.S.SpecFuncs[x.Fn]; ok {
		if len(x.Args) != len(sf.ArgTypes) {
			efail("spec function %s expects %d arguments", x.Fn, len(sf.ArgTypes))
		}
		var args []Val
		for i, a := range x.Args {
			v := g.eval(a, ctx)
			s, signed, gt := ctypeByName(g.D, g.P, sf.ArgTypes[i])
			if s == "" {
				efail("unknown type %s in spec function %s", sf.ArgTypes[i], x.Fn)
			}
			if v.Lit != nil && isBV(s) {
				v = Val{T: bvLit(v.Lit, bvWidth(s)), S: s, Signed: signed, Go: gt}
			} else if v.Lit != nil && s == "Int" {
				v = Val{T: intLit(v.Lit), S: "Int", Signed: true}
			}
			if v.S != s {
				efail("argument %d of %s has sort %s, want %s", i, x.Fn, v.S, s)
			}
			if v.Go == nil {
				v.Go = gt
			}
			v.Signed = signed
			args = append(args, v)
		}
		rs, rsigned, rgt := ctypeByName(g.D, g.P, sf.ResType)
		if sf.Body != nil {
			nb := map[string]Val{}
			for i, n := range sf.ArgNames {
				nb[n] = args[i]
			}
			c2 := *ctx
			c2.bound = nb
			c2.env = map[string]Val{}
			r := g.eval(sf.Body, &c2)
			if r.Lit != nil && isBV(rs) {
				r = Val{T: bvLit(r.Lit, bvWidth(rs)), S: rs}
			}
			r.Signed = rsigned
			if r.Go == nil {
				r.Go = rgt
			}
			return r
		}
		var as, ts []string
		for _, a := range args {
			as = append(as, a.S)
			ts = append(ts, a.T)
		}
		g.D.declare("spec:"+x.Fn, fmt.Sprintf("(declare-fun spec_%s (%s) %s)", x.Fn, strings.Join(as, " "), rs))
		if len(ts) == 0 {
			return Val{T: "spec_" + x.Fn, S: rs, Signed: rsigned, Go: rgt}
		}
		return Val{T: fmt.Sprintf("(spec_%s %s)", x.Fn, strings.Join(ts, " ")), S: rs, Signed: rsigned, Go: rgt}
	}
	efail("unknown function %q in contract expression", x.Fn)
	return Val{}
}

// ---------------------------------------------------------------------------------------
// Clause-level helpers: goals are skolemised, quantified hypotheses are remembered so that
// explicit "inst" hints can instantiate them.

type QFact struct {
	e     Expr
	ctx   EvalCtx
	guard string
}

// assumeClause assumes a contract clause and remembers it if it contains a quantifier.
func (g *FnGen) assumeClause(guard string, e Expr, ctx *EvalCtx, origin string) {
	t := g.evalBool(e, ctx)
	g.assume(guard, t, origin)
	if strings.Contains(t, "(forall ") {
		c := *ctx
		c.st = ctx.st.clone()
		if ctx.oldSt != nil {
			c.oldSt = ctx.oldSt.clone()
		}
		g.root().qfacts = append(g.root().qfacts, QFact{e: e, ctx: c, guard: guard})
	}
}

// obligeClause evaluates a clause in goal position (universal quantifiers skolemised) and adds
// the instances requested by the contract's "inst <clause>: <term>" hints, scoped to this goal.
func (g *FnGen) obligeClause(kind, label, guard string, c Clause, ctx *EvalCtx, pos token.Pos) *Obligation {
	gc := *ctx
	gc.skolem = true
	gc.skolems = map[string]Val{}
	var hints []Clause
	if c.Name != "" {
		if g.C != nil {
			hints = append(hints, g.C.Insts[c.Name]...)
		}
		hints = append(hints, g.S.GlobalInsts[c.Name]...)
	}
	for _, h := range hints {
		if r, ok := h.E.(ERange); ok {
			if gc.goalInst == nil {
				gc.goalInst = map[string][]string{}
			}
			for i := new(big.Int).Set(r.Lo); i.Cmp(r.Hi) <= 0; i = new(big.Int).Add(i, big.NewInt(1)) {
				gc.goalInst[h.Name] = append(gc.goalInst[h.Name], bvLit(i, 64))
			}
		}
	}
	t := g.evalBool(c.E, &gc)
	var extras []string
	if c.Name != "" {
		// collect the requested terms per bound-variable name; every remembered quantified fact is
		// then instantiated at each combination (variables a fact does not bind are ignored)
		terms := map[string][]string{}
		var order []string
		for _, h := range hints {
			if _, ok := h.E.(ERange); ok {
				continue
			}
			hc := gc
			hc.skolem = false
			nb := map[string]Val{}
			for k, v := range gc.bound {
				nb[k] = v
			}
			for k, v := range gc.skolems {
				nb[k] = v
			}
			hc.bound = nb
			hv := g.eval(h.E, &hc)
			ht := hv.T
			if hv.Lit != nil {
				ht = bvLit(hv.Lit, 64)
			}
			if _, seen := terms[h.Name]; !seen {
				order = append(order, h.Name)
			}
			terms[h.Name] = append(terms[h.Name], ht)
		}
		if len(order) > 0 {
			combos := []map[string]string{{}}
			for _, name := range order {
				var next []map[string]string
				for _, cm := range combos {
					for _, t := range terms[name] {
						m := map[string]string{}
						for k, v := range cm {
							m[k] = v
						}
						m[name] = t
						next = append(next, m)
					}
				}
				combos = next
				if len(combos) > 64 {
					combos = combos[:64]
				}
			}
			for _, qf := range g.root().qfacts {
				for _, cm := range combos {
					ic := qf.ctx
					ic.instAt = cm
					inst := g.evalBool(qf.e, &ic)
					if strings.Contains(inst, "(forall ") && stripQNames(inst) == stripQNames(g.evalBoolNoInst(qf)) {
						continue // the hint binds none of this fact's variables: nothing was instantiated
					}
					extras = append(extras, implies(qf.guard, inst))
				}
			}
		}
	}
	ob := g.oblige(kind, label, guard, t, c.Src, pos)
	ob.extras = append(ob.extras, extras...)
	g.root().items[ob.item].Extras = ob.extras
	return ob
}

func (g *FnGen) evalBoolNoInst(qf QFact) string {
	ic := qf.ctx
	ic.instAt = nil
	return g.evalBool(qf.e, &ic)
}

// paramNamesOf lists receiver and parameter names of an in-repo function, receiver first.
var (
	extFuncOnce sync.Once
	extFuncs    map[string]*ssa.Function
)

func (g *FnGen) paramNamesOf(fn string) []string {
	f := g.P.Funcs[fn]
	if f == nil {
		// a dependency function (extern contract with a reads clause): found among all functions
		extFuncOnce.Do(func() {
			extFuncs = map[string]*ssa.Function{}
			for af := range ssautil.AllFunctions(g.P.Prog) {
				extFuncs[fnName(af)] = af
			}
		})
		f = extFuncs[fn]
		if f != nil && len(f.Params) == 0 {
			f = nil // declared but not built: no parameter objects
		}
	}
	if f == nil {
		// "(import/path.Type).Method" or "(*import/path.Type).Method" of a dependency: through go/types
		if m := extMethodRe.FindStringSubmatch(fn); m != nil {
			for _, sp := range g.P.Prog.AllPackages() {
				if sp.Pkg.Path() != m[1] {
					continue
				}
				obj := sp.Pkg.Scope().Lookup(m[2])
				if obj == nil {
					continue
				}
				ms := types.NewMethodSet(types.NewPointer(obj.Type()))
				for i := 0; i < ms.Len(); i++ {
					fo, ok := ms.At(i).Obj().(*types.Func)
					if !ok || fo.Name() != m[3] {
						continue
					}
					sig := fo.Type().(*types.Signature)
					var out []string
					if sig.Recv() != nil {
						out = append(out, sig.Recv().Name())
					}
					for k := 0; k < sig.Params().Len(); k++ {
						out = append(out, sig.Params().At(k).Name())
					}
					return out
				}
			}
		}
		return nil
	}
	var out []string
	for _, p := range f.Params {
		out = append(out, p.Name())
	}
	return out
}

// pkgFuncSig finds the signature of a package-level function "import/path.Name".
func (g *FnGen) pkgFuncSig(name string) *types.Signature {
	i := strings.LastIndex(name, ".")
	if i < 0 || strings.HasPrefix(name, "(") {
		return nil
	}
	for _, sp := range g.P.Prog.AllPackages() {
		if sp.Pkg.Path() == name[:i] || shortName(sp.Pkg.Path()) == name[:i] {
			if f := sp.Func(name[i+1:]); f != nil {
				return f.Signature
			}
		}
	}
	return nil
}

var extMethodRe = regexp.MustCompile(`^\(\*?([^()]+)\.([A-Za-z0-9_]+)\)\.([A-Za-z0-9_]+)$`)

var qNameRe = regexp.MustCompile(`q_[A-Za-z0-9_]+![0-9]+`)

// stripQNames removes the fresh-name suffixes of bound variables so that two renderings of the
// same quantified formula compare equal.
func stripQNames(t string) string { return qNameRe.ReplaceAllString(t, "q") }

// exprIdents collects the identifiers an expression mentions.
func exprIdents(e Expr, out map[string]bool) {
	switch x := e.(type) {
	case EIdent:
		out[x.Name] = true
	case EUnary:
		exprIdents(x.X, out)
	case EBinary:
		exprIdents(x.X, out)
		exprIdents(x.Y, out)
	case ECall:
		for _, a := range x.Args {
			exprIdents(a, out)
		}
	case ESel:
		exprIdents(x.X, out)
	case EIndex:
		exprIdents(x.X, out)
		exprIdents(x.I, out)
	case ETypeAssert:
		exprIdents(x.X, out)
	case EForall:
		exprIdents(x.Body, out)
	}
}
