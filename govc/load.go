package main

import (
	"fmt"
	"go/types"
	"os"
	"sort"
	"strings"

	"golang.org/x/tools/go/packages"
	"golang.org/x/tools/go/ssa"
	"golang.org/x/tools/go/ssa/ssautil"
)

const modPath = "github.com/ipfs/go-unixfsnode"

// Program is the loaded, type-checked SSA form of /repo's current working tree.
type Program struct {
	Prog     *ssa.Program
	Pkgs     []*ssa.Package
	Funcs    map[string]*ssa.Function // short name -> function (in-repo, incl. closures and methods)
	AllFuncs []*ssa.Function          // in-repo functions, sorted by name
	RepoDir  string
	TypePkgs []*types.Package
}

// shortName strips the module path: "(*hamt.hashBits).next", "data/builder.fileTreeRecursive".
func shortName(s string) string {
	s = strings.ReplaceAll(s, modPath+"/", "")
	s = strings.ReplaceAll(s, modPath+".", "unixfsnode.")
	return s
}

func fnName(f *ssa.Function) string { return shortName(f.String()) }

func inRepoPkg(p *types.Package) bool {
	return p != nil && (p.Path() == modPath || strings.HasPrefix(p.Path(), modPath+"/"))
}

func inRepoFn(f *ssa.Function) bool {
	if f == nil {
		return false
	}
	if f.Pkg != nil {
		return inRepoPkg(f.Pkg.Pkg)
	}
	if f.Parent() != nil {
		return inRepoFn(f.Parent())
	}
	// wrappers / thunks: attribute to object package
	if o := f.Object(); o != nil {
		return inRepoPkg(o.Pkg())
	}
	return false
}

// generated code in /repo is treated as an external dependency.
func isGeneratedFn(prog *ssa.Program, f *ssa.Function) bool {
	if f.Pos().IsValid() {
		fn := prog.Fset.Position(f.Pos()).Filename
		return strings.Contains(fn, "ipldsch_") || strings.Contains(fn, "/data/gen/")
	}
	if f.Parent() != nil {
		return isGeneratedFn(prog, f.Parent())
	}
	return f.Synthetic != ""
}

func LoadProgram(repoDir string, patterns []string) (*Program, error) {
	cfg := &packages.Config{
		Mode:       packages.LoadAllSyntax,
		Dir:        repoDir,
		BuildFlags: []string{"-tags=verif"},
		Env:        append(os.Environ(), "GOFLAGS=-mod=mod", "GOPROXY=off", "GOSUMDB=off", "GOTOOLCHAIN=local"),
	}
	pkgs, err := packages.Load(cfg, patterns...)
	if err != nil {
		return nil, err
	}
	nerr := 0
	packages.Visit(pkgs, nil, func(p *packages.Package) {
		for _, e := range p.Errors {
			if inRepoPkg(p.Types) {
				fmt.Fprintln(os.Stderr, "load error:", e)
				nerr++
			}
		}
	})
	if nerr > 0 {
		return nil, fmt.Errorf("%d load errors in /repo packages", nerr)
	}
	prog, spkgs := ssautil.AllPackages(pkgs, ssa.InstantiateGenerics|ssa.GlobalDebug)
	P := &Program{Prog: prog, Funcs: map[string]*ssa.Function{}, RepoDir: repoDir}
	for _, sp := range spkgs {
		if sp != nil && inRepoPkg(sp.Pkg) {
			sp.Build()
			P.Pkgs = append(P.Pkgs, sp)
			P.TypePkgs = append(P.TypePkgs, sp.Pkg)
		}
	}
	for fn := range ssautil.AllFunctions(prog) {
		if !inRepoFn(fn) || fn.Blocks == nil {
			continue
		}
		if isGeneratedFn(prog, fn) {
			continue
		}
		if fn.Synthetic != "" && !strings.Contains(fn.Name(), "$") {
			// wrappers, bound methods, init: skip (init handled separately)
			if fn.Name() != "init" {
				continue
			}
		}
		if strings.HasSuffix(fn.Name(), "$bound") || strings.HasSuffix(fn.Name(), "$thunk") {
			continue
		}
		n := fnName(fn)
		if old, ok := P.Funcs[n]; ok && old != fn {
			continue
		}
		P.Funcs[n] = fn
	}
	for _, f := range P.Funcs {
		P.AllFuncs = append(P.AllFuncs, f)
	}
	sort.Slice(P.AllFuncs, func(i, j int) bool { return fnName(P.AllFuncs[i]) < fnName(P.AllFuncs[j]) })
	return P, nil
}

// calleeName returns the contract key for a call: static function name, interface
// method full name, or "" for a dynamic call.
func calleeName(c *ssa.CallCommon) string {
	if c.IsInvoke() {
		return shortName(c.Method.FullName())
	}
	switch v := c.Value.(type) {
	case *ssa.Function:
		return shortName(v.String())
	case *ssa.Builtin:
		return "builtin." + v.Name()
	case *ssa.MakeClosure:
		return shortName(v.Fn.(*ssa.Function).String())
	}
	return ""
}
