package main

import (
	"bytes"
	"context"
	"fmt"
	"os"
	"os/exec"
	"path/filepath"
	"strings"
	"sync"
	"time"
)

type Solver struct {
	Name string
	Cmd  func(file string, timeoutMs int, incremental bool) []string
}

var solvers = []Solver{
	{"z3-new", func(f string, t int, inc bool) []string {
		return []string{"z3-new", fmt.Sprintf("-t:%d", t), f}
	}},
	{"cvc5", func(f string, t int, inc bool) []string {
		a := []string{"cvc5", "--lang=smt2", fmt.Sprintf("--tlimit-per=%d", t)}
		if inc {
			a = append(a, "--incremental")
		}
		return append(a, f)
	}},
	{"z3", func(f string, t int, inc bool) []string {
		return []string{"z3", fmt.Sprintf("-t:%d", t), f}
	}},
}

func solverByName(n string) *Solver {
	for i := range solvers {
		if solvers[i].Name == n {
			return &solvers[i]
		}
	}
	return nil
}

// incrementalScript renders the whole function as one push/pop script.
func (g *FnGen) incrementalScript() string {
	var b strings.Builder
	b.WriteString("(set-option :produce-models false)\n(set-logic ALL)\n")
	body := g.renderBody(-1, false)
	for _, p := range g.D.prelude {
		b.WriteString(p)
		b.WriteString("\n")
	}
	if s := g.D.strDistinct(); s != "" {
		b.WriteString(s + "\n")
	}
	b.WriteString(body)
	return b.String()
}

// renderBody renders items; if upTo >= 0 only the obligation with that item index is checked
// (earlier obligations become assumptions) and a model is requested.
func (g *FnGen) renderBody(upTo int, model bool) string {
	return g.renderBodyOpt(upTo, model, false)
}

// renderBodyOpt: with dropQuant, quantified assumptions are left out (fewer assumptions: an
// "unsat" answer is still a valid proof, a "sat" answer is not a counterexample).
func (g *FnGen) renderBodyOpt(upTo int, model bool, dropQuant bool) string {
	var b strings.Builder
	for i, it := range g.items {
		if dropQuant && it.Kind == itAssume && strings.Contains(it.Fact, "(forall ") {
			continue
		}
		if dropQuant && it.Kind == itOblig && i != upTo && strings.Contains(it.Fact, "(forall ") {
			continue
		}
		if upTo >= 0 && i > upTo {
			break
		}
		switch it.Kind {
		case itDef:
			b.WriteString(it.Text)
			b.WriteString("\n")
		case itAssume:
			fmt.Fprintf(&b, "(assert %s)\n", implies(it.Guard, it.Fact))
		case itCover:
			if upTo < 0 {
				fmt.Fprintf(&b, "(push 1)\n(assert %s)\n(echo \"CV %d\")\n(check-sat)\n(pop 1)\n", it.Guard, i)
			}
		case itOblig:
			if upTo < 0 {
				b.WriteString("(push 1)\n")
				for _, x := range it.Extras {
					fmt.Fprintf(&b, "(assert %s)\n", x)
				}
				fmt.Fprintf(&b, "(assert %s)\n(assert %s)\n(echo \"OB %d\")\n(check-sat)\n(pop 1)\n", it.Guard, not(it.Fact), i)
				if !noAssumeAfter[it.Ob.Kind] {
					fmt.Fprintf(&b, "(assert %s)\n", implies(it.Guard, it.Fact))
				}
			} else if i == upTo {
				for _, x := range it.Extras {
					if dropQuant && strings.Contains(x, "(forall ") {
						continue
					}
					fmt.Fprintf(&b, "(assert %s)\n", x)
				}
				fmt.Fprintf(&b, "(assert %s)\n(assert %s)\n(check-sat)\n", it.Guard, not(it.Fact))
				if model {
					b.WriteString("(get-model)\n")
				}
			} else if !noAssumeAfter[it.Ob.Kind] {
				fmt.Fprintf(&b, "(assert %s)\n", implies(it.Guard, it.Fact))
			}
		}
	}
	return b.String()
}

// Frame and lock-discipline obligations do not stop execution when they are violated, and their
// condition is often the constant false under the path guard: assuming them afterwards would make
// the rest of the path vacuous and mask later obligations (of other kinds, claimed by other
// properties). They are therefore checked but never assumed.
var noAssumeAfter = map[string]bool{"assigns": true, "shared-write": true}

func (g *FnGen) singleScript(ob *Obligation, model bool) string {
	return g.singleScriptOpt(ob, model, false)
}

func (g *FnGen) singleScriptOpt(ob *Obligation, model bool, dropQuant bool) string {
	var b strings.Builder
	if model {
		b.WriteString("(set-option :produce-models true)\n")
	}
	b.WriteString("(set-logic ALL)\n")
	body := g.renderBodyOpt(ob.item, model, dropQuant)
	for _, p := range g.D.prelude {
		b.WriteString(p)
		b.WriteString("\n")
	}
	if s := g.D.strDistinct(); s != "" {
		b.WriteString(s + "\n")
	}
	b.WriteString(body)
	return b.String()
}

func runSolver(s *Solver, file string, timeoutMs int, inc bool, hard time.Duration) (string, error) {
	args := s.Cmd(file, timeoutMs, inc)
	ctx, cancel := context.WithTimeout(context.Background(), hard)
	defer cancel()
	cmd := exec.CommandContext(ctx, args[0], args[1:]...)
	var out bytes.Buffer
	cmd.Stdout = &out
	cmd.Stderr = &out
	err := cmd.Run()
	return out.String(), err
}

var tmpSeq int
var tmpMu sync.Mutex

func tmpFile(dir, prefix string) string {
	tmpMu.Lock()
	defer tmpMu.Unlock()
	tmpSeq++
	return filepath.Join(dir, fmt.Sprintf("%s_%d_%d.smt2", sanitize(prefix), os.Getpid(), tmpSeq))
}

// Discharge runs all obligations of the function. First a single incremental run on the fastest
// solver; then every obligation not proved there is raced standalone on all solvers.
func (g *FnGen) Discharge(workDir string, timeoutMs int, keep bool) {
	if len(g.obs) == 0 && len(g.covers) == 0 {
		return
	}
	script := g.incrementalScript()
	f := tmpFile(workDir, "inc_"+g.name)
	os.WriteFile(f, []byte(script), 0o644)
	if !keep {
		defer os.Remove(f)
	}
	t0 := time.Now()
	hard := time.Duration(timeoutMs*len(g.obs)+5000) * time.Millisecond
	if hard > 10*time.Minute {
		hard = 10 * time.Minute
	}
	incT := timeoutMs
	if incT > 2000 {
		incT = 2000
	}
	out, _ := runSolver(&solvers[0], f, incT, true, hard)
	el := time.Since(t0).Seconds()
	// parse: lines "OB <i>" followed by result
	res := map[int]string{}
	lines := strings.Split(out, "\n")
	for i := 0; i < len(lines); i++ {
		l := strings.TrimSpace(strings.Trim(strings.TrimSpace(lines[i]), "\""))
		if strings.HasPrefix(l, "OB ") {
			var idx int
			fmt.Sscanf(l, "OB %d", &idx)
			if i+1 < len(lines) {
				res[idx] = strings.TrimSpace(lines[i+1])
			}
		}
	}
	for _, c := range g.covers {
		c.Status = "unknown"
	}
	for i := 0; i < len(lines); i++ {
		l := strings.TrimSpace(strings.Trim(strings.TrimSpace(lines[i]), "\""))
		if strings.HasPrefix(l, "CV ") {
			var idx int
			fmt.Sscanf(l, "CV %d", &idx)
			if i+1 < len(lines) {
				for _, c := range g.covers {
					if c.item == idx {
						c.Status = strings.TrimSpace(lines[i+1])
					}
				}
			}
		}
	}
	var todo []*Obligation
	for _, ob := range g.obs {
		r := res[ob.item]
		if os.Getenv("GOVC_FORCE_RACE") != "" {
			r = "" // diagnosis: every obligation must also be provable on its own
		}
		if r == "unsat" {
			ob.Status = "unsat"
			ob.Solver = solvers[0].Name
			ob.Secs = el / float64(len(g.obs))
		} else {
			todo = append(todo, ob)
		}
	}
	if len(todo) > 0 && strings.Contains(out, "(error") && os.Getenv("GOVC_DEBUG") != "" {
		fmt.Fprintf(os.Stderr, "solver error in %s:\n%s\n", g.name, firstLines(out, 10))
	}
	var wg sync.WaitGroup
	sem := make(chan struct{}, 4)
	for _, ob := range todo {
		wg.Add(1)
		go func(ob *Obligation) {
			defer wg.Done()
			sem <- struct{}{}
			defer func() { <-sem }()
			g.raceOne(ob, workDir, timeoutMs, keep)
		}(ob)
	}
	wg.Wait()
}

func firstLines(s string, n int) string {
	l := strings.Split(s, "\n")
	if len(l) > n {
		l = l[:n]
	}
	return strings.Join(l, "\n")
}

type raceResult struct {
	solver string
	status string
	model  string
	secs   float64
	raw    string
}

func (g *FnGen) raceOne(ob *Obligation, workDir string, timeoutMs int, keep bool) {
	script := g.singleScript(ob, true)
	f := tmpFile(workDir, "one_"+ob.Name)
	os.WriteFile(f, []byte(script), 0o644)
	if !keep {
		defer os.Remove(f)
	}
	ch := make(chan raceResult, 2*len(solvers))
	ctx, cancel := context.WithCancel(context.Background())
	defer cancel()
	nExtra := 0
	if strings.Contains(script, "(forall ") {
		f2 := tmpFile(workDir, "oneqf_"+ob.Name)
		os.WriteFile(f2, []byte(g.singleScriptOpt(ob, false, true)), 0o644)
		if !keep {
			defer os.Remove(f2)
		}
		for _, sn := range []string{"z3-new", "cvc5"} {
			nExtra++
			go func(s *Solver) {
				t0 := time.Now()
				args := s.Cmd(f2, timeoutMs, false)
				c, cancel2 := context.WithTimeout(ctx, time.Duration(timeoutMs+3000)*time.Millisecond)
				defer cancel2()
				cmd := exec.CommandContext(c, args[0], args[1:]...)
				var out bytes.Buffer
				cmd.Stdout = &out
				cmd.Stderr = &out
				cmd.Run()
				first := strings.TrimSpace(strings.SplitN(out.String(), "\n", 2)[0])
				rr := raceResult{solver: s.Name + "(quantified hypotheses dropped)", secs: time.Since(t0).Seconds(), status: "unknown", raw: "no-quantifier variant: " + first}
				if first == "unsat" {
					rr.status = "unsat"
				}
				ch <- rr
			}(solverByName(sn))
		}
	}
	for i := range solvers {
		go func(s *Solver) {
			t0 := time.Now()
			args := s.Cmd(f, timeoutMs, false)
			if s.Name == "cvc5" {
				args = append([]string{args[0], "--produce-models"}, args[1:]...)
			}
			c, cancel2 := context.WithTimeout(ctx, time.Duration(timeoutMs+3000)*time.Millisecond)
			defer cancel2()
			cmd := exec.CommandContext(c, args[0], args[1:]...)
			var out bytes.Buffer
			cmd.Stdout = &out
			cmd.Stderr = &out
			cmd.Run()
			o := out.String()
			first := strings.TrimSpace(strings.SplitN(o, "\n", 2)[0])
			rr := raceResult{solver: s.Name, secs: time.Since(t0).Seconds(), raw: firstLines(o, 5)}
			switch first {
			case "unsat":
				rr.status = "unsat"
			case "sat":
				rr.status = "sat"
				if i := strings.Index(o, "\n"); i >= 0 {
					rr.model = o[i+1:]
				}
			default:
				rr.status = "unknown"
			}
			ch <- rr
		}(&solvers[i])
	}
	var best *raceResult
	for i := 0; i < len(solvers)+nExtra; i++ {
		rr := <-ch
		if rr.status == "unsat" {
			best = &rr
			break
		}
		if rr.status == "sat" && (best == nil || best.status != "sat") {
			r2 := rr
			best = &r2
			// keep waiting briefly for a possible unsat from another solver? A sat answer on a
			// quantifier-free problem is definitive; with quantifiers solvers answer unknown.
			break
		}
		if best == nil {
			r2 := rr
			best = &r2
		}
	}
	cancel()
	ob.Status = best.status
	ob.Solver = best.solver
	ob.Secs = best.secs
	if best.status == "sat" {
		ob.Model = trimModel(best.model, 6000)
	} else if best.status == "unknown" {
		ob.Model = best.raw
	}
}

func trimModel(m string, n int) string {
	if len(m) > n {
		return m[:n] + "\n...(truncated)"
	}
	return m
}
