package main

import (
	"fmt"
	"go/constant"
	"go/token"
	"go/types"
	"os"
	"sort"
	"strconv"
	"strings"

	"golang.org/x/tools/go/ssa"
)

// ---------------------------------------------------------------------------------------
// Calls

func paramNames(ct *Contract, sig *types.Signature) []string {
	var out []string
	for i := 0; i < sig.Params().Len(); i++ {
		n := sig.Params().At(i).Name()
		if ct != nil && i < len(ct.Params) {
			n = ct.Params[i]
		}
		if n == "" || n == "_" {
			n = fmt.Sprintf("a%d", i)
		}
		out = append(out, n)
	}
	return out
}

func isErrorType(t types.Type) bool {
	return types.TypeString(t, nil) == "error"
}

// resultEnv binds result names: result, result0..n, err (last result if of type error), named results.
func resultEnv(env map[string]Val, sig *types.Signature, rs []Val) {
	n := sig.Results().Len()
	for i := 0; i < n && i < len(rs); i++ {
		env[fmt.Sprintf("result%d", i)] = rs[i]
		if nm := sig.Results().At(i).Name(); nm != "" && nm != "_" {
			if _, clash := env[nm]; !clash {
				env[nm] = rs[i]
			}
		}
	}
	if n >= 1 && len(rs) >= 1 {
		env["result"] = rs[0]
		if isErrorType(sig.Results().At(n - 1).Type()) {
			if _, clash := env["err"]; !clash {
				env["err"] = rs[n-1]
			}
		}
	}
}

func (g *FnGen) doCall(ci ssa.CallInstruction, v ssa.Value) {
	c := ci.Common()
	if b, ok := c.Value.(*ssa.Builtin); ok {
		g.doBuiltin(ci, v, b)
		return
	}
	guard := g.curGuard
	name := calleeName(c)
	site := g.siteNames[ci]
	var sig *types.Signature
	if c.IsInvoke() {
		sig = c.Method.Type().(*types.Signature)
	} else {
		sig = c.Signature()
	}
	// arguments
	var recv *Val
	var args []Val
	if c.IsInvoke() {
		r := g.val(c.Value)
		recv = &r
		g.oblige(nilKind(c.Value), site+"/recv", guard, not("(= "+r.T+" nil)"), "method call on nil interface", ci.Pos())
		for _, a := range c.Args {
			args = append(args, g.val(a))
		}
	} else {
		all := c.Args
		if sf, ok := c.Value.(*ssa.Function); ok && sf.Signature.Recv() != nil && len(all) > 0 {
			r := g.val(all[0])
			recv = &r
			all = all[1:]
			sig = sf.Signature
			if _, isPtr := r.Go.Underlying().(*types.Pointer); isPtr && inRepoFn(sf) {
				g.oblige(nilKind(c.Args[0]), site+"/recv", guard, not("(= "+r.T+" nil)"), "method call on nil pointer receiver", ci.Pos())
			}
		}
		for _, a := range all {
			args = append(args, g.val(a))
		}
		if _, isFn := c.Value.(*ssa.Function); !isFn {
			if _, isMC := c.Value.(*ssa.MakeClosure); !isMC {
				fv := g.val(c.Value)
				g.oblige("nil", site+"/func", guard, not("(= "+fv.T+" nil)"), "call of nil func value", ci.Pos())
			}
		}
	}

	if g.parent == nil && g.C != nil {
		cn := name
		if cn == "" {
			cn = "dynamic"
		}
		for _, c := range g.C.MustCall {
			if c == cn {
				key := mustCallKey(c)
				g.st[key] = g.def("called", sortBool, or(not(guard), "true"))
			}
		}
	}
	if g.parent == nil && g.C != nil && g.C.Forbids[name] && !wrapsAnError(c) {
		g.oblige("assert", site+"/forbidden-call", guard, "false", "the contract forbids a (reachable) call of "+name+" in this function", ci.Pos())
	}
	ct := g.S.Contracts[name]
	// a contract may be specialised on a literal first argument: extern fmt.Sprintf["%X"]
	if len(c.Args) > 0 && !c.IsInvoke() {
		if k, ok := c.Args[0].(*ssa.Const); ok && k.Value != nil && k.Value.Kind() == constant.String {
			if sct := g.S.Contracts[name+"["+strconv.Quote(constant.StringVal(k.Value))+"]"]; sct != nil {
				ct = sct
			}
		}
	}
	var callee *ssa.Function
	if f, ok := c.Value.(*ssa.Function); ok {
		callee = f
	} else if mc, ok := c.Value.(*ssa.MakeClosure); ok {
		callee = mc.Fn.(*ssa.Function)
	}
	if f, ok := c.Value.(*ssa.Function); ok && ct == nil && g.shouldInline(f, name) {
		all := args
		if recv != nil {
			all = append([]Val{*recv}, args...)
		}
		if rs, ok := g.inlineCall(f, site, all); ok {
			if v != nil {
				switch len(rs) {
				case 0:
				case 1:
					x := rs[0]
					x.Go = v.Type()
					g.vals[v] = x
				default:
					g.tuples[v] = rs
				}
			}
			return
		}
	}

	env := map[string]Val{}
	if recv != nil {
		env["recv"] = *recv
		if sig.Recv() != nil && sig.Recv().Name() != "" && sig.Recv().Name() != "_" {
			env[sig.Recv().Name()] = *recv
		}
	}
	pn := paramNames(ct, sig)
	for i, a := range args {
		if i < len(pn) {
			env[pn[i]] = a
		}
	}
	// closures: bind free variables by name for the callee's contract
	if mc, ok := c.Value.(*ssa.MakeClosure); ok {
		for i, fv := range callee.FreeVars {
			env[fv.Name()] = g.val(mc.Bindings[i])
		}
	}
	pre := g.st.clone()

	// objects allocated here whose type carries an invariant are published by passing them to a
	// call: the invariant must hold now, and the callee maintains it from then on
	var published []Val
	{
		r := g.root()
		cands := append([]Val{}, args...)
		if recv != nil {
			cands = append(cands, *recv)
		}
		for _, a := range cands {
			tn := typeInvName(a.Go)
			if tn == "" {
				continue
			}
			for _, oa := range r.ownAllocs[tn] {
				if oa.term == a.T {
					g.obligeTypeInv("typeinv", site+"/publish:"+tn, guard, a, g.st, "invariant of "+tn+" holds when the new object is handed to a callee", ci.Pos())
					published = append(published, a)
				}
			}
		}
	}

	// an object allocated here whose fields the callee may write has become reachable by the callee
	// (it was stored into something the callee can see): its invariant must hold now and the
	// callee maintains it
	var reachPublished []dirtyObj
	{
		r := g.root()
		mods := g.E.callMods(ci, true)
		for _, tn := range sortedTypeNames(r.ownAllocs, r.dirty) {
			t := lookupNamedType(g.P, tn)
			if t == nil {
				continue
			}
			touched := false
			prefix := "F:" + tn + "."
			for k := range mods {
				if strings.HasPrefix(k, prefix) || k == "*" {
					touched = true
				}
			}
			// an invariant that speaks about the contents of a map held in a field also depends
			// on that map type's arrays
			for _, k := range g.typeInvMapKeys(tn, t) {
				if mods[k] {
					touched = true
				}
			}
			if !touched {
				continue
			}
			for n, oa := range r.ownAllocs[tn] {
				isDirect := false
				for _, p := range published {
					if p.T == oa.term {
						isDirect = true
					}
				}
				if isDirect {
					continue
				}
				ov := Val{T: oa.term, S: sortRef, Go: types.NewPointer(t)}
				g.obligeTypeInv("typeinv", fmt.Sprintf("%s/reachable:%s#%d", site, tn, n+1), and(guard, oa.guard), ov, g.st, "invariant of "+tn+" holds when a callee that may write such objects is called", ci.Pos())
				reachPublished = append(reachPublished, dirtyObj{ov, oa.guard})
			}
			for n, d := range r.dirty[tn] {
				g.obligeTypeInv("typeinv", fmt.Sprintf("%s/reachable-written:%s#%d", site, tn, n+1), and(guard, d.guard, not("(= "+d.v.T+" nil)")), d.v, g.st, "invariant of "+tn+" is re-established before a callee that may write such objects is called", ci.Pos())
				reachPublished = append(reachPublished, dirtyObj{d.v, and(d.guard, not("(= "+d.v.T+" nil)"))})
			}
		}
	}

	// at-call assertions from the caller's contract
	if g.C != nil && g.parent == nil {
		for _, cs := range g.C.Calls {
			if (cs.Callee == name || (name == "" && cs.Callee == "dynamic")) && (cs.K == 0 || cs.K == g.callOrd[ci]) {
				for i, a := range cs.Assert {
					ctx := &EvalCtx{g: g, env: g.mergeEnv(env), st: g.st, oldSt: g.entrySt, oldEnv: g.env, guard: guard}
					if cs.K != 0 {
						g.obligeClause("assert", site+"/"+clauseLabel(a, i), guard, a, ctx, ci.Pos())
						continue
					}
					// "#0" = every call site of this callee where the clause's identifiers are in
					// scope (like at-return assertions); it must apply to at least one (checked by the
					// drift rule through siteApplied)
					func() {
						nItems, nObs := len(g.items), len(g.obs)
						defer func() {
							if e := recover(); e != nil {
								if _, isEval := e.(evalError); isEval {
									g.items, g.obs = g.items[:nItems], g.obs[:nObs]
									return
								}
								panic(e)
							}
						}()
						g.obligeClause("assert", site+"/"+clauseLabel(a, i), guard, a, ctx, ci.Pos())
						if g.siteApplied == nil {
							g.siteApplied = map[string]int{}
						}
						g.siteApplied[cs.Callee+"/"+clauseLabel(a, i)]++
					}()
				}
			}
		}
	}

	if ct != nil {
		if ct.Extern {
			g.usedExtern[name] = true
		}
		kind := "requires"
		if ct.Extern {
			kind = "extern-requires"
		}
		for i, r := range ct.Requires {
			ctx := &EvalCtx{g: g, callee: true, env: env, st: g.st, oldSt: g.st, oldEnv: env, guard: guard}
			g.obligeClause(kind, site+"/"+clauseLabel(r, i), guard, r, ctx, ci.Pos())
		}
		// termination of recursion
		if callee != nil && callee == g.fn && ct.Decreases != nil && g.entryVals != nil {
			ctx := &EvalCtx{g: g, callee: true, env: env, st: g.st, oldSt: g.st, oldEnv: env, guard: guard}
			m := to64(g.eval(ct.Decreases.E, ctx))
			e := g.entryVals["decreases"]
			g.oblige("decreases", site, guard, and(fmt.Sprintf("(bvslt %s %s)", m, e), fmt.Sprintf("(bvsle (_ bv0 64) %s)", e)), ct.Decreases.Src, ci.Pos())
		}
		if ct.NoReturn {
			g.curGuard = g.def("R_dead", sortBool, "false")
			g.blockGuard[g.curBlock] = g.curGuard
			guard = g.curGuard
		}
	} else if callee != nil && g.P.Funcs[name] != nil {
		// in-repo callee without contract: verified on its own with no precondition
		g.assumptions["in-repo callee without contract (havoc of its computed write set, fresh results): "+name] = true
	} else {
		g.defaultPure[name] = true
	}

	// result values are created first (they may be named by the callee's assigns clause), the frame
	// is havoced next, and only then are the results marked live and the ensures assumed.
	var rs []Val
	nres := sig.Results().Len()
	for i := 0; i < nres; i++ {
		rt := sig.Results().At(i).Type()
		var rv Val
		if ct != nil && ct.Pure {
			rv = g.pureResultMem(ct, env, name, i, rt, recv, args)
		} else if ct != nil && ct.Fresh && i == 0 && g.D.sortOf(rt) == sortRef {
			rv = Val{T: g.allocRef("res_"+sanitize(name), guard), S: sortRef, Go: rt}
		} else {
			rv = g.mkVal(g.freshConst(fmt.Sprintf("r%d_%s", i, sanitize(name)), g.D.sortOf(rt)), rt)
		}
		g.assume("true", g.wfFacts(rv), "type")
		rs = append(rs, rv)
	}
	if ct != nil {
		resultEnv(env, sig, rs)
	}
	// frame
	if ct != nil && ct.HasAssign {
		for _, a := range ct.Assigns {
			g.havocAssign(a, env, sig, ct, ci)
		}
	} else {
		whole, byArg := g.E.callEffects(ci, true)
		for _, k := range sortedKeys(whole) {
			g.checkCalleeKey(ci, k)
			g.havocKey(k)
		}
		// variables of this function captured by a closure that the call may run
		for _, k := range sortedKeys(g.E.localClosureFVKeys(ci)) {
			if !whole[k] {
				g.havocKey(k)
			}
		}
		// struct fields the callee writes on the object one of its arguments points to are
		// havoced at that object only
		var ais []int
		for ai := range byArg {
			ais = append(ais, ai)
		}
		sort.Ints(ais)
		for _, ai := range ais {
			if ai >= len(c.Args) {
				for k := range byArg[ai] {
					g.havocKey(k)
				}
				continue
			}
			av := g.val(c.Args[ai])
			for _, k := range sortedKeys(byArg[ai]) {
				if whole[k] {
					continue
				}
				g.ensureKey(k)
				srt, ok := g.D.heapSorts[k]
				if !ok || av.S != sortRef {
					g.havocKey(k)
					continue
				}
				g.checkAssign(ci, &Place{Key: k, Base: av.T}, ci.Pos())
				es := strings.TrimSuffix(strings.TrimPrefix(srt, "(Array Ref "), ")")
				nv := g.freshConst("hv_arg", es)
				g.st[k] = g.def("h", srt, store(g.D.get(g.st, k), av.T, nv))
			}
		}
	}
	// values captured by reference may have been changed by a callee that holds the closure
	// (handled by the computed write sets, which include cell keys).

	for _, rv := range rs {
		g.markLive(rv)
		g.assumeTypeInv(rv, guard)
	}
	if v != nil {
		switch nres {
		case 0:
		case 1:
			x := rs[0]
			x.Go = v.Type()
			g.vals[v] = x
		default:
			g.tuples[v] = rs
		}
	}
	for _, a := range published {
		g.assumeTypeInvAt(guard, a, g.st, "typeinv-after-publish")
	}
	for _, a := range reachPublished {
		g.assumeTypeInvAt(and(guard, a.guard), a.v, g.st, "typeinv-after-publish")
	}
	// Parameters whose type carries an invariant: a callee that may write that type's invariant
	// fields re-establishes the invariant of every object it writes before it returns (that is
	// its own obligation), so the invariant of the pre-existing objects this function received
	// holds again after the call -- unless this function itself has written them and not yet
	// repaired them (those are the dirty objects, handled above).
	if g.parent == nil {
		mods := g.E.callMods(ci, true)
		r := g.root()
		for _, p := range g.fn.Params {
			pv := g.vals[p]
			tn := typeInvName(pv.Go)
			if tn == "" || len(g.S.TypeInvs[tn]) == 0 {
				continue
			}
			t := lookupNamedType(g.P, tn)
			if t == nil {
				continue
			}
			touched := false
			prefix := "F:" + tn + "."
			for k := range mods {
				if strings.HasPrefix(k, prefix) || k == "*" {
					touched = true
				}
			}
			for _, k := range g.typeInvMapKeys(tn, t) {
				if mods[k] {
					touched = true
				}
			}
			isDirty := false
			for _, d := range r.dirty[tn] {
				if d.v.T == pv.T {
					isDirty = true
				}
			}
			if touched && !isDirty {
				g.assumeTypeInvAt(and(guard, not("(= "+pv.T+" nil)")), pv, g.st, "typeinv-after-call")
			}
		}
	}
	if ct != nil {
		eg := guard
		if len(ct.Domain) > 0 {
			// the callee's functional postconditions hold on its domain only
			var parts []string
			for _, d := range ct.Domain {
				ctx := &EvalCtx{g: g, callee: true, env: env, st: pre, oldSt: pre, oldEnv: env, guard: guard}
				parts = append(parts, g.evalBool(d.E, ctx))
			}
			eg = and(guard, g.def("Wcallee", sortBool, and(parts...)))
		}
		for i, e := range ct.Ensures {
			ctx := &EvalCtx{g: g, callee: true, env: env, st: g.st, oldSt: pre, oldEnv: env, guard: guard}
			g.assumeClause(eg, e.E, ctx, fmt.Sprintf("ensures:%s:%s", name, clauseLabel(e, i)))
		}
	}
	g.lockHook(ci, name, guard)
}

// Monitor reasoning for the mutex of a shared node type (C17). The fields declared "guarded" are
// only touched under the owner's mutex (shared-write obligations), so between two holds other
// goroutines may have changed them in any way their own critical sections allow. Acquiring the
// mutex therefore forgets what this function knew about the guarded fields (and about the
// contents of a map held in one) and assumes the lock invariant ("lockinv T") together with the
// rely relation ("rely T", from the state before the acquire). Releasing it obliges the lock
// invariant and the same relation as a guarantee, from the state right after the acquire: what
// this critical section did is something every other holder tolerates.
func (g *FnGen) lockHook(ci ssa.CallInstruction, name, guard string) {
	acquire := name == "(*sync.Mutex).Lock" || name == "(*sync.RWMutex).Lock" || name == "(*sync.RWMutex).RLock"
	release := name == "(*sync.Mutex).Unlock" || name == "(*sync.RWMutex).Unlock"
	if !acquire && !release {
		return
	}
	c := ci.Common()
	if len(c.Args) == 0 {
		return
	}
	fa, ok := c.Args[0].(*ssa.FieldAddr)
	if !ok {
		return
	}
	st, sT := derefStruct(fa.X.Type())
	if st == nil {
		return
	}
	tn := typeName(st)
	if len(g.S.LockInvs[tn]) == 0 && len(g.S.Relies[tn]) == 0 {
		return
	}
	owner := g.val(fa.X)
	r := g.root()
	if r.acquired == nil {
		r.acquired = map[string]State{}
		r.acquiredType = map[string]string{}
	}
	site := g.siteNames[ci]
	if acquire {
		pre := g.st.clone()
		for i := 0; i < sT.NumFields(); i++ {
			k, _ := g.D.fieldKey(st, i)
			if !g.S.Guarded[k] {
				continue
			}
			g.ensureKey(k)
			ft := sT.Field(i).Type()
			if mt, ok := ft.Underlying().(*types.Map); ok {
				// the map object stays, its contents are whatever the other holders left
				m := sel(g.D.get(g.st, k), owner.T)
				h, vk, l := g.D.mapKeysT(mt.Key(), mt.Elem())
				for _, mk := range []string{h, vk, l} {
					g.ensureKey(mk)
					srt := g.D.heapSorts[mk]
					es := strings.TrimSuffix(strings.TrimPrefix(srt, "(Array Ref "), ")")
					g.st[mk] = g.def("hlock", srt, store(g.D.get(g.st, mk), m, g.freshConst("hv_lock", es)))
				}
				continue
			}
			srt := g.D.heapSorts[k]
			es := strings.TrimSuffix(strings.TrimPrefix(srt, "(Array Ref "), ")")
			g.st[k] = g.def("hlock", srt, store(g.D.get(g.st, k), owner.T, g.freshConst("hv_lock", es)))
		}
		for _, cl := range g.S.LockInvs[tn] {
			ctx := &EvalCtx{g: g, env: map[string]Val{"self": owner}, st: g.st, oldSt: g.st}
			g.assumeClause(guard, cl.E, ctx, "lockinv:"+tn)
		}
		for _, cl := range g.S.Relies[tn] {
			ctx := &EvalCtx{g: g, env: map[string]Val{"self": owner}, st: g.st, oldSt: pre, oldEnv: map[string]Val{"self": owner}}
			g.assumeClause(guard, cl.E, ctx, "rely:"+tn)
		}
		r.acquired[owner.T] = g.st.clone()
		r.acquiredType[owner.T] = tn
		return
	}
	if _, ok := r.acquired[owner.T]; !ok {
		// The released monitor is written differently from the acquired one (the owner pointer was
		// loaded again, e.g. itr.nd.mu.Lock() ... itr.nd.mu.Unlock()). If exactly one monitor of
		// this type is held, the release is of that one provided both expressions denote the same
		// object: that is an obligation, and the critical section is then judged as usual.
		var held []string
		for o, t := range r.acquiredType {
			if t == tn {
				if _, still := r.acquired[o]; still {
					held = append(held, o)
				}
			}
		}
		if len(held) == 1 {
			g.oblige("lockinv", site+"/"+tn+":released-monitor-is-the-acquired-one", guard, "(= "+owner.T+" "+held[0]+")", "the mutex released here belongs to the object whose mutex was acquired", ci.Pos())
			r.acquired[owner.T] = r.acquired[held[0]]
			delete(r.acquired, held[0])
		}
	}
	for i, cl := range g.S.LockInvs[tn] {
		ctx := &EvalCtx{g: g, env: map[string]Val{"self": owner}, st: g.st, oldSt: g.st}
		c2 := cl
		if c2.Name == "" {
			c2.Name = fmt.Sprint(i)
		}
		g.obligeClause("lockinv", site+"/"+tn+":"+c2.Name, guard, c2, ctx, ci.Pos())
	}
	if acq, ok := r.acquired[owner.T]; ok {
		for i, cl := range g.S.Relies[tn] {
			ctx := &EvalCtx{g: g, env: map[string]Val{"self": owner}, st: g.st, oldSt: acq, oldEnv: map[string]Val{"self": owner}}
			c2 := cl
			if c2.Name == "" {
				c2.Name = fmt.Sprint(i)
			}
			g.obligeClause("lockinv", site+"/"+tn+":guarantee:"+c2.Name, guard, c2, ctx, ci.Pos())
		}
		delete(r.acquired, owner.T)
	} else if len(g.S.Relies[tn]) > 0 {
		panic(unsupported{"Unlock of a monitor whose Lock is not in the same function"})
	}
}

func (g *FnGen) mergeEnv(callEnv map[string]Val) map[string]Val {
	out := map[string]Val{}
	for k, v := range callEnv {
		out["callee_"+k] = v
	}
	for k, v := range g.env {
		out[k] = v
	}
	for k, v := range g.localsNow() {
		out[k] = v // a local shadows a parameter of the same name: it is the current value
	}
	for k, v := range g.ghostLocals {
		out[k] = v
	}
	// header phis of enclosing loops and named registers
	for sv, v := range g.vals {
		if phi, ok := sv.(*ssa.Phi); ok && phi.Comment != "" {
			if _, clash := out[phi.Comment]; !clash {
				out[phi.Comment] = v
			}
		}
	}
	return out
}

func (g *FnGen) pureResult(name string, i int, rt types.Type, recv *Val, args []Val) Val {
	var as, ts []string
	if recv != nil {
		as = append(as, recv.S)
		ts = append(ts, recv.T)
	}
	for _, a := range args {
		as = append(as, a.S)
		ts = append(ts, a.T)
	}
	fn := fmt.Sprintf("pf_%s_%d", sanitize(name), i)
	rs := g.D.sortOf(rt)
	g.D.declare("pure:"+fn, fmt.Sprintf("(declare-fun %s (%s) %s)", fn, strings.Join(as, " "), rs))
	t := fn
	if len(ts) > 0 {
		t = fmt.Sprintf("(%s %s)", fn, strings.Join(ts, " "))
	}
	return g.mkVal(g.def("r_"+sanitize(name), rs, t), rt)
}

// havocAssign havocs one place of a callee's assigns clause.
func (g *FnGen) havocAssign(a string, env map[string]Val, sig *types.Signature, ct *Contract, ci ssa.CallInstruction) {
	a = strings.TrimSpace(a)
	if strings.HasPrefix(a, "fields(") && strings.HasSuffix(a, ")") {
		// ownership frame: the callee may write the fields of this one object (and of objects the
		// caller cannot observe); every struct-field key the call could write is havoced at that
		// index only, everything else it could write is havoced wholesale.
		e, err := ParseExpr(a[7 : len(a)-1])
		if err != nil {
			efail("bad assigns %q", a)
		}
		ctx := &EvalCtx{g: g, callee: true, env: env, st: g.st, oldSt: g.st, oldEnv: env}
		obj := g.eval(e, ctx)
		saved := g.S.Contracts[ct.Func]
		delete(g.S.Contracts, ct.Func)
		mods := g.E.callMods(ci, true)
		g.S.Contracts[ct.Func] = saved
		for _, k := range sortedKeys(mods) {
			if strings.HasPrefix(k, "F:") {
				if srt, ok := g.D.heapSorts[k]; ok {
					es := strings.TrimSuffix(strings.TrimPrefix(srt, "(Array Ref "), ")")
					nv := g.freshConst("hv_own", es)
					g.st[k] = g.def("h", srt, store(g.D.get(g.st, k), obj.T, nv))
				}
				continue
			}
			g.checkCalleeKey(ci, k)
			g.havocKey(k)
		}
		return
	}
	if i := strings.LastIndex(a, "."); i > 0 && !strings.Contains(a, "(") && !strings.HasPrefix(a, "key:") {
		if e, err := ParseExpr(a[:i]); err == nil {
			if hasKey(env, rootIdent(e)) {
				ctx := &EvalCtx{g: g, callee: true, env: env, st: g.st, oldSt: g.st, oldEnv: env}
				base := g.eval(e, ctx)
				_, idx := lookupFieldByName(base.Go, a[i+1:])
				if idx != nil {
					cur := base
					for n, fi := range idx {
						if n == len(idx)-1 {
							if stT, s := derefStruct(cur.Go); stT != nil {
								k, fs := g.D.fieldKey(stT, fi)
								g.checkAssign(ci, &Place{Key: k, Base: cur.T}, ci.Pos())
								nv := g.freshVal("hv_"+s.Field(fi).Name(), s.Field(fi).Type(), g.curGuard)
								_ = fs
								g.st[k] = g.def("h", g.D.heapSorts[k], store(g.D.get(g.st, k), cur.T, nv.T))
								return
							}
						}
						cur = g.selectFieldIdx(cur, fi, g.st)
					}
				}
			}
		}
	}
	if i := strings.Index(a, "("); i > 0 && strings.HasSuffix(a, ")") {
		if gf, ok := g.S.GhostFields[a[:i]]; ok {
			if e, err := ParseExpr(a[i+1 : len(a)-1]); err == nil && hasKey(env, rootIdent(e)) {
				key := g.ensureGhostField(a[:i])
				g.checkCalleeGhost(ci, key)
				ctx := &EvalCtx{g: g, callee: true, env: env, st: g.st, oldSt: g.st, oldEnv: env}
				arg := g.eval(e, ctx)
				rs, _, _ := ctypeByName(g.D, g.P, gf.ResType)
				nv := g.freshConst("hv_"+a[:i], rs)
				g.st[key] = g.def("h", g.D.heapSorts[key], store(g.D.get(g.st, key), arg.T, nv))
				return
			}
		}
	}
	if strings.HasPrefix(a, "mem(") {
		n := strings.TrimSuffix(strings.TrimPrefix(a, "mem("), ")")
		if v, ok := env[n]; ok && v.S == sortSlice {
			et := v.Go.Underlying().(*types.Slice).Elem()
			k := g.D.memKeyT(et)
			g.checkAssign(ci, &Place{Key: k, Base: "(s_base " + v.T + ")"}, ci.Pos())
			arr := g.freshConst("hvmem", fmt.Sprintf("(Array (_ BitVec 64) %s)", g.D.sortOf(et)))
			g.st[k] = g.def("h", g.D.heapSorts[k], store(g.D.get(g.st, k), "(s_base "+v.T+")", arr))
			return
		}
	}
	one := *ct
	one.Assigns = []string{a}
	for _, k := range resolveAssignKeys(g.D, g.P, g.S, &one, sig) {
		if strings.HasPrefix(k, "G:") {
			g.ensureGhostField(k[2:])
		}
		if strings.HasPrefix(k, "GV:") {
			g.ensureGhostVar(k[3:])
		}
		g.checkCalleeKey(ci, k)
		g.havocKey(k)
	}
}

func hasKey(m map[string]Val, k string) bool { _, ok := m[k]; return ok }

// ---------------------------------------------------------------------------------------
// Builtins

func (g *FnGen) doBuiltin(ci ssa.CallInstruction, v ssa.Value, b *ssa.Builtin) {
	c := ci.Common()
	guard := g.curGuard
	switch b.Name() {
	case "len", "cap":
		a := g.val(c.Args[0])
		var t string
		switch u := c.Args[0].Type().Underlying().(type) {
		case *types.Slice:
			t = fmt.Sprintf("(s_%s %s)", b.Name(), a.T)
		case *types.Basic:
			t = "(slen " + a.T + ")"
		case *types.Map:
			_, _, l := g.D.mapKeysT(u.Key(), u.Elem())
			t = ite("(= "+a.T+" nil)", bvInt(0, 64), sel(g.D.get(g.st, l), a.T))
		case *types.Array:
			t = bvInt(u.Len(), 64)
		case *types.Pointer:
			t = bvInt(u.Elem().Underlying().(*types.Array).Len(), 64)
		default:
			panic(unsupported{"len of " + c.Args[0].Type().String()})
		}
		r := g.defVal(v, t)
		if _, isMap := c.Args[0].Type().Underlying().(*types.Map); isMap {
			g.assume("true", fmt.Sprintf("(bvsle (_ bv0 64) %s)", r.T), "maplen")
		}
	case "append":
		g.doAppend(ci, v)
	case "copy":
		g.doCopy(ci, v)
	case "delete":
		m := g.val(c.Args[0])
		k := g.val(c.Args[1])
		mt := c.Args[0].Type().Underlying().(*types.Map)
		h, _, l := g.D.mapKeysT(mt.Key(), mt.Elem())
		hasArr := g.D.get(g.st, h)
		had := sel(sel(hasArr, m.T), k.T)
		lenArr := g.D.get(g.st, l)
		g.st[l] = g.def("h", g.D.heapSorts[l], store(lenArr, m.T, ite(had, fmt.Sprintf("(bvsub %s (_ bv1 64))", sel(lenArr, m.T)), sel(lenArr, m.T))))
		g.st[h] = g.def("h", g.D.heapSorts[h], store(hasArr, m.T, store(sel(hasArr, m.T), k.T, "false")))
	case "print", "println":
	case "recover":
		g.vals[v] = Val{T: "nil", S: sortRef, Go: v.Type()}
	case "min", "max":
		a := g.val(c.Args[0])
		t := a.T
		for _, x := range c.Args[1:] {
			bv := g.val(x)
			op := "bvult"
			if a.Signed {
				op = "bvslt"
			}
			if b.Name() == "min" {
				t = ite(fmt.Sprintf("(%s %s %s)", op, bv.T, t), bv.T, t)
			} else {
				t = ite(fmt.Sprintf("(%s %s %s)", op, t, bv.T), bv.T, t)
			}
		}
		g.defVal(v, t)
	default:
		panic(unsupported{"builtin " + b.Name()})
	}
	_ = guard
}

func (g *FnGen) doAppend(ci ssa.CallInstruction, v ssa.Value) {
	c := ci.Common()
	s := g.val(c.Args[0])
	et := c.Args[0].Type().Underlying().(*types.Slice).Elem()
	k := g.D.memKeyT(et)
	es := g.D.sortOf(et)
	arrSort := fmt.Sprintf("(Array (_ BitVec 64) %s)", es)
	guard := g.curGuard
	r := g.allocRef(v.Name(), guard)
	mem := g.D.get(g.st, k)
	srcArr := sel(mem, "(s_base "+s.T+")")

	// single-element append: new [1]T; store; slice; append
	if sl, ok := c.Args[1].(*ssa.Slice); ok {
		if al, ok := sl.X.(*ssa.Alloc); ok {
			if at, ok := al.Type().(*types.Pointer).Elem().Underlying().(*types.Array); ok && at.Len() == 1 && sl.Low == nil && sl.High == nil {
				av := g.val(al)
				elem := sel(sel(mem, av.T), bvInt(0, 64))
				newLen := fmt.Sprintf("(bvadd (s_len %s) (_ bv1 64))", s.T)
				cp := g.freshConst("cap", sortBV64)
				g.assume("true", and(fmt.Sprintf("(bvsle %s %s)", newLen, cp), fmt.Sprintf("(bvsle %s (_ bv%d 64))", cp, int64(1)<<56)), "append-cap")
				narr := store(srcArr, fmt.Sprintf("(bvadd (s_off %s) (s_len %s))", s.T, s.T), elem)
				g.st[k] = g.def("h", g.D.heapSorts[k], store(mem, r, narr))
				g.defVal(v, fmt.Sprintf("(mk_slice %s (s_off %s) %s %s)", r, s.T, newLen, cp))
				g.assumptions["append is modelled as always copying to a fresh backing array"] = true
				return
			}
		}
	}
	// general case
	t := g.val(c.Args[1])
	var tlen string
	var tget func(j string) string
	if t.S == sortStr {
		tlen = "(slen " + t.T + ")"
		tget = func(j string) string { return fmt.Sprintf("(sat %s %s)", t.T, j) }
	} else {
		tlen = "(s_len " + t.T + ")"
		tarr := sel(mem, "(s_base "+t.T+")")
		tget = func(j string) string { return sel(tarr, fmt.Sprintf("(bvadd (s_off %s) %s)", t.T, j)) }
	}
	newLen := g.def("applen", sortBV64, fmt.Sprintf("(bvadd (s_len %s) %s)", s.T, tlen))
	cp := g.freshConst("cap", sortBV64)
	g.assume("true", and(fmt.Sprintf("(bvsle %s %s)", newLen, cp), fmt.Sprintf("(bvsle %s (_ bv%d 64))", cp, int64(1)<<56)), "append-cap")
	narr := g.freshConst("apparr", arrSort)
	q := g.D.fresh("qi")
	g.assume(guard, fmt.Sprintf("(forall ((%s (_ BitVec 64))) (! (=> (and (bvsle (_ bv0 64) %s) (bvslt %s (s_len %s))) (= (select %s %s) (select %s (bvadd (s_off %s) %s)))) :pattern ((select %s %s))))",
		q, q, q, s.T, narr, q, srcArr, s.T, q, narr, q), "append-prefix")
	g.assume(guard, fmt.Sprintf("(forall ((%s (_ BitVec 64))) (! (=> (and (bvsle (_ bv0 64) %s) (bvslt %s %s)) (= (select %s (bvadd (s_len %s) %s)) %s)) :pattern ((select %s (bvadd (s_len %s) %s)))))",
		q, q, q, tlen, narr, s.T, q, tget(q), narr, s.T, q), "append-suffix")
	g.st[k] = g.def("h", g.D.heapSorts[k], store(mem, r, narr))
	g.defVal(v, fmt.Sprintf("(mk_slice %s (_ bv0 64) %s %s)", r, newLen, cp))
	g.assumptions["append is modelled as always copying to a fresh backing array"] = true
}

func (g *FnGen) doCopy(ci ssa.CallInstruction, v ssa.Value) {
	c := ci.Common()
	d := g.val(c.Args[0])
	s := g.val(c.Args[1])
	et := c.Args[0].Type().Underlying().(*types.Slice).Elem()
	k := g.D.memKeyT(et)
	arrSort := fmt.Sprintf("(Array (_ BitVec 64) %s)", g.D.sortOf(et))
	mem := g.D.get(g.st, k)
	guard := g.curGuard
	var slenT string
	var sget func(j string) string
	if s.S == sortStr {
		slenT = "(slen " + s.T + ")"
		sget = func(j string) string { return fmt.Sprintf("(sat %s %s)", s.T, j) }
	} else {
		slenT = "(s_len " + s.T + ")"
		sarr := sel(mem, "(s_base "+s.T+")")
		sget = func(j string) string { return sel(sarr, fmt.Sprintf("(bvadd (s_off %s) %s)", s.T, j)) }
	}
	n := g.def("copyn", sortBV64, ite(fmt.Sprintf("(bvslt (s_len %s) %s)", d.T, slenT), "(s_len "+d.T+")", slenT))
	if v != nil {
		g.vals[v] = Val{T: n, S: sortBV64, Go: types.Typ[types.Int], Signed: true}
	}
	// the frame of copy: only dst's backing array changes
	if ci2, ok := ci.(ssa.Instruction); ok {
		p := &Place{Key: k, Base: "(s_base " + d.T + ")"}
		_ = ci2
		_ = p
	}
	old := sel(mem, "(s_base "+d.T+")")
	narr := g.freshConst("copyarr", arrSort)
	q := g.D.fresh("qi")
	g.assume(guard, fmt.Sprintf("(forall ((%s (_ BitVec 64))) (! (=> (and (bvsle (_ bv0 64) %s) (bvslt %s %s)) (= (select %s (bvadd (s_off %s) %s)) %s)) :pattern ((select %s (bvadd (s_off %s) %s)))))",
		q, q, q, n, narr, d.T, q, sget(q), narr, d.T, q), "copy-range")
	g.assume(guard, fmt.Sprintf("(forall ((%s (_ BitVec 64))) (! (=> (or (bvslt %s (s_off %s)) (bvsge %s (bvadd (s_off %s) %s))) (= (select %s %s) (select %s %s))) :pattern ((select %s %s))))",
		q, q, d.T, q, d.T, n, narr, q, old, q, narr, q), "copy-frame")
	g.st[k] = g.def("h", g.D.heapSorts[k], store(mem, "(s_base "+d.T+")", narr))
}

// ---------------------------------------------------------------------------------------
// Globals

var externNonNilGlobals = map[string]bool{
	"io.EOF": true, "io.ErrUnexpectedEOF": true, "io.ErrShortWrite": true,
}

type globalInfo struct {
	nonNil bool
}

var globalCache = map[*ssa.Global]*globalInfo{}

// globalFacts assumes what is known about a package-level variable that was just read.
func (g *FnGen) globalFacts(gl *ssa.Global, r Val) {
	name := shortName(gl.String())
	if r.S != sortRef {
		return
	}
	if externNonNilGlobals[name] {
		g.assume("true", not("(= "+r.T+" nil)"), "extern-global-non-nil:"+name)
		g.assumptions["external error sentinel "+name+" is non-nil"] = true
		return
	}
	info, ok := globalCache[gl]
	if !ok {
		info = &globalInfo{}
		globalCache[gl] = info
		if gl.Pkg != nil && inRepoPkg(gl.Pkg.Pkg) {
			info.nonNil = g.globalInitNonNilAndImmutable(gl)
		}
	}
	if info.nonNil {
		g.assume("true", not("(= "+r.T+" nil)"), "global-non-nil:"+name)
	}
}

// A package-level variable is known non-nil when its only store in the whole repository is in the
// package initializer and stores the result of a constructor call / composite literal.
func (g *FnGen) globalInitNonNilAndImmutable(gl *ssa.Global) bool {
	okInit := false
	for _, sp := range g.P.Pkgs {
		for _, m := range sp.Members {
			fn, ok := m.(*ssa.Function)
			if !ok {
				continue
			}
			fns := []*ssa.Function{fn}
			fns = append(fns, fn.AnonFuncs...)
			for _, f := range fns {
				for _, b := range f.Blocks {
					for _, ins := range b.Instrs {
						st, ok := ins.(*ssa.Store)
						if !ok || st.Addr != gl {
							continue
						}
						if f.Name() != "init" || f.Pkg != gl.Pkg {
							return false
						}
						switch v := st.Val.(type) {
						case *ssa.MakeInterface:
							okInit = true
						case *ssa.Call:
							n := calleeName(v.Common())
							if n == "errors.New" || n == "fmt.Errorf" {
								okInit = true
							} else {
								return false
							}
						case *ssa.MakeMap, *ssa.Alloc, *ssa.MakeClosure:
							okInit = true
						default:
							_ = v
							return false
						}
					}
				}
			}
		}
		// methods
	}
	for _, f := range g.P.AllFuncs {
		if f.Name() == "init" {
			continue
		}
		for _, b := range f.Blocks {
			for _, ins := range b.Instrs {
				if st, ok := ins.(*ssa.Store); ok && st.Addr == gl {
					return false
				}
			}
		}
	}
	return okInit
}

func (g *FnGen) assumeGlobals(guard string) {
	if guard != "true" {
		return
	}
	for i, ax := range g.S.Axioms {
		ctx := &EvalCtx{g: g, env: map[string]Val{}, st: g.st, oldSt: g.st}
		g.assumeClause("true", ax.E, ctx, fmt.Sprintf("axiom:%d", i))
	}
	for _, f := range g.S.Facts {
		c := EvalCtx{g: g, env: map[string]Val{}, st: State{}, oldSt: State{}}
		g.root().qfacts = append(g.root().qfacts, QFact{e: f.E, ctx: c, guard: "true"})
	}
}

// ---------------------------------------------------------------------------------------
// Function exit: postconditions

func (g *FnGen) finish() {
	if g.C != nil && len(g.C.ReturnGhost) > 0 {
		sig := g.fn.Signature
		for k := range g.rets {
			r := &g.rets[k]
			env := map[string]Val{}
			for n, v := range g.env {
				env[n] = v
			}
			var rs []Val
			for i := range r.results {
				rv := r.results[i]
				rv.Go = sig.Results().At(i).Type()
				rs = append(rs, rv)
			}
			resultEnv(env, sig, rs)
			for _, gu := range g.C.ReturnGhost {
				key := g.ensureGhostField(gu.Field)
				ctx := &EvalCtx{g: g, env: env, st: r.st, oldSt: g.entrySt, oldEnv: g.env, guard: r.guard}
				arg := g.eval(gu.Arg, ctx)
				val := g.eval(gu.Val, ctx)
				r.st[key] = g.def("gh", g.D.heapSorts[key], store(g.D.get(r.st, key), arg.T, val.T))
			}
		}
	}
	for k, r := range g.rets {
		g.st = r.st
		g.checkTypeInvsAtReturn(k, r)
	}
	if g.C != nil && g.parent == nil {
		for _, cs := range g.C.Calls {
			if cs.K != 0 || cs.Callee == "mapupdate" {
				continue
			}
			for i, a := range cs.Assert {
				if g.siteApplied[cs.Callee+"/"+clauseLabel(a, i)] == 0 {
					efail("at-call assertion %q on every site of %s is in scope at none of them in %s (contract drift)", clauseLabel(a, i), cs.Callee, g.name)
				}
			}
		}
	}
	if g.C != nil && (len(g.C.ReturnAsserts) > 0 || len(g.C.MustCall) > 0) {
		g.checkReturnAsserts()
	}
	if g.C != nil && len(g.C.ErrFrom) > 0 {
		// "errors-from X Y": every error this function returns was handed to it by a call of X or
		// Y (possibly passed on wrapped): it has no failure of its own and reports no other callee's.
		allowed := map[string]bool{}
		for _, n := range g.C.ErrFrom {
			allowed[n] = true
		}
		for k, r := range g.rets {
			ret, ok := r.block.Instrs[r.idx].(*ssa.Return)
			if !ok {
				continue
			}
			for i, res := range ret.Results {
				if types.TypeString(res.Type(), nil) != "error" {
					continue
				}
				for _, src := range errorSources(res, r.block, 0) {
					if !allowed[src] {
						g.oblige("assert", fmt.Sprintf("return:error-from:%s#%d@ret%d", src, i, k+1), r.guard, "false", "the contract says every error returned here comes from "+strings.Join(g.C.ErrFrom, " / ")+"; this one comes from "+src, r.pos)
					}
				}
			}
		}
	}
	if g.C != nil && g.C.Forbids["own-error-values"] {
		// "forbids own-error-values": every error this function returns is one a callee handed to
		// it -- never a package-level error value or an error value it constructs itself.
		for k, r := range g.rets {
			ret, ok := r.block.Instrs[r.idx].(*ssa.Return)
			if !ok {
				continue
			}
			for i, res := range ret.Results {
				if types.TypeString(res.Type(), nil) != "error" {
					continue
				}
				if ownErrorValue(res, r.block, 0) {
					g.oblige("assert", fmt.Sprintf("return:own-error-value#%d@ret%d", i, k+1), r.guard, "false", "the contract forbids returning an error value of the function's own (a package-level error or one constructed here): every failure it reports is a callee's", r.pos)
				}
			}
		}
	}
	g.checkInterfaceConformance()
	if g.C == nil || len(g.C.Ensures) == 0 || len(g.rets) == 0 {
		return
	}
	if g.C.AssumeEnsures {
		g.assumptions["postconditions of "+g.name+" are assumed, not proved (assume_ensures)"] = true
		return
	}
	sig := g.fn.Signature
	// one obligation per (ensures clause, return site): smaller queries, and a failing return
	// path is named. Return sites are numbered in source order.
	for k, r := range g.rets {
		env := map[string]Val{}
		for n, v := range g.env {
			env[n] = v
		}
		var rs []Val
		for i := range r.results {
			rv := r.results[i]
			rv.Go = sig.Results().At(i).Type()
			rs = append(rs, rv)
		}
		resultEnv(env, sig, rs)
		g.st = r.st
		for i, e := range g.C.Ensures {
			if g.C.AssumedClauses[e.Name] {
				g.assumptions["postcondition "+e.Name+" of "+g.name+" is a definition/assumption, not proved (assumed)"] = true
				continue
			}
			ctx := &EvalCtx{g: g, env: env, st: r.st, oldSt: g.entrySt, oldEnv: g.env, guard: r.guard}
			label := clauseLabel(e, i)
			if len(g.rets) > 1 {
				label = fmt.Sprintf("%s@ret%d", label, k+1)
			}
			g.obligeClause("ensures", label, r.guard, e, ctx, r.pos)
		}
	}
}

// ---------------------------------------------------------------------------------------
// Inlining: small loop-free callees (generated accessors, functions marked "inline") are executed
// symbolically at the call site instead of being abstracted by a contract. Their panic sites become
// obligations of the caller; nothing about them is assumed.

var autoInlinePkgs = map[string]bool{
	"github.com/ipld/go-codec-dagpb": true,
	"github.com/ipfs/go-bitfield":    true,
}

func (g *FnGen) shouldInline(f *ssa.Function, name string) bool {
	if g.depth >= 4 {
		return false
	}
	for p := g; p != nil; p = p.parent {
		if p.fn == f {
			return false
		}
	}
	if g.S.Inline[name] {
		return true
	}
	pkg := f.Pkg
	if pkg == nil && f.Object() != nil && f.Object().Pkg() != nil {
		pkg = g.P.Prog.Package(f.Object().Pkg())
	}
	if pkg == nil {
		return false
	}
	auto := autoInlinePkgs[pkg.Pkg.Path()]
	if !auto && inRepoPkg(pkg.Pkg) {
		if f.Blocks == nil {
			pkg.Build()
		}
		auto = isGeneratedFn(g.P.Prog, f)
		if !auto && g.S.Contracts[name] == nil && os.Getenv("GOVC_NO_HELPER_INLINE") == "" {
			// a hand-written helper of the repository that carries no contract (typically one a
			// refactoring has just extracted): small, loop-free and non-recursive ones are read
			// through, like generated accessors, so that extracting a helper does not hide from the
			// caller what its own code did before
			auto = true
		}
	}
	if !auto {
		return false
	}
	if f.Blocks == nil {
		pkg.Build()
	}
	if f.Blocks == nil {
		return false
	}
	n := 0
	for _, b := range f.Blocks {
		n += len(b.Instrs)
		for _, s := range b.Succs {
			if s.Dominates(b) {
				return false // loops are never inlined
			}
		}
		for _, ins := range b.Instrs {
			switch ins.(type) {
			case *ssa.MakeClosure, *ssa.Defer, *ssa.Go, *ssa.Select:
				return false
			}
		}
	}
	return n <= 60
}

func (g *FnGen) inlineCall(f *ssa.Function, site string, args []Val) ([]Val, bool) {
	if len(f.Params) != len(args) || len(f.FreeVars) > 0 {
		return nil, false
	}
	r := g.root()
	ch := &FnGen{P: g.P, S: g.S, E: g.E, D: g.D, fn: f, C: r.C, name: r.name, parent: g,
		vals: map[ssa.Value]Val{}, tuples: map[ssa.Value][]Val{},
		blockGuard: map[*ssa.BasicBlock]string{}, exitState: map[*ssa.BasicBlock]State{},
		edgeCond: map[[2]*ssa.BasicBlock]string{}, loops: map[*ssa.BasicBlock]*loopInfo{},
		env: r.env, siteNames: map[ssa.Instruction]string{}, callOrd: map[ssa.Instruction]int{},
		assumptions: r.assumptions, usedExtern: r.usedExtern, defaultPure: r.defaultPure,
		autoInvs: map[*ssa.BasicBlock][]autoInv{}, loopTypeInvObjs: map[*ssa.BasicBlock][]Val{}, sweep: g.sweep, entrySt: r.entrySt,
		labelPrefix: g.labelPrefix + site + ">", entryGuard: g.curGuard, depth: g.depth + 1, inlined: r.inlined}
	r.inlined[fnName(f)] = true
	ch.analyzeLoops()
	ch.nameSites()
	ch.st = g.st.clone()
	ch.curGuard = g.curGuard
	for i, p := range f.Params {
		v := args[i]
		v.Go = p.Type()
		ch.vals[p] = v
	}
	for _, b := range ch.rpo() {
		ch.processBlock(b)
	}
	if len(ch.rets) == 0 {
		g.curGuard = g.def("R_dead", sortBool, "false")
		g.blockGuard[g.curBlock] = g.curGuard
		var rs []Val
		for i := 0; i < f.Signature.Results().Len(); i++ {
			rt := f.Signature.Results().At(i).Type()
			rs = append(rs, g.mkVal(g.D.zeroOf(rt), rt))
		}
		return rs, true
	}
	var guards []string
	for _, rt := range ch.rets {
		guards = append(guards, rt.guard)
	}
	n := f.Signature.Results().Len()
	var rs []Val
	for i := 0; i < n; i++ {
		t := ch.rets[len(ch.rets)-1].results[i].T
		for j := len(ch.rets) - 2; j >= 0; j-- {
			t = ite(ch.rets[j].guard, ch.rets[j].results[i].T, t)
		}
		rt := f.Signature.Results().At(i).Type()
		rv := g.mkVal(g.def("inl_ret", g.D.sortOf(rt), t), rt)
		// keep the symbolic place of a returned address when every return yields either that one
		// place or the literal nil (a nil pointer is never dereferenced without an obligation)
		var alts []Val
		for _, r := range ch.rets {
			alts = append(alts, r.results[i])
		}
		rv.Place, rv.PlaceLost = mergePlaces(alts)
		rs = append(rs, rv)
	}
	keys := map[string]bool{}
	for _, rt := range ch.rets {
		for k := range rt.st {
			keys[k] = true
		}
	}
	st := State{}
	for _, k := range sortedKeys(keys) {
		t := g.D.get(ch.rets[len(ch.rets)-1].st, k)
		for j := len(ch.rets) - 2; j >= 0; j-- {
			t = ite(ch.rets[j].guard, g.D.get(ch.rets[j].st, k), t)
		}
		if strings.HasPrefix(t, "(ite") {
			t = g.def("hinl", g.D.heapSorts[k], t)
		}
		st[k] = t
	}
	g.st = st
	if len(guards) > 1 || guards[0] != g.curGuard {
		g.curGuard = g.def("R_after", sortBool, or(guards...))
		g.blockGuard[g.curBlock] = g.curGuard
	}
	return rs, true
}

// checkCalleeKey: a callee that may write a whole heap key is only permitted under a caller
// assigns clause that names the key without a base (or "*").
func (g *FnGen) checkCalleeKey(ci ssa.CallInstruction, k string) {
	r := g.root()
	if r.C == nil || !r.C.HasAssign || k == liveKey {
		return
	}
	if _, known := g.D.heapSorts[k]; !known && k != "*" {
		return
	}
	for _, a := range r.C.Assigns {
		ak, base := g.resolveAssignPlace(a)
		if ak == "*" || (ak == k && base == "") || (ak == k && strings.HasPrefix(k, "G:")) {
			return
		}
	}
	g.oblige("assigns", g.siteNames[ci]+":callee-writes:"+strings.TrimPrefix(k, "F:"), g.curGuard, "false", "callee may write "+k+", which the assigns clause does not permit", ci.Pos())
}

// markLive extends Live with a value that the program now holds.
func (g *FnGen) markLive(v Val) {
	var ref string
	switch v.S {
	case sortRef:
		ref = v.T
	case sortSlice:
		ref = "(s_base " + v.T + ")"
	default:
		return
	}
	live := g.D.get(g.st, liveKey)
	g.st[liveKey] = g.def("live", g.D.heapSorts[liveKey], store(live, ref, "true"))
}

func rootIdent(e Expr) string {
	for {
		switch x := e.(type) {
		case EIdent:
			return x.Name
		case ESel:
			e = x.X
		case EIndex:
			e = x.X
		case ETypeAssert:
			e = x.X
		default:
			return ""
		}
	}
}

// checkCalleeGhost: ghost state written by a callee must be named by the caller's assigns clause.
func (g *FnGen) checkCalleeGhost(ci ssa.CallInstruction, key string) {
	r := g.root()
	if r.C == nil || !r.C.HasAssign {
		return
	}
	for _, a := range r.C.Assigns {
		ak, _ := g.resolveAssignPlace(a)
		if ak == "*" || ak == key {
			return
		}
	}
	g.oblige("assigns", g.siteNames[ci]+":callee-writes:"+key, g.curGuard, "false", "callee writes ghost state "+key+", which the assigns clause does not permit", ci.Pos())
}

// pureResultMem: the uninterpreted function of a pure callee takes, besides the arguments, the
// backing arrays of the slices the contract says it reads.
func (g *FnGen) pureResultMem(ct *Contract, env map[string]Val, name string, i int, rt types.Type, recv *Val, args []Val) Val {
	if len(ct.PureReads) == 0 {
		return g.pureResult(name, i, rt, recv, args)
	}
	extra := append([]Val{}, args...)
	for _, pn := range ct.PureReads {
		v, ok := env[pn]
		if !ok || v.S != sortSlice {
			efail("reads mem(%s): not a slice parameter of %s", pn, name)
		}
		et := v.Go.Underlying().(*types.Slice).Elem()
		k := g.D.memKeyT(et)
		extra = append(extra, Val{T: sel(g.D.get(g.st, k), "(s_base "+v.T+")"), S: fmt.Sprintf("(Array (_ BitVec 64) %s)", g.D.sortOf(et))})
	}
	return g.pureResult(name, i, rt, recv, extra)
}

// checkReturnAsserts: "at return assert" clauses may mention source-level locals; each is checked at
// every return site where all its identifiers are in scope, and must apply to at least one.
func (g *FnGen) checkReturnAsserts() {
	sig := g.fn.Signature
	applied := map[string]int{}
	for k, r := range g.rets {
		for _, c := range g.C.MustCall {
			if t, ok := r.st[mustCallKey(c)]; ok {
				g.oblige("assert", fmt.Sprintf("return:calls:%s@ret%d", c, k+1), r.guard, t, "every normal return is preceded by a call of "+c, r.pos)
			}
		}
	}
	for k, r := range g.rets {
		env := map[string]Val{}
		for n, v := range g.env {
			env[n] = v
		}
		g.curBlock, g.curIdx = r.block, r.idx
		for n, v := range g.localsNow() {
			env[n] = v
		}
		var rs []Val
		for i := range r.results {
			rv := r.results[i]
			rv.Go = sig.Results().At(i).Type()
			rs = append(rs, rv)
		}
		// result names denote the RETURNED values here, also when a local of the same name (err,
		// or a named result variable) is in scope
		if sig.Results().Len() > 0 {
			for _, n := range []string{"err", "result"} {
				delete(env, n)
			}
		}
		for i := 0; i < sig.Results().Len(); i++ {
			delete(env, fmt.Sprintf("result%d", i))
			if nm := sig.Results().At(i).Name(); nm != "" && nm != "_" {
				delete(env, nm)
			}
		}
		resultEnv(env, sig, rs)
		g.st = r.st
		for i, c := range g.C.ReturnAsserts {
			label := clauseLabel(c, i)
			ok := func() (ok bool) {
				defer func() {
					if e := recover(); e != nil {
						if _, isEval := e.(evalError); isEval {
							ok = false
							return
						}
						panic(e)
					}
				}()
				nItems, nObs := len(g.items), len(g.obs)
				ctx := &EvalCtx{g: g, env: env, st: r.st, oldSt: g.entrySt, oldEnv: g.env, guard: r.guard}
				func() {
					defer func() {
						if e := recover(); e != nil {
							g.items, g.obs = g.items[:nItems], g.obs[:nObs]
							panic(e)
						}
					}()
					g.obligeClause("assert", fmt.Sprintf("return:%s@ret%d", label, k+1), r.guard, c, ctx, r.pos)
				}()
				return true
			}()
			if ok {
				applied[label]++
			}
		}
	}
	for i, c := range g.C.ReturnAsserts {
		if applied[clauseLabel(c, i)] == 0 {
			efail("at-return assertion %q is in scope at no return of %s (contract drift)", clauseLabel(c, i), g.name)
		}
	}
}

// mergePlaces: the place of a merged pointer value. All alternatives that are not the literal nil
// must designate the same place; otherwise the place is lost and the pointer must not be
// dereferenced (the function is then reported outside the verifier's subset).
func mergePlaces(alts []Val) (*Place, bool) {
	var p *Place
	lost := false
	for _, a := range alts {
		if a.PlaceLost {
			lost = true
		}
		if a.Place == nil {
			if a.T == "nil" {
				continue
			}
			if p != nil {
				lost = true
			}
			continue
		}
		if p == nil {
			p = a.Place
			continue
		}
		if p.Key != a.Place.Key || p.Base != a.Place.Base || p.Idx != a.Place.Idx || len(p.Path) != len(a.Place.Path) {
			lost = true
		}
	}
	if lost {
		return nil, true
	}
	// an alternative without a place that is not nil, while another has one
	for _, a := range alts {
		if a.Place == nil && a.T != "nil" && p != nil {
			return nil, true
		}
	}
	return p, false
}

// typeInvMapKeys lists the map heap keys the invariant of type tn reads (when it mentions
// maphas/mapget/len of a map-typed field).
func (g *FnGen) typeInvMapKeys(tn string, t types.Type) []string {
	mentions := false
	for _, c := range g.S.TypeInvs[tn] {
		if strings.Contains(c.Src, "maphas(") || strings.Contains(c.Src, "mapget(") || strings.Contains(c.Src, "len(") {
			mentions = true
		}
	}
	st, ok := t.Underlying().(*types.Struct)
	if !mentions || !ok {
		return nil
	}
	var out []string
	for i := 0; i < st.NumFields(); i++ {
		if mt, ok := st.Field(i).Type().Underlying().(*types.Map); ok {
			h, v, l := g.D.mapKeysT(mt.Key(), mt.Elem())
			out = append(out, h, v, l)
		}
	}
	return out
}

// Behavioural subtyping: callers of an interface method know only the interface's contract
// ("extern (pkg.I).M"). Every /repo method that implements such an interface method must
// therefore establish the interface's postconditions itself: one obligation per (interface
// ensures clause, return site), kind "subtype". The interface's parameter names are bound
// positionally to the implementation's parameters, "recv" to its receiver.
func (g *FnGen) checkInterfaceConformance() {
	if g.parent != nil || g.fn == nil || g.fn.Signature.Recv() == nil || len(g.rets) == 0 || len(g.fn.Params) == 0 {
		return
	}
	recvT := g.fn.Signature.Recv().Type()
	var keys []string
	for k := range g.S.Contracts {
		if strings.HasPrefix(k, "(") && !strings.HasPrefix(k, "(*") && strings.HasSuffix(k, ")."+g.fn.Name()) {
			keys = append(keys, k)
		}
	}
	sort.Strings(keys)
	for _, k := range keys {
		ict := g.S.Contracts[k]
		if len(ict.Ensures) == 0 {
			continue
		}
		in := k[1:strings.LastIndex(k, ").")]
		it := lookupNamedType(g.P, in)
		if it == nil {
			continue
		}
		iface, ok := it.Underlying().(*types.Interface)
		if !ok || !types.Implements(recvT, iface) {
			continue
		}
		var isig *types.Signature
		for i := 0; i < iface.NumMethods(); i++ {
			if iface.Method(i).Name() == g.fn.Name() {
				isig = iface.Method(i).Type().(*types.Signature)
			}
		}
		if isig == nil || isig.Params().Len() != len(g.fn.Params)-1 {
			continue
		}
		pn := paramNames(ict, isig)
		for ri, r := range g.rets {
			env := map[string]Val{"recv": g.val(g.fn.Params[0])}
			for i, n := range pn {
				env[n] = g.val(g.fn.Params[i+1])
			}
			oldEnv := map[string]Val{}
			for n, v := range env {
				oldEnv[n] = v
			}
			var rs []Val
			for i := range r.results {
				rv := r.results[i]
				rv.Go = isig.Results().At(i).Type()
				rs = append(rs, rv)
			}
			resultEnv(env, isig, rs)
			g.st = r.st
			for i, e := range ict.Ensures {
				ctx := &EvalCtx{g: g, env: env, st: r.st, oldSt: g.entrySt, oldEnv: oldEnv, guard: r.guard}
				label := k + ":" + clauseLabel(e, i)
				if len(g.rets) > 1 {
					label = fmt.Sprintf("%s@ret%d", label, ri+1)
				}
				g.obligeClause("subtype", label, r.guard, e, ctx, r.pos)
			}
		}
	}
}

// wrapsAnError: the call passes an error value along (fmt.Errorf("...: %w", err)): that is passing a
// failure on with more text, not making an error of the function's own, so "forbids" lets it be.
func wrapsAnError(c *ssa.CallCommon) bool {
	errT := types.Universe.Lookup("error").Type().Underlying().(*types.Interface)
	isErr := func(t types.Type) bool {
		if t == nil {
			return false
		}
		if types.TypeString(t, nil) == "error" {
			return true
		}
		return types.Implements(t, errT) || types.Implements(types.NewPointer(t), errT)
	}
	var elems func(v ssa.Value, depth int) bool
	elems = func(v ssa.Value, depth int) bool {
		if depth > 4 {
			return false
		}
		switch x := v.(type) {
		case *ssa.MakeInterface:
			return isErr(x.X.Type())
		case *ssa.ChangeInterface:
			return isErr(x.X.Type())
		case *ssa.Slice:
			return elems(x.X, depth+1)
		case *ssa.Alloc:
			// variadic backing array: look at what is stored into its elements
			for _, ref := range *x.Referrers() {
				ia, ok := ref.(*ssa.IndexAddr)
				if !ok {
					continue
				}
				for _, r2 := range *ia.Referrers() {
					if st, ok := r2.(*ssa.Store); ok && elems(st.Val, depth+1) {
						return true
					}
				}
			}
		}
		return isErr(v.Type()) && !isNilConst(v)
	}
	for _, a := range c.Args {
		if elems(a, 0) {
			return true
		}
	}
	return false
}

func isNilConst(v ssa.Value) bool {
	k, ok := v.(*ssa.Const)
	return ok && k.Value == nil
}

// ownErrorValue reports whether an error-typed value is (on some path) not a callee's: a load of
// a package-level variable, or an error value built in this function.
func ownErrorValue(v ssa.Value, blk *ssa.BasicBlock, depth int) bool {
	if depth > 6 {
		return false
	}
	switch x := v.(type) {
	case *ssa.UnOp:
		if x.Op != token.MUL {
			return false
		}
		if _, isGlobal := x.X.(*ssa.Global); isGlobal {
			return true
		}
		if al, isAlloc := x.X.(*ssa.Alloc); isAlloc && !al.Heap {
			// result spilled around rundefers: the value stored last in this block
			var last ssa.Value
			for _, in := range blk.Instrs {
				if st, ok := in.(*ssa.Store); ok && st.Addr == al {
					last = st.Val
				}
				if in == ssa.Instruction(x) {
					break
				}
			}
			if last != nil {
				return ownErrorValue(last, blk, depth+1)
			}
		}
		return false
	case *ssa.MakeInterface:
		return true
	case *ssa.ChangeInterface:
		return ownErrorValue(x.X, blk, depth+1)
	case *ssa.Phi:
		for _, e := range x.Edges {
			if ownErrorValue(e, blk, depth+1) {
				return true
			}
		}
	}
	return false
}

// errorSources lists where an error-typed value may come from: "call:<callee>" is reported as the
// bare callee name, plus "package-level-value", "constructed-here", "parameter", "unknown". A call
// that merely wraps an error value (fmt.Errorf("...%w", err)) is looked through.
func errorSources(v ssa.Value, blk *ssa.BasicBlock, depth int) []string {
	if depth > 8 {
		return []string{"unknown"}
	}
	switch x := v.(type) {
	case *ssa.Const:
		return nil
	case *ssa.Parameter:
		return []string{"parameter"}
	case *ssa.Extract:
		return errorSources(x.Tuple, blk, depth+1)
	case *ssa.Call:
		c := x.Common()
		if wrapsAnError(c) {
			var out []string
			for _, a := range c.Args {
				out = append(out, wrappedSources(a, blk, depth+1)...)
			}
			if len(out) > 0 {
				return out
			}
		}
		n := calleeName(c)
		if n == "" {
			n = "dynamic"
		}
		return []string{n}
	case *ssa.UnOp:
		if x.Op != token.MUL {
			return []string{"unknown"}
		}
		if _, isGlobal := x.X.(*ssa.Global); isGlobal {
			return []string{"package-level-value"}
		}
		if al, isAlloc := x.X.(*ssa.Alloc); isAlloc {
			var out []string
			for _, ref := range *al.Referrers() {
				if st, ok := ref.(*ssa.Store); ok && st.Addr == al {
					out = append(out, errorSources(st.Val, blk, depth+1)...)
				}
			}
			return out
		}
		return []string{"unknown"}
	case *ssa.MakeInterface:
		return []string{"constructed-here"}
	case *ssa.ChangeInterface:
		return errorSources(x.X, blk, depth+1)
	case *ssa.Phi:
		var out []string
		for _, e := range x.Edges {
			out = append(out, errorSources(e, blk, depth+1)...)
		}
		return out
	}
	return []string{"unknown"}
}

// wrappedSources follows the variadic arguments of a wrapping call down to the error values in it.
func wrappedSources(v ssa.Value, blk *ssa.BasicBlock, depth int) []string {
	if depth > 8 {
		return nil
	}
	switch x := v.(type) {
	case *ssa.Slice:
		return wrappedSources(x.X, blk, depth+1)
	case *ssa.Alloc:
		var out []string
		for _, ref := range *x.Referrers() {
			if ia, ok := ref.(*ssa.IndexAddr); ok {
				for _, r2 := range *ia.Referrers() {
					if st, ok := r2.(*ssa.Store); ok {
						out = append(out, wrappedSources(st.Val, blk, depth+1)...)
					}
				}
			}
		}
		return out
	case *ssa.MakeInterface:
		if types.TypeString(x.X.Type(), nil) == "error" {
			return errorSources(x.X, blk, depth+1)
		}
		return nil
	case *ssa.ChangeInterface:
		if types.TypeString(x.X.Type(), nil) == "error" {
			return errorSources(x.X, blk, depth+1)
		}
	}
	return nil
}
