package main

import (
	"encoding/json"
	"flag"
	"fmt"
	"os"
	"regexp"
	"runtime"
	"sort"
	"strings"
	"sync"
	"time"

	"golang.org/x/tools/go/ssa"
)

var debugMods func(P *Program, S *Specs, E *Effects, re string)

type FnResult struct {
	Fn          string        `json:"fn"`
	Contract    bool          `json:"contract"`
	Obligations []*Obligation `json:"obligations"`
	OutOfSubset []string      `json:"out_of_subset,omitempty"`
	Error       string        `json:"error,omitempty"`
	Drift       string        `json:"drift,omitempty"` // site-anchored clauses that could not be bound (the rest was verified)
	Assumptions []string      `json:"assumptions,omitempty"`
	Externs     []string      `json:"externs,omitempty"`
	DefaultPure []string      `json:"default_pure,omitempty"`
	Secs        float64       `json:"secs"`
	Vacuous     string        `json:"vacuous,omitempty"`
	DeadReturns []string      `json:"dead_returns,omitempty"`
}

type RunOpts struct {
	RepoDir   string
	SpecDir   string
	WorkDir   string
	TimeoutMs int
	Keep      bool
	Sweep     bool
	Jobs      int
}

func verifyFns(P *Program, S *Specs, E *Effects, fns []*ssa.Function, o RunOpts) []*FnResult {
	results := make([]*FnResult, len(fns))
	var wg sync.WaitGroup
	sem := make(chan struct{}, o.Jobs)
	for i, fn := range fns {
		wg.Add(1)
		go func(i int, fn *ssa.Function) {
			defer wg.Done()
			sem <- struct{}{}
			defer func() { <-sem }()
			results[i] = verifyOne(P, S, E, fn, o)
		}(i, fn)
	}
	wg.Wait()
	// Second chance for obligations no solver decided (timeout / unknown, never "sat"): one at a
	// time, with nothing else running and twice the timeout, within a total budget. A machine that
	// is busy with other work must not turn a slow proof into an alarm; a genuinely failing
	// quantified obligation merely costs this extra time before it is reported.
	budget := time.Duration(4*o.TimeoutMs) * time.Millisecond
	if budget < 60*time.Second {
		budget = 60 * time.Second
	}
	t0 := time.Now()
	for _, r := range results {
		if r == nil {
			continue
		}
		for _, ob := range r.Obligations {
			if ob.Status == "unsat" || ob.Status == "sat" || ob.gen == nil || !ob.Strong {
				continue
			}
			if time.Since(t0) > budget {
				break
			}
			ob.gen.raceOne(ob, o.WorkDir, 2*o.TimeoutMs, o.Keep)
			if ob.Status == "unsat" {
				ob.Solver += " (second attempt, alone)"
			}
		}
	}
	return results
}

var genMu sync.Mutex

func verifyOne(P *Program, S *Specs, E *Effects, fn *ssa.Function, o RunOpts) (res *FnResult) {
	res = verifyOneWith(P, S, E, fn, o, false)
	if strings.HasPrefix(res.Error, "contract error") && strings.Contains(res.Error, "contract drift") {
		// A site-anchored clause (at call / at return / calls) can no longer be bound to the code.
		// Those clauses are undecided, but everything else about the function -- its panic-freedom
		// obligations, its pre/postconditions, invariants and frames -- still is checkable: run
		// again without the site-anchored clauses and keep the drift on record.
		r2 := verifyOneWith(P, S, E, fn, o, true)
		if r2.Error == "" {
			r2.Drift = res.Error
			return r2
		}
	}
	return res
}

func verifyOneWith(P *Program, S *Specs, E *Effects, fn *ssa.Function, o RunOpts, stripSites bool) (res *FnResult) {
	t0 := time.Now()
	g := NewFnGen(P, S, E, fn)
	g.sweep = o.Sweep
	if stripSites && g.C != nil {
		c2 := *g.C
		c2.Calls, c2.ReturnAsserts, c2.MustCall = nil, nil, nil
		g.C = &c2
	}
	res = &FnResult{Fn: g.name, Contract: g.C != nil}
	func() {
		// generation touches shared caches (Effects.D, globalCache): serialise it; solving is parallel
		genMu.Lock()
		defer genMu.Unlock()
		defer func() {
			if r := recover(); r != nil {
				if ee, ok := r.(evalError); ok {
					res.Error = "contract error: " + ee.msg
					return
				}
				res.Error = fmt.Sprintf("internal error: %v", r)
				if os.Getenv("GOVC_DEBUG") != "" {
					buf := make([]byte, 1<<14)
					n := runtime.Stack(buf, false)
					fmt.Fprintf(os.Stderr, "%s: %v\n%s\n", g.name, r, buf[:n])
				}
			}
		}()
		if err := g.Generate(); err != nil {
			res.Error = err.Error()
		}
	}()
	res.OutOfSubset = g.outOfSubset
	if res.Error == "" || strings.HasPrefix(res.Error, "out-of-subset") {
		// A function that leaves the subset is not proved, but the obligations generated before the
		// unsupported instruction are complete (they depend on the code before them only): the ones
		// a solver refutes are reported, the rest is not counted.
		g.Discharge(o.WorkDir, o.TimeoutMs, o.Keep)
	}
	res.Obligations = g.obs
	nret, dead := 0, 0
	for _, c := range g.covers {
		if c.Name == "entry" && c.Status == "unsat" {
			res.Vacuous = "preconditions and global assumptions of " + g.name + " are contradictory"
		}
		if strings.HasPrefix(c.Name, "return") {
			nret++
			if c.Status == "unsat" {
				dead++
				res.DeadReturns = append(res.DeadReturns, c.Name)
			}
		}
	}
	anyFail := false
	for _, ob := range g.obs {
		if ob.Status != "unsat" {
			anyFail = true // a failed obligation is assumed afterwards and makes later code unreachable
		}
	}
	if anyFail {
		res.Vacuous = ""
		res.DeadReturns = nil
	} else if nret > 0 && dead == nret && res.Vacuous == "" {
		res.Vacuous = "no return of " + g.name + " is reachable under the assumed contracts (contradictory assumptions)"
	}
	for a := range g.assumptions {
		res.Assumptions = append(res.Assumptions, a)
	}
	sort.Strings(res.Assumptions)
	for a := range g.usedExtern {
		res.Externs = append(res.Externs, a)
	}
	sort.Strings(res.Externs)
	for a := range g.defaultPure {
		res.DefaultPure = append(res.DefaultPure, a)
	}
	sort.Strings(res.DefaultPure)
	res.Secs = time.Since(t0).Seconds()
	return res
}

func main() {
	if len(os.Args) < 2 {
		fmt.Fprintln(os.Stderr, "usage: govc <dump|verify|prop|lemmas> ...")
		os.Exit(2)
	}
	cmd := os.Args[1]
	fs := flag.NewFlagSet(cmd, flag.ExitOnError)
	repo := fs.String("repo", "/repo", "repository root")
	specs := fs.String("specs", "/verif/specs", "spec directory")
	cleanup := func() {}
	work := fs.String("work", "", "scratch directory for SMT files")
	timeout := fs.Int("timeout", 10000, "per-obligation solver timeout (ms)")
	keep := fs.Bool("keep", false, "keep SMT files")
	sweep := fs.Bool("sweep", false, "zero-annotation mode")
	match := fs.String("fn", "", "regexp over function names")
	jobs := fs.Int("j", 8, "parallel functions")
	jsonOut := fs.String("json", "", "write results as JSON to this file")
	verbose := fs.Bool("v", false, "verbose")
	tier := fs.String("tier", "quick", "quick|thorough")
	fs.Parse(os.Args[2:])
	if *work == "" {
		d, err := os.MkdirTemp("", "govc")
		if err != nil {
			panic(err)
		}
		*work = d
		if !*keep {
			cleanup = func() { os.RemoveAll(d) }
		}
	}
	os.MkdirAll(*work, 0o755)
	o := RunOpts{RepoDir: *repo, SpecDir: *specs, WorkDir: *work, TimeoutMs: *timeout, Keep: *keep, Sweep: *sweep, Jobs: *jobs}

	switch cmd {
	case "prop":
		code := propMain(fs.Args(), o, *tier)
		cleanup()
		os.Exit(code)
	}

	P, err := LoadProgram(*repo, []string{"./..."})
	if err != nil {
		fmt.Fprintln(os.Stderr, "load:", err)
		cleanup()
		os.Exit(2)
	}
	S, err := LoadSpecs(*repo, *specs)
	if err != nil {
		fmt.Fprintln(os.Stderr, "specs:", err)
		cleanup()
		os.Exit(2)
	}
	re := regexp.MustCompile(*match)

	switch cmd {
	case "dump":
		for _, f := range P.AllFuncs {
			if re.MatchString(fnName(f)) {
				fmt.Println("==", fnName(f))
				f.WriteTo(os.Stdout)
			}
		}
	case "mods":
		E := NewEffects(P, S)
		debugMods(P, S, E, *match)
	case "list":
		for _, f := range P.AllFuncs {
			c := " "
			if S.Contracts[fnName(f)] != nil {
				c = "C"
			}
			fmt.Println(c, fnName(f))
		}
	case "verify":
		E := NewEffects(P, S)
		var fns []*ssa.Function
		for _, f := range P.AllFuncs {
			if c := S.Contracts[fnName(f)]; c != nil && c.Trusted {
				continue
			}
			if re.MatchString(fnName(f)) {
				fns = append(fns, f)
			}
		}
		results := verifyFns(P, S, E, fns, o)
		bad := 0
		for _, r := range results {
			nd := 0
			for _, ob := range r.Obligations {
				if ob.Status == "unsat" {
					nd++
				}
			}
			fmt.Printf("%-60s %3d/%3d  %.1fs %s %s\n", r.Fn, nd, len(r.Obligations), r.Secs, r.Error, r.Vacuous)
			if len(r.DeadReturns) > 0 && *verbose {
				fmt.Printf("    dead returns: %v\n", r.DeadReturns)
			}
			for _, ob := range r.Obligations {
				if ob.Status != "unsat" || *verbose {
					mark := "FAIL"
					if ob.Status == "unsat" {
						mark = "ok  "
					} else {
						bad++
					}
					fmt.Printf("    %s %-8s %s  [%s %s %.2fs] %s\n", mark, ob.Status, ob.Name, ob.Solver, ob.Pos, ob.Secs, ob.Desc)
				}
			}
		}
		if *jsonOut != "" {
			b, _ := json.MarshalIndent(results, "", " ")
			os.WriteFile(*jsonOut, b, 0o644)
		}
		if bad > 0 {
			fmt.Printf("%d obligations not discharged\n", bad)
			cleanup()
			os.Exit(1)
		}
	default:
		fmt.Fprintln(os.Stderr, "unknown command", cmd)
		cleanup()
		os.Exit(2)
	}
	_ = strings.Join
	cleanup()
}

func init() {
	debugMods = func(P *Program, S *Specs, E *Effects, re string) {
		r := regexp.MustCompile(re)
		for _, f := range P.AllFuncs {
			if r.MatchString(fnName(f)) {
				fmt.Println(fnName(f), sortedKeys(E.Mods[f]))
			}
		}
	}
}
