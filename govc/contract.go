package main

import (
	"bufio"
	"fmt"
	"math/big"
	"os"
	"path/filepath"
	"regexp"
	"sort"
	"strconv"
	"strings"
	"unicode"
)

// ---------------------------------------------------------------------------------------
// Expression AST of the contract language

type Expr interface{}

type EIdent struct{ Name string }
type ELit struct{ Val *big.Int }
type EBool struct{ Val bool }
type ENil struct{}
type EStr struct{ Val string }
type EUnary struct {
	Op string
	X  Expr
}
type EBinary struct {
	Op   string
	X, Y Expr
}
type ECall struct {
	Fn   string
	Args []Expr
}
type ESel struct {
	X     Expr
	Field string
}
type EIndex struct {
	X, I Expr
}
type ETypeAssert struct {
	X    Expr
	Type string
}
type ERange struct{ Lo, Hi *big.Int } // only in inst hints

var rangeHint = regexp.MustCompile(`^(\w+): (\d+)\.\.(\d+)$`)

type EForall struct {
	Var, Type string
	Lo, Hi    *big.Int // optional finite expansion range [Lo,Hi)
	Body      Expr
	Exists    bool
}

// ---------------------------------------------------------------------------------------
// Lexer

type tok struct {
	kind string // id, num, str, op, eof
	s    string
}

func lexExpr(src string) ([]tok, error) {
	var out []tok
	i := 0
	ops := []string{"<==>", "==>", "&&", "||", "==", "!=", "<=", ">=", "<<", ">>", "&^", "::", "..",
		"+", "-", "*", "/", "%", "&", "|", "^", "<", ">", "!", "(", ")", "[", "]", ",", ".", "{", "}"}
	for i < len(src) {
		c := src[i]
		if c == ' ' || c == '\t' {
			i++
			continue
		}
		if unicode.IsLetter(rune(c)) || c == '_' || c == '$' {
			j := i
			for j < len(src) && (unicode.IsLetter(rune(src[j])) || unicode.IsDigit(rune(src[j])) || src[j] == '_' || src[j] == '$') {
				j++
			}
			out = append(out, tok{"id", src[i:j]})
			i = j
			continue
		}
		if unicode.IsDigit(rune(c)) {
			j := i
			for j < len(src) && (unicode.IsDigit(rune(src[j])) || unicode.IsLetter(rune(src[j])) || src[j] == '_') {
				j++
			}
			out = append(out, tok{"num", src[i:j]})
			i = j
			continue
		}
		if c == '"' {
			j := i + 1
			for j < len(src) && src[j] != '"' {
				if src[j] == '\\' {
					j++
				}
				j++
			}
			if j >= len(src) {
				return nil, fmt.Errorf("unterminated string in %q", src)
			}
			s, err := strconv.Unquote(src[i : j+1])
			if err != nil {
				return nil, err
			}
			out = append(out, tok{"str", s})
			i = j + 1
			continue
		}
		matched := false
		for _, op := range ops {
			if strings.HasPrefix(src[i:], op) {
				out = append(out, tok{"op", op})
				i += len(op)
				matched = true
				break
			}
		}
		if !matched {
			return nil, fmt.Errorf("bad character %q in %q", c, src)
		}
	}
	out = append(out, tok{"eof", ""})
	return out, nil
}

type parser struct {
	toks []tok
	p    int
	src  string
}

func (p *parser) peek() tok { return p.toks[p.p] }
func (p *parser) next() tok { t := p.toks[p.p]; p.p++; return t }
func (p *parser) isOp(s string) bool {
	t := p.peek()
	return t.kind == "op" && t.s == s
}
func (p *parser) expectOp(s string) error {
	if !p.isOp(s) {
		return fmt.Errorf("expected %q at token %d (%q) in %q", s, p.p, p.peek().s, p.src)
	}
	p.p++
	return nil
}

func ParseExpr(src string) (Expr, error) {
	toks, err := lexExpr(src)
	if err != nil {
		return nil, err
	}
	p := &parser{toks: toks, src: src}
	e, err := p.parseIff()
	if err != nil {
		return nil, err
	}
	if p.peek().kind != "eof" {
		return nil, fmt.Errorf("trailing tokens at %q in %q", p.peek().s, src)
	}
	return e, nil
}

func (p *parser) parseIff() (Expr, error) {
	x, err := p.parseImpl()
	if err != nil {
		return nil, err
	}
	for p.isOp("<==>") {
		p.next()
		y, err := p.parseImpl()
		if err != nil {
			return nil, err
		}
		x = EBinary{"<==>", x, y}
	}
	return x, nil
}

func (p *parser) parseImpl() (Expr, error) {
	x, err := p.parseBin(1)
	if err != nil {
		return nil, err
	}
	if p.isOp("==>") {
		p.next()
		y, err := p.parseImpl()
		if err != nil {
			return nil, err
		}
		return EBinary{"==>", x, y}, nil
	}
	return x, nil
}

var binPrec = map[string]int{
	"||": 1, "&&": 2,
	"==": 3, "!=": 3, "<": 3, "<=": 3, ">": 3, ">=": 3,
	"+": 4, "-": 4, "|": 4, "^": 4,
	"*": 5, "/": 5, "%": 5, "<<": 5, ">>": 5, "&": 5, "&^": 5,
}

func (p *parser) parseBin(minPrec int) (Expr, error) {
	x, err := p.parseUnary()
	if err != nil {
		return nil, err
	}
	for {
		t := p.peek()
		if t.kind != "op" {
			return x, nil
		}
		pr, ok := binPrec[t.s]
		if !ok || pr < minPrec {
			return x, nil
		}
		p.next()
		y, err := p.parseBin(pr + 1)
		if err != nil {
			return nil, err
		}
		x = EBinary{t.s, x, y}
	}
}

func (p *parser) parseUnary() (Expr, error) {
	t := p.peek()
	if t.kind == "op" && (t.s == "!" || t.s == "-" || t.s == "^") {
		p.next()
		x, err := p.parseUnary()
		if err != nil {
			return nil, err
		}
		return EUnary{t.s, x}, nil
	}
	return p.parsePostfix()
}

func (p *parser) parseTypeName() (string, error) {
	// [*] [ [] ] ident { (. | /) ident }
	s := ""
	for p.isOp("*") {
		p.next()
		s += "*"
	}
	if p.isOp("[") {
		p.next()
		if err := p.expectOp("]"); err != nil {
			return "", err
		}
		s += "[]"
	}
	t := p.next()
	if t.kind != "id" {
		return "", fmt.Errorf("expected type name in %q", p.src)
	}
	s += t.s
	for p.isOp(".") || p.isOp("/") {
		s += p.next().s
		t := p.next()
		if t.kind != "id" {
			return "", fmt.Errorf("expected type name in %q", p.src)
		}
		s += t.s
	}
	return s, nil
}

func (p *parser) parsePostfix() (Expr, error) {
	x, err := p.parsePrimary()
	if err != nil {
		return nil, err
	}
	for {
		switch {
		case p.isOp("."):
			p.next()
			if p.isOp("(") {
				p.next()
				tn, err := p.parseTypeName()
				if err != nil {
					return nil, err
				}
				if err := p.expectOp(")"); err != nil {
					return nil, err
				}
				x = ETypeAssert{x, tn}
				continue
			}
			t := p.next()
			if t.kind != "id" && t.kind != "num" {
				return nil, fmt.Errorf("expected field name after '.' in %q", p.src)
			}
			x = ESel{x, t.s}
		case p.isOp("["):
			p.next()
			i, err := p.parseIff()
			if err != nil {
				return nil, err
			}
			if err := p.expectOp("]"); err != nil {
				return nil, err
			}
			x = EIndex{x, i}
		default:
			return x, nil
		}
	}
}

func parseBig(s string) (*big.Int, bool) {
	s = strings.ReplaceAll(s, "_", "")
	v := new(big.Int)
	_, ok := v.SetString(s, 0)
	return v, ok
}

func (p *parser) parsePrimary() (Expr, error) {
	t := p.next()
	switch t.kind {
	case "num":
		v, ok := parseBig(t.s)
		if !ok {
			return nil, fmt.Errorf("bad number %q", t.s)
		}
		return ELit{v}, nil
	case "str":
		return EStr{t.s}, nil
	case "op":
		if t.s == "(" {
			e, err := p.parseIff()
			if err != nil {
				return nil, err
			}
			if err := p.expectOp(")"); err != nil {
				return nil, err
			}
			return e, nil
		}
		return nil, fmt.Errorf("unexpected %q in %q", t.s, p.src)
	case "id":
		switch t.s {
		case "true":
			return EBool{true}, nil
		case "false":
			return EBool{false}, nil
		case "nil":
			return ENil{}, nil
		case "forall", "exists":
			v := p.next()
			if v.kind != "id" {
				return nil, fmt.Errorf("expected variable after forall in %q", p.src)
			}
			tn, err := p.parseTypeName()
			if err != nil {
				return nil, err
			}
			q := EForall{Var: v.s, Type: tn, Exists: t.s == "exists"}
			if p.peek().kind == "id" && p.peek().s == "in" {
				p.next()
				lo := p.next()
				if err := p.expectOp(".."); err != nil {
					return nil, err
				}
				hi := p.next()
				l, ok1 := parseBig(lo.s)
				h, ok2 := parseBig(hi.s)
				if !ok1 || !ok2 {
					return nil, fmt.Errorf("bad range in %q", p.src)
				}
				q.Lo, q.Hi = l, h
			}
			if err := p.expectOp("::"); err != nil {
				return nil, err
			}
			body, err := p.parseIff()
			if err != nil {
				return nil, err
			}
			q.Body = body
			return q, nil
		}
		if p.isOp("(") {
			p.next()
			var args []Expr
			for !p.isOp(")") {
				a, err := p.parseIff()
				if err != nil {
					return nil, err
				}
				args = append(args, a)
				if p.isOp(",") {
					p.next()
				} else {
					break
				}
			}
			if err := p.expectOp(")"); err != nil {
				return nil, err
			}
			return ECall{t.s, args}, nil
		}
		return EIdent{t.s}, nil
	}
	return nil, fmt.Errorf("unexpected end of expression in %q", p.src)
}

// ---------------------------------------------------------------------------------------
// Contracts

type Clause struct {
	Src  string
	E    Expr
	Name string // optional label  "name: expr"
}

type GhostUpdate struct {
	Field string
	Arg   Expr
	Val   Expr
	Src   string
}

type LoopSpec struct {
	Invariants []Clause
	Decreases  *Clause
}

type CallSiteSpec struct {
	Callee string
	K      int
	Assert []Clause
	Assume []Clause // never used to make things pass silently: listed in evidence
}

type Contract struct {
	Func           string
	Extern         bool // assumed contract on a dependency
	Trusted        bool // in-repo function whose body is not verified (listed)
	AssumeEnsures  bool
	Forbids        map[string]bool // "forbids <callee>...": the function never (reachably) calls these
	MustCall       []string        // "calls <callee>...": every normal return is preceded by a call of each of these
	ErrFrom        []string        // "errors-from <callee>...": every error the function returns was handed to it by one of these
	AssumedClauses map[string]bool // "assumed <clause-name>...": these ensures clauses are definitions/assumptions, not proved
	File           string
	Requires       []Clause
	Domain         []Clause // domain of the functional clauses: assumed only when proving them, never required of callers
	Shape          []Clause // what a dependency's typing guarantees about an input: assumed for every obligation kind (also part of Domain)
	Ensures        []Clause
	Assigns        []string // raw place strings; nil = unspecified
	HasAssign      bool
	Pure           bool
	PureReads      []string // parameter names whose slice contents a pure function reads
	Fresh          bool
	MayPanic       bool
	OnceGuarded    bool // closure that only ever runs inside sync.Once.Do (inventory-checked)
	NoReturn       bool
	Decreases      *Clause
	Loops          map[int]*LoopSpec
	Calls          []*CallSiteSpec
	ReturnGhost    []GhostUpdate // ghost field updates performed at every return
	ReturnAsserts  []Clause      // assertions over parameters, results and locals, checked at every return where they are in scope
	Props          []string
	Insts          map[string][]Clause // clause name -> instantiation hints ("var: term")
	Params         []string            // optional explicit parameter names (externs)
	Weak           bool                // nil/typeassert obligations of this function are claimed too when false..
}

type GhostField struct {
	Name    string
	ArgType string
	ResType string
}
type GhostVar struct {
	Name string
	Type string
}
type SpecFunc struct {
	Name     string
	ArgNames []string
	ArgTypes []string
	ResType  string
	Body     Expr // nil = uninterpreted
	Src      string
}
type Lemma struct {
	Name  string
	E     Expr
	Src   string
	Props []string
	File  string
}
type Axiom struct {
	Src  string
	E    Expr
	File string
}

type Alias struct {
	Name, Func, ResType string
	Index               int
}

type Specs struct {
	Aliases     map[string]*Alias
	Inline      map[string]bool
	TypeInvs    map[string][]Clause
	LockInvs    map[string][]Clause // "lockinv T: ..." holds whenever T's mutex is not held
	Relies      map[string][]Clause // "rely T: ..." two-state: what other holders may do to T's guarded fields
	Contracts   map[string]*Contract
	GhostFields map[string]*GhostField
	GhostVars   map[string]*GhostVar
	SpecFuncs   map[string]*SpecFunc
	Lemmas      []*Lemma
	Axioms      []*Axiom
	Facts       []*Axiom
	GlobalInsts map[string][]Clause
	SharedTypes map[string]bool // type names considered shared between goroutines (C17)
	Guarded     map[string]bool // heap keys of fields that may only be accessed under the owner's mutex
	Files       []string
}

func NewSpecs() *Specs {
	return &Specs{Contracts: map[string]*Contract{}, GhostFields: map[string]*GhostField{},
		GhostVars: map[string]*GhostVar{}, SpecFuncs: map[string]*SpecFunc{}, SharedTypes: map[string]bool{}, Guarded: map[string]bool{}, Aliases: map[string]*Alias{}, Inline: map[string]bool{}, TypeInvs: map[string][]Clause{}, LockInvs: map[string][]Clause{}, Relies: map[string][]Clause{}}
}

func parseClause(rest string) (Clause, error) {
	c := Clause{Src: rest}
	// optional label "name: expr" (label has no spaces and is followed by ": ")
	if i := strings.Index(rest, ": "); i > 0 && !strings.ContainsAny(rest[:i], " ()[]=<>!&|") {
		c.Name = rest[:i]
		rest = strings.TrimSpace(rest[i+2:])
		c.Src = rest
	}
	e, err := ParseExpr(rest)
	if err != nil {
		return c, err
	}
	c.E = e
	return c, nil
}

// parse "name(a T, b T) R" or "name(T) R"
func parseSig(s string) (name string, argNames, argTypes []string, res string, err error) {
	i := strings.Index(s, "(")
	j := strings.LastIndex(s, ")")
	if i < 0 || j < i {
		return "", nil, nil, "", fmt.Errorf("bad signature %q", s)
	}
	name = strings.TrimSpace(s[:i])
	res = strings.TrimSpace(s[j+1:])
	inner := strings.TrimSpace(s[i+1 : j])
	if inner != "" {
		for _, a := range strings.Split(inner, ",") {
			f := strings.Fields(a)
			if len(f) == 2 {
				argNames = append(argNames, f[0])
				argTypes = append(argTypes, f[1])
			} else if len(f) == 1 {
				argNames = append(argNames, fmt.Sprintf("a%d", len(argNames)))
				argTypes = append(argTypes, f[0])
			} else {
				return "", nil, nil, "", fmt.Errorf("bad parameter %q", a)
			}
		}
	}
	return
}

func (S *Specs) LoadFile(path string, extern bool) error {
	f, err := os.Open(path)
	if err != nil {
		return err
	}
	defer f.Close()
	S.Files = append(S.Files, path)
	sc := bufio.NewScanner(f)
	sc.Buffer(make([]byte, 1<<20), 1<<20)
	var cur *Contract
	var curProps []string
	lineNo := 0
	var pending string
	for sc.Scan() {
		lineNo++
		line := strings.TrimSpace(sc.Text())
		if strings.HasPrefix(line, "//@") {
			line = strings.TrimSpace(line[3:])
		} else if strings.HasSuffix(path, ".go") {
			continue
		}
		if line == "" || strings.HasPrefix(line, "#") || strings.HasPrefix(line, "//") {
			continue
		}
		// strip trailing comment " // ..."
		if i := strings.Index(line, " // "); i >= 0 {
			line = strings.TrimSpace(line[:i])
		}
		// continuation with trailing backslash
		if strings.HasSuffix(line, "\\") {
			pending += strings.TrimSuffix(line, "\\") + " "
			continue
		}
		line = pending + line
		pending = ""
		kw := line
		rest := ""
		if i := strings.IndexAny(line, " \t"); i >= 0 {
			kw = line[:i]
			rest = strings.TrimSpace(line[i+1:])
		}
		fail := func(e error) error { return fmt.Errorf("%s:%d: %v", path, lineNo, e) }
		switch kw {
		case "func", "extern":
			cur = &Contract{Func: rest, Extern: kw == "extern" || extern, File: path, Loops: map[int]*LoopSpec{}}
			cur.Props = append(cur.Props, curProps...)
			if _, dup := S.Contracts[rest]; dup {
				return fail(fmt.Errorf("duplicate contract for %s", rest))
			}
			S.Contracts[rest] = cur
		case "props":
			curProps = strings.Fields(strings.ReplaceAll(rest, ",", " "))
		case "prop":
			if cur == nil {
				return fail(fmt.Errorf("prop outside func"))
			}
			cur.Props = append(cur.Props, strings.Fields(strings.ReplaceAll(rest, ",", " "))...)
		case "requires", "ensures", "domain", "shape":
			if cur == nil {
				return fail(fmt.Errorf("%s outside func", kw))
			}
			c, err := parseClause(rest)
			if err != nil {
				return fail(err)
			}
			switch kw {
			case "requires":
				cur.Requires = append(cur.Requires, c)
			case "domain":
				cur.Domain = append(cur.Domain, c)
			case "shape":
				cur.Domain = append(cur.Domain, c)
				cur.Shape = append(cur.Shape, c)
			default:
				cur.Ensures = append(cur.Ensures, c)
			}
		case "assigns":
			if cur == nil {
				return fail(fmt.Errorf("assigns outside func"))
			}
			cur.HasAssign = true
			for _, a := range splitTop(rest) {
				a = strings.TrimSpace(a)
				if a != "" && a != "nothing" {
					cur.Assigns = append(cur.Assigns, a)
				}
			}
		case "inst":
			// inst <clause-name>: <var>: <term>   |   inst <clause-name>: <var>: <lo>..<hi>
			i := strings.Index(rest, ": ")
			if i < 0 {
				return fail(fmt.Errorf("bad inst hint"))
			}
			body := strings.TrimSpace(rest[i+2:])
			var c Clause
			if m := rangeHint.FindStringSubmatch(body); m != nil {
				lo, _ := parseBig(m[2])
				hi, _ := parseBig(m[3])
				c = Clause{Name: m[1], Src: body, E: ERange{lo, hi}}
			} else {
				var err error
				c, err = parseClause(body)
				if err != nil {
					return fail(err)
				}
			}
			if c.Name == "" {
				return fail(fmt.Errorf("inst hint needs '<clause>: <var>: <term>'"))
			}
			target := &S.GlobalInsts
			if cur != nil && !strings.HasPrefix(rest[:i], "lemma ") {
				if cur.Insts == nil {
					cur.Insts = map[string][]Clause{}
				}
				cur.Insts[rest[:i]] = append(cur.Insts[rest[:i]], c)
			} else {
				if *target == nil {
					*target = map[string][]Clause{}
				}
				(*target)[strings.TrimPrefix(rest[:i], "lemma ")] = append((*target)[strings.TrimPrefix(rest[:i], "lemma ")], c)
			}
		case "alias":
			f := strings.Fields(rest)
			if (len(f) != 2 && len(f) != 3) || cur == nil {
				return fail(fmt.Errorf("alias <name> <result type> [result index]"))
			}
			al := &Alias{Name: f[0], Func: cur.Func, ResType: f[1]}
			if len(f) == 3 {
				al.Index, _ = strconv.Atoi(f[2])
			}
			S.Aliases[f[0]] = al
		case "reads":
			// reads mem(x): the result of a pure function also depends on the contents of slice x
			for _, a := range splitTop(rest) {
				a = strings.TrimSpace(a)
				if strings.HasPrefix(a, "mem(") && strings.HasSuffix(a, ")") {
					cur.PureReads = append(cur.PureReads, a[4:len(a)-1])
				}
			}
		case "pure":
			cur.Pure = true
			cur.HasAssign = true
		case "fresh":
			cur.Fresh = true
		case "may_panic":
			cur.MayPanic = true
		case "noreturn":
			cur.NoReturn = true
		case "trusted":
			cur.Trusted = true
		case "forbids":
			if cur == nil {
				return fail(fmt.Errorf("forbids outside func"))
			}
			if cur.Forbids == nil {
				cur.Forbids = map[string]bool{}
			}
			for _, n := range strings.Fields(strings.ReplaceAll(rest, ",", " ")) {
				cur.Forbids[n] = true
			}
		case "errors-from":
			if cur == nil {
				return fail(fmt.Errorf("errors-from outside func"))
			}
			cur.ErrFrom = append(cur.ErrFrom, strings.Fields(strings.ReplaceAll(rest, ",", " "))...)
		case "calls":
			if cur == nil {
				return fail(fmt.Errorf("calls outside func"))
			}
			cur.MustCall = append(cur.MustCall, strings.Fields(strings.ReplaceAll(rest, ",", " "))...)
		case "assumed":
			if cur == nil {
				return fail(fmt.Errorf("assumed outside func"))
			}
			if cur.AssumedClauses == nil {
				cur.AssumedClauses = map[string]bool{}
			}
			for _, n := range strings.Fields(strings.ReplaceAll(rest, ",", " ")) {
				cur.AssumedClauses[n] = true
			}
		case "assume_ensures":
			// the postconditions are assumptions (listed), but the body is still verified for
			// everything else: panic freedom, frames, call-site and return assertions
			cur.AssumeEnsures = true
		case "params":
			cur.Params = strings.Fields(strings.ReplaceAll(rest, ",", " "))
		case "decreases":
			c, err := parseClause(rest)
			if err != nil {
				return fail(err)
			}
			cur.Decreases = &c
		case "loop":
			// loop <k> invariant E | loop <k> decreases E
			f := strings.SplitN(rest, " ", 3)
			if len(f) < 3 {
				return fail(fmt.Errorf("bad loop clause"))
			}
			k, err := strconv.Atoi(f[0])
			if err != nil {
				return fail(err)
			}
			c, err := parseClause(strings.TrimSpace(f[2]))
			if err != nil {
				return fail(err)
			}
			ls := cur.Loops[k]
			if ls == nil {
				ls = &LoopSpec{}
				cur.Loops[k] = ls
			}
			switch f[1] {
			case "invariant":
				ls.Invariants = append(ls.Invariants, c)
			case "decreases":
				ls.Decreases = &c
			default:
				return fail(fmt.Errorf("bad loop clause kind %q", f[1]))
			}
		case "at":
			if strings.HasPrefix(rest, "return ghost ") {
				// at return ghost f(x) = expr   (ghost update applied at every return)
				body := strings.TrimSpace(strings.TrimPrefix(rest, "return ghost "))
				i := strings.Index(body, " = ")
				if i < 0 {
					return fail(fmt.Errorf("at return ghost f(x) = expr"))
				}
				lhs, err := ParseExpr(strings.TrimSpace(body[:i]))
				if err != nil {
					return fail(err)
				}
				call, ok := lhs.(ECall)
				if !ok || len(call.Args) != 1 {
					return fail(fmt.Errorf("ghost update target must be a ghost field application"))
				}
				rhs, err := ParseExpr(strings.TrimSpace(body[i+3:]))
				if err != nil {
					return fail(err)
				}
				cur.ReturnGhost = append(cur.ReturnGhost, GhostUpdate{Field: call.Fn, Arg: call.Args[0], Val: rhs, Src: body})
				continue
			}
			if strings.HasPrefix(rest, "return assert ") {
				c, err := parseClause(strings.TrimSpace(strings.TrimPrefix(rest, "return assert ")))
				if err != nil {
					return fail(err)
				}
				cur.ReturnAsserts = append(cur.ReturnAsserts, c)
				continue
			}
			// at call <callee>#k assert E
			f := strings.SplitN(rest, " ", 4)
			if len(f) < 4 || f[0] != "call" {
				return fail(fmt.Errorf("bad at-call clause"))
			}
			name := f[1]
			k := 0
			if i := strings.LastIndex(name, "#"); i >= 0 {
				k, _ = strconv.Atoi(name[i+1:])
				name = name[:i]
			}
			c, err := parseClause(strings.TrimSpace(f[3]))
			if err != nil {
				return fail(err)
			}
			var cs *CallSiteSpec
			for _, x := range cur.Calls {
				if x.Callee == name && x.K == k {
					cs = x
				}
			}
			if cs == nil {
				cs = &CallSiteSpec{Callee: name, K: k}
				cur.Calls = append(cur.Calls, cs)
			}
			switch f[2] {
			case "assert":
				cs.Assert = append(cs.Assert, c)
			default:
				return fail(fmt.Errorf("bad at-call kind %q", f[2]))
			}
		case "ghost":
			f := strings.SplitN(rest, " ", 2)
			if len(f) < 2 {
				return fail(fmt.Errorf("bad ghost decl"))
			}
			switch f[0] {
			case "field":
				n, _, at, rt, err := parseSig(f[1])
				if err != nil || len(at) != 1 {
					return fail(fmt.Errorf("bad ghost field %q", f[1]))
				}
				S.GhostFields[n] = &GhostField{n, at[0], rt}
			case "var":
				g := strings.Fields(f[1])
				if len(g) != 2 {
					return fail(fmt.Errorf("bad ghost var"))
				}
				S.GhostVars[g[0]] = &GhostVar{g[0], g[1]}
			default:
				return fail(fmt.Errorf("bad ghost decl kind"))
			}
		case "spec":
			f := strings.SplitN(rest, " ", 2)
			if len(f) < 2 {
				return fail(fmt.Errorf("bad spec decl"))
			}
			switch f[0] {
			case "func":
				n, an, at, rt, err := parseSig(f[1])
				if err != nil {
					return fail(err)
				}
				S.SpecFuncs[n] = &SpecFunc{Name: n, ArgNames: an, ArgTypes: at, ResType: rt, Src: f[1]}
			case "def":
				i := strings.Index(f[1], " = ")
				if i < 0 {
					return fail(fmt.Errorf("spec def needs ' = '"))
				}
				n, an, at, rt, err := parseSig(f[1][:i])
				if err != nil {
					return fail(err)
				}
				body, err := ParseExpr(strings.TrimSpace(f[1][i+3:]))
				if err != nil {
					return fail(err)
				}
				S.SpecFuncs[n] = &SpecFunc{Name: n, ArgNames: an, ArgTypes: at, ResType: rt, Body: body, Src: f[1]}
			default:
				return fail(fmt.Errorf("bad spec decl kind"))
			}
		case "axiom":
			c, err := parseClause(rest)
			if err != nil {
				return fail(err)
			}
			S.Axioms = append(S.Axioms, &Axiom{Src: rest, E: c.E, File: path})
		case "fact":
			// a quantified definition that is never asserted wholesale: it is only instantiated
			// where an "inst" hint asks for it
			c, err := parseClause(rest)
			if err != nil {
				return fail(err)
			}
			S.Facts = append(S.Facts, &Axiom{Src: rest, E: c.E, File: path})
		case "lemma":
			c, err := parseClause(rest)
			if err != nil {
				return fail(err)
			}
			S.Lemmas = append(S.Lemmas, &Lemma{Name: c.Name, E: c.E, Src: c.Src, Props: append([]string{}, curProps...), File: path})
		case "typeinv":
			// typeinv pkg.Type: expr over self
			i := strings.Index(rest, ": ")
			if i < 0 {
				return fail(fmt.Errorf("typeinv <type>: <expr>"))
			}
			c, err := parseClause(strings.TrimSpace(rest[i+2:]))
			if err != nil {
				return fail(err)
			}
			S.TypeInvs[rest[:i]] = append(S.TypeInvs[rest[:i]], c)
		case "lockinv", "rely":
			// lockinv pkg.Type: [name:] expr over self ; rely pkg.Type: [name:] two-state expr over self
			i := strings.Index(rest, ": ")
			if i < 0 {
				return fail(fmt.Errorf("%s <type>: <expr>", kw))
			}
			c, err := parseClause(strings.TrimSpace(rest[i+2:]))
			if err != nil {
				return fail(err)
			}
			if kw == "lockinv" {
				S.LockInvs[rest[:i]] = append(S.LockInvs[rest[:i]], c)
			} else {
				S.Relies[rest[:i]] = append(S.Relies[rest[:i]], c)
			}
		case "inline":
			for _, t := range strings.Fields(rest) {
				S.Inline[t] = true
			}
		case "guarded":
			for _, t := range strings.Fields(strings.ReplaceAll(rest, ",", " ")) {
				S.Guarded["F:"+t] = true
			}
		case "once_guarded":
			cur.OnceGuarded = true
		case "shared":
			for _, t := range strings.Fields(strings.ReplaceAll(rest, ",", " ")) {
				S.SharedTypes[t] = true
			}
		default:
			return fail(fmt.Errorf("unknown directive %q", kw))
		}
	}
	return sc.Err()
}

// splitTop splits on commas that are not inside parentheses.
func splitTop(s string) []string {
	var out []string
	depth := 0
	last := 0
	for i, c := range s {
		switch c {
		case '(', '[':
			depth++
		case ')', ']':
			depth--
		case ',':
			if depth == 0 {
				out = append(out, s[last:i])
				last = i + 1
			}
		}
	}
	out = append(out, s[last:])
	return out
}

// LoadSpecs reads every contracts_verif.go under repoDir (comment-only, //go:build verif) and
// every *.spec / *.contract under specDir.
func LoadSpecs(repoDir, specDir string) (*Specs, error) {
	S := NewSpecs()
	var files []string
	filepath.Walk(specDir, func(p string, info os.FileInfo, err error) error {
		if err == nil && !info.IsDir() && (strings.HasSuffix(p, ".spec") || strings.HasSuffix(p, ".contract")) {
			files = append(files, p)
		}
		return nil
	})
	sort.Strings(files)
	// .spec first (vocabulary), then extern contracts
	sort.SliceStable(files, func(i, j int) bool {
		return strings.HasSuffix(files[i], ".spec") && !strings.HasSuffix(files[j], ".spec")
	})
	for _, f := range files {
		if err := S.LoadFile(f, strings.HasSuffix(f, ".contract")); err != nil {
			return nil, err
		}
	}
	var rfiles []string
	filepath.Walk(repoDir, func(p string, info os.FileInfo, err error) error {
		if err == nil && !info.IsDir() && filepath.Base(p) == "contracts_verif.go" {
			rfiles = append(rfiles, p)
		}
		return nil
	})
	sort.Strings(rfiles)
	for _, f := range rfiles {
		if err := S.LoadFile(f, false); err != nil {
			return nil, err
		}
	}
	return S, nil
}
