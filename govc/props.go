package main

import (
	"bytes"
	"context"
	"encoding/json"
	"fmt"
	"os"
	"os/exec"
	"path/filepath"
	"regexp"
	"sort"
	"strconv"
	"strings"
	"time"

	"golang.org/x/tools/go/ssa"
)

// PropSpec is the per-property configuration in /verif/props.json.
type PropSpec struct {
	ID          string   `json:"id"`
	Level       string   `json:"level"`
	SweepPkgs   []string `json:"sweep_pkgs,omitempty"` // zero-annotation panic sweep over these packages (regexps on function names)
	SweepSkip   []string `json:"sweep_skip,omitempty"` // function-name regexps excluded from the sweep (listed in the evidence)
	ExtraFns    []string `json:"extra_fns,omitempty"`  // additional function-name regexps whose obligations count for this property
	Harness     *Harness `json:"harness,omitempty"`    // bounded stand-in / replay search
	Inventory   []string `json:"inventory,omitempty"`  // named inventory checks (see inventory.go)
	TrustedBase []string `json:"trusted_base,omitempty"`
	Assumptions []string `json:"assumptions,omitempty"`
	Explanation string   `json:"explanation,omitempty"`
	MinObs      int      `json:"min_obligations,omitempty"` // vacuity guard: fewer obligations is an infrastructure error
	PanicKinds  bool     `json:"panic_kinds,omitempty"`     // also claim the panic-freedom obligations of the tagged functions
	OnlyKinds   []string `json:"only_kinds,omitempty"`      // restrict the claimed obligations to these kinds
	ExtraKinds  []string `json:"extra_kinds,omitempty"`     // panic-freedom kinds claimed although panic_kinds is off (e.g. nil-result)
}

type Harness struct {
	Dir      string   `json:"dir"` // directory under /verif/replay
	Run      string   `json:"run"` // -run regexp
	Quick    []string `json:"quick,omitempty"`
	Thorough []string `json:"thorough,omitempty"`
	TimeoutS int      `json:"timeout_s,omitempty"`
	Race     bool     `json:"race,omitempty"`
	Rule     string   `json:"rule"`
}

type KnownFinding struct {
	Property   string `json:"property"`
	Obligation string `json:"obligation,omitempty"` // obligation name (or prefix ending in *)
	Harness    string `json:"harness_case,omitempty"`
	Detail     string `json:"detail_contains,omitempty"` // the failing case's detail must contain this (so that another kind of failure of the same case is still reported)
	What       string `json:"what"`
	Witness    string `json:"witness,omitempty"`
}

type KnownFile struct {
	Known []KnownFinding `json:"known"`
	Fixed []string       `json:"fixed"`
}

type Evidence struct {
	PropertyID  string                 `json:"property_id"`
	Tier        string                 `json:"tier"`
	Seed        int                    `json:"seed"`
	Level       string                 `json:"level"`
	Coverage    map[string]interface{} `json:"coverage"`
	Assumptions []string               `json:"assumptions"`
	WallS       float64                `json:"wall_s"`
	Violations  int                    `json:"violations"`
}

func verifDir() string {
	if d := os.Getenv("VERIF_DIR"); d != "" {
		return d
	}
	return "/verif"
}

func evidenceDir() string {
	if d := os.Getenv("VERIF_EVIDENCE_DIR"); d != "" {
		return d
	}
	return filepath.Join(verifDir(), "evidence")
}

func loadProps() (map[string]*PropSpec, error) {
	b, err := os.ReadFile(filepath.Join(verifDir(), "props.json"))
	if err != nil {
		return nil, err
	}
	var list []*PropSpec
	if err := json.Unmarshal(b, &list); err != nil {
		return nil, err
	}
	m := map[string]*PropSpec{}
	for _, p := range list {
		m[p.ID] = p
	}
	return m, nil
}

func loadKnown() *KnownFile {
	k := &KnownFile{}
	b, err := os.ReadFile(filepath.Join(verifDir(), "known_findings.json"))
	if err == nil {
		json.Unmarshal(b, k)
	}
	return k
}

func matchAny(res []*regexp.Regexp, s string) bool {
	for _, r := range res {
		if r.MatchString(s) {
			return true
		}
	}
	return false
}

func compileAll(ps []string) []*regexp.Regexp {
	var out []*regexp.Regexp
	for _, p := range ps {
		out = append(out, regexp.MustCompile(p))
	}
	return out
}

func hasProp(c *Contract, id string) bool {
	if c == nil {
		return false
	}
	for _, p := range c.Props {
		if p == id {
			return true
		}
	}
	return false
}

var panicOnlyKinds = map[string]bool{"index": true, "slice": true, "div": true, "extern-requires": true, "panic": true,
	"make": true, "shift": true, "nil-map": true, "nil-result": true}

var panicKinds = map[string]bool{"index": true, "slice": true, "div": true, "extern-requires": true, "panic": true,
	"make": true, "shift": true, "nil-map": true, "requires": true, "nil-result": true}

func propMain(args []string, o RunOpts, tier string) int {
	if len(args) < 1 {
		fmt.Fprintln(os.Stderr, "usage: govc prop [flags] <ID>")
		return 2
	}
	id := args[0]
	t0 := time.Now()
	seed := 0
	if s := os.Getenv("VERIF_SEED"); s != "" {
		seed, _ = strconv.Atoi(s)
	}
	if t := os.Getenv("VERIF_TIER"); t == "quick" || t == "thorough" {
		tier = t
	}
	if tier == "thorough" && o.TimeoutMs < 60000 {
		o.TimeoutMs = 60000
	}
	props, err := loadProps()
	if err != nil {
		fmt.Fprintln(os.Stderr, "props.json:", err)
		return 2
	}
	ps := props[id]
	if ps == nil {
		fmt.Fprintln(os.Stderr, "unknown property", id)
		return 2
	}
	known := loadKnown()

	P, err := LoadProgram(o.RepoDir, []string{"./..."})
	if err != nil {
		fmt.Fprintln(os.Stderr, "INFRASTRUCTURE: cannot load /repo:", err)
		return 2
	}
	S, err := LoadSpecs(o.RepoDir, o.SpecDir)
	if err != nil {
		fmt.Fprintln(os.Stderr, "INFRASTRUCTURE: specs:", err)
		return 2
	}
	E := NewEffects(P, S)

	// contract drift: contracts naming functions that no longer exist
	var drift []string
	for name, c := range S.Contracts {
		if c.Extern || !hasProp(c, id) {
			continue
		}
		if P.Funcs[name] == nil {
			drift = append(drift, name)
		}
	}
	sort.Strings(drift)

	// select functions
	sweepRes := compileAll(ps.SweepPkgs)
	skipRes := compileAll(ps.SweepSkip)
	extraRes := compileAll(ps.ExtraFns)
	type sel struct {
		fn    *ssa.Function
		sweep bool // only panic-kind obligations count
	}
	var sels []sel
	var skipped []string
	for _, f := range P.AllFuncs {
		n := fnName(f)
		c := S.Contracts[n]
		switch {
		case c != nil && c.Trusted:
			continue
		case hasProp(c, id) || matchAny(extraRes, n):
			sels = append(sels, sel{f, false})
		case len(sweepRes) > 0 && matchAny(sweepRes, n):
			if matchAny(skipRes, n) {
				skipped = append(skipped, n)
				continue
			}
			sels = append(sels, sel{f, true})
		}
	}
	var fns []*ssa.Function
	for _, s := range sels {
		fns = append(fns, s.fn)
	}
	o.Sweep = true
	results := verifyFns(P, S, E, fns, o)

	// lemmas tagged with the property
	lemmaObs := verifyLemmas(P, S, E, id, o)

	// collect
	var claimed []*Obligation
	var errs []string
	assume := map[string]bool{}
	externs := map[string]bool{}
	defpure := map[string]bool{}
	fnsUnderContract := []string{}
	var outOfSubset []string
	var deadReturns []string
	solverTime := 0.0
	bySolver := map[string]int{}
	for i, r := range results {
		if r.Drift != "" {
			drift = append(drift, r.Fn+": "+r.Drift)
			fmt.Printf("CONTRACT-DRIFT: %s: %s (its site-anchored clauses are undecided for this run; the rest of the function is checked)\n", r.Fn, r.Drift)
		}
		partial := false
		if r.Error != "" && strings.HasPrefix(r.Error, "out-of-subset") {
			outOfSubset = append(outOfSubset, r.Fn+": "+r.Error)
			fmt.Printf("OUT-OF-SUBSET: %s: %s (undecided for this run: only obligations generated before that point and refuted by a solver are reported, nothing of this function is counted as discharged)\n", r.Fn, r.Error)
			partial = true
		}
		if r.Error != "" && !partial {
			if strings.HasPrefix(r.Error, "out-of-subset") {
			} else if strings.HasPrefix(r.Error, "contract error") {
				// the contract can no longer be bound to the code (renamed local, moved call, ...):
				// undecided, not a violation; the bounded stand-in decides
				drift = append(drift, r.Fn+": "+r.Error)
				fmt.Printf("CONTRACT-DRIFT: %s: %s (deductive part undecided for this run)\n", r.Fn, r.Error)
			} else {
				errs = append(errs, r.Fn+": "+r.Error)
			}
			continue
		}
		if r.Vacuous != "" {
			errs = append(errs, "VACUOUS: "+r.Vacuous)
			continue
		}
		for _, d := range r.DeadReturns {
			deadReturns = append(deadReturns, r.Fn+":"+d)
		}
		if r.Contract && !partial {
			fnsUnderContract = append(fnsUnderContract, r.Fn)
		}
		for _, a := range r.Assumptions {
			assume[a] = true
		}
		for _, a := range r.Externs {
			externs[a] = true
		}
		for _, a := range r.DefaultPure {
			defpure[a] = true
		}
		for _, ob := range r.Obligations {
			if !ob.Strong {
				continue // nil-dereference and type-assertion sites are reported but not claimed
			}
			if partial && ob.Status != "sat" {
				continue
			}
			if len(ps.OnlyKinds) > 0 {
				keep := false
				for _, k := range ps.OnlyKinds {
					if k == ob.Kind {
						keep = true
					}
				}
				if !keep {
					continue
				}
			} else if !sels[i].sweep && !ps.PanicKinds && panicOnlyKinds[ob.Kind] {
				extra := false
				for _, k := range ps.ExtraKinds {
					if k == ob.Kind {
						extra = true
					}
				}
				if !extra {
					continue // panic-freedom of this function is not part of this property's claim
				}
			}
			claimed = append(claimed, ob)
		}
	}
	claimed = append(claimed, lemmaObs...)
	for _, inv := range ps.Inventory {
		claimed = append(claimed, runInventory(inv, P, S)...)
	}
	for _, ob := range claimed {
		solverTime += ob.Secs
		if ob.Status == "unsat" {
			bySolver[ob.Solver]++
		}
	}

	if len(errs) > 0 {
		for _, e := range errs {
			fmt.Fprintln(os.Stderr, "INFRASTRUCTURE:", e)
		}
		return 2
	}

	// verdicts
	violations := 0
	discharged := 0
	var knownHit []string
	var failing []*Obligation
	for _, ob := range claimed {
		if ob.Status == "unsat" {
			discharged++
			continue
		}
		if kf := matchKnown(known, id, ob.Name); kf != nil {
			fmt.Printf("KNOWN-FINDING: property=%s %s (%s)\n", id, kf.What, ob.Name)
			knownHit = append(knownHit, ob.Name)
			continue
		}
		failing = append(failing, ob)
	}

	// bounded stand-in / replay search
	var hres *HarnessResult
	if ps.Harness != nil {
		hres = runHarness(ps.Harness, tier, seed, o.RepoDir)
		if hres.InfraError != "" {
			// the stand-in did not run to completion (a build or test binary that fell over on a busy
			// machine): once more before giving up -- an infrastructure hiccup is not a verdict
			fmt.Fprintln(os.Stderr, "harness did not complete, retrying once:", firstLines(hres.InfraError, 3))
			hres = runHarness(ps.Harness, tier, seed, o.RepoDir)
		}
		if hres.InfraError != "" {
			fmt.Fprintln(os.Stderr, "INFRASTRUCTURE: harness:", hres.InfraError)
			return 2
		}
	}
	replayDir := filepath.Join(evidenceDir(), "replays", id)
	os.MkdirAll(replayDir, 0o755)
	for _, ob := range failing {
		violations++
		rp := filepath.Join(replayDir, sanitize(ob.Name)+".json")
		rec := map[string]interface{}{
			"property": id, "obligation": ob.Name, "kind": ob.Kind, "function": ob.Fn, "position": ob.Pos,
			"clause": ob.Desc, "solver": ob.Solver, "status": ob.Status, "solver_output": ob.Model,
			"replay_cmd": fmt.Sprintf("govc verify -fn '^%s$' -v", regexp.QuoteMeta(ob.Fn)),
		}
		suffix := " no-failing-input-found"
		if hres != nil && len(hres.Failures) > 0 {
			rec["failing_inputs"] = hres.Failures
			rec["harness_cmd"] = hres.Cmd
			suffix = ""
		}
		b, _ := json.MarshalIndent(rec, "", " ")
		os.WriteFile(rp, b, 0o644)
		fmt.Printf("VIOLATION property=%s replay=%s%s\n", id, rp, suffix)
		fmt.Printf("  obligation %s [%s by %s] at %s: %s\n", ob.Name, ob.Status, ob.Solver, ob.Pos, ob.Desc)
	}
	// harness failures that no obligation explains
	if hres != nil {
		knownCases := map[*KnownFinding][]string{}
		var knownOrder []*KnownFinding
		for _, f := range hres.Failures {
			if kf := matchKnownHarness(known, id, f.Case, f.Detail); kf != nil {
				if len(knownCases[kf]) == 0 {
					knownOrder = append(knownOrder, kf)
				}
				knownCases[kf] = append(knownCases[kf], f.Case)
			}
		}
		for _, kf := range knownOrder {
			cs := knownCases[kf]
			fmt.Printf("KNOWN-FINDING: property=%s %s (%d bounded cases of class %s, e.g. %s)\n", id, kf.What, len(cs), kf.Harness, cs[0])
			knownHit = append(knownHit, fmt.Sprintf("%s (%d bounded cases)", kf.Harness, len(cs)))
		}
		for _, f := range hres.Failures {
			if kf := matchKnownHarness(known, id, f.Case, f.Detail); kf != nil {
				continue
			}
			if len(failing) == 0 {
				violations++
				rp := filepath.Join(replayDir, "bounded_"+sanitize(f.Case)+".json")
				b, _ := json.MarshalIndent(map[string]interface{}{"property": id, "bounded_case": f, "harness_cmd": hres.Cmd}, "", " ")
				os.WriteFile(rp, b, 0o644)
				fmt.Printf("VIOLATION property=%s replay=%s\n", id, rp)
				fmt.Printf("  bounded stand-in case %s: %s\n", f.Case, f.Detail)
			}
		}
	}

	// vacuity guards
	if len(claimed) == 0 || len(claimed) < ps.MinObs {
		fmt.Fprintf(os.Stderr, "INFRASTRUCTURE: property %s generated %d obligations (minimum %d): vacuous\n", id, len(claimed), ps.MinObs)
		return 2
	}

	// evidence
	var samples []interface{}
	for i, ob := range claimed {
		if i%maxInt(1, len(claimed)/12) == 0 {
			samples = append(samples, map[string]interface{}{"obligation": ob.Name, "clause": ob.Desc, "status": ob.Status, "solver": ob.Solver, "secs": round3(ob.Secs), "pos": ob.Pos})
		}
	}
	var obl []map[string]interface{}
	for _, ob := range claimed {
		obl = append(obl, map[string]interface{}{"name": ob.Name, "status": ob.Status, "solver": ob.Solver, "secs": round3(ob.Secs)})
	}
	tb := append([]string{"go/types + x/tools go/ssa (source -> SSA)", "govc SSA -> SMT translation (/verif/govc)", "SMT solvers z3 4.8.12 / z3 5.1.0 / cvc5 1.0 (first definite answer wins)", "Go compiler and runtime"}, ps.TrustedBase...)
	var assumptions []string
	assumptions = append(assumptions, ps.Assumptions...)
	for _, e := range sortedKeys(externs) {
		assumptions = append(assumptions, "assumed contract on dependency: "+e)
	}
	for _, e := range sortedKeys(defpure) {
		assumptions = append(assumptions, "external callee without contract (fresh result, writes only through callbacks): "+e)
	}
	for _, a := range sortedKeys(assume) {
		assumptions = append(assumptions, a)
	}
	assumptions = append(assumptions, "integers are fixed-width bit-vectors (machine arithmetic, not mathematical); nil-dereference and unchecked type-assertion sites are generated but not claimed")
	for _, d := range drift {
		assumptions = append(assumptions, "contract-drift: contract names a function that no longer exists: "+d)
	}
	for _, s := range skipped {
		assumptions = append(assumptions, "excluded from the sweep: "+s)
	}
	for _, s := range outOfSubset {
		assumptions = append(assumptions, "function outside the verifier's subset (not proved): "+s)
	}
	level := ps.Level
	if level == "" {
		level = "proof"
	}
	cov := map[string]interface{}{
		"obligations":              len(claimed),
		"discharged":               discharged + len(knownHit)*0,
		"checker_cmd":              fmt.Sprintf("/verif/check %s --tier %s", id, tier),
		"trusted_base":             tb,
		"functions_under_contract": fnsUnderContract,
		"functions_swept":          len(fns) - len(fnsUnderContract),
		"discharged_by_solver":     bySolver,
		"solver_time_s":            round3(solverTime),
		"samples":                  samples,
		"obligation_list":          obl,
		"known_findings_met":       knownHit,
		"out_of_subset":            outOfSubset,
		"contract_drift":           drift,
		"unreachable_returns":      deadReturns,
		"explanation":              ps.Explanation,
	}
	if hres != nil {
		cov["bounded"] = map[string]interface{}{
			"label": "bounded stand-in (not counted as proved)", "evaluations": hres.Evaluations,
			"distinct_nontrivial": hres.Distinct, "rule": ps.Harness.Rule, "samples": hres.Samples,
			"failures": len(hres.Failures), "cmd": hres.Cmd, "wall_s": round3(hres.WallS),
		}
	}
	if (discharged != len(claimed) || len(drift) > 0) && level == "proof" {
		level = "other" // not every obligation discharged on this run
	}
	ev := Evidence{PropertyID: id, Tier: tier, Seed: seed, Level: level, Coverage: cov, Assumptions: assumptions,
		WallS: round3(time.Since(t0).Seconds()), Violations: violations}
	os.MkdirAll(evidenceDir(), 0o755)
	b, _ := json.MarshalIndent(ev, "", " ")
	os.WriteFile(filepath.Join(evidenceDir(), id+".json"), b, 0o644)

	fmt.Printf("property %s: %d obligations, %d discharged, %d known findings, %d violations (%.1fs)\n", id, len(claimed), discharged, len(knownHit), violations, time.Since(t0).Seconds())
	if violations > 0 {
		return 1
	}
	return 0
}

func round3(f float64) float64 { return float64(int(f*1000+0.5)) / 1000 }

func maxInt(a, b int) int {
	if a > b {
		return a
	}
	return b
}

func matchKnown(k *KnownFile, id, ob string) *KnownFinding {
	for i := range k.Known {
		kf := &k.Known[i]
		if kf.Property != id || kf.Obligation == "" {
			continue
		}
		if kf.Obligation == ob || (strings.HasSuffix(kf.Obligation, "*") && strings.HasPrefix(ob, strings.TrimSuffix(kf.Obligation, "*"))) {
			return kf
		}
	}
	return nil
}

func matchKnownHarness(k *KnownFile, id, c, detail string) *KnownFinding {
	for i := range k.Known {
		kf := &k.Known[i]
		if kf.Property != id || kf.Harness == "" {
			continue
		}
		if kf.Detail != "" && !strings.Contains(detail, kf.Detail) {
			continue
		}
		if kf.Harness == c || (strings.HasSuffix(kf.Harness, "*") && strings.HasPrefix(c, strings.TrimSuffix(kf.Harness, "*"))) {
			return kf
		}
	}
	return nil
}

// ---------------------------------------------------------------------------------------
// Bounded stand-ins: Go test harnesses under /verif/replay, run against /repo through a
// replace directive. They print one JSON object per line prefixed with "VP-CASE ".

type HarnessFailure struct {
	Case   string `json:"case"`
	Detail string `json:"detail"`
}

type HarnessResult struct {
	Evaluations int
	Distinct    int
	Samples     []interface{}
	Failures    []HarnessFailure
	Cmd         string
	WallS       float64
	InfraError  string
}

func runHarness(h *Harness, tier string, seed int, repoDir string) *HarnessResult {
	res := &HarnessResult{}
	dir := filepath.Join(verifDir(), "replay")
	timeout := h.TimeoutS
	if timeout == 0 {
		timeout = 300
	}
	if tier == "thorough" {
		timeout *= 6
	}
	args := []string{"test", "-v", "-count=1", "-vet=off", "-timeout", fmt.Sprintf("%ds", timeout), "-run", h.Run}
	if h.Race {
		args = append(args, "-race")
	}
	env := append(os.Environ(), "GOFLAGS=-mod=mod", "GOPROXY=off", "GOSUMDB=off", "GOTOOLCHAIN=local",
		"VERIF_TIER="+tier, fmt.Sprintf("VERIF_SEED=%d", seed), "VERIF_REPO="+repoDir)
	extra := h.Quick
	if tier == "thorough" {
		extra = h.Thorough
	}
	env = append(env, extra...)
	// the replace directive must point at the tree under test: a temporary modfile is used when
	// that is not /repo, so that nothing under /verif is rewritten
	if repoDir != "/repo" {
		tmp, err := os.MkdirTemp("", "replaymod")
		if err != nil {
			res.InfraError = err.Error()
			return res
		}
		defer os.RemoveAll(tmp)
		b, err := os.ReadFile(filepath.Join(dir, "go.mod"))
		if err != nil {
			res.InfraError = err.Error()
			return res
		}
		re := regexp.MustCompile(`replace github.com/ipfs/go-unixfsnode => \S+`)
		nb := re.ReplaceAll(b, []byte("replace github.com/ipfs/go-unixfsnode => "+repoDir))
		os.WriteFile(filepath.Join(tmp, "go.mod"), nb, 0o644)
		if sum, err := os.ReadFile(filepath.Join(dir, "go.sum")); err == nil {
			os.WriteFile(filepath.Join(tmp, "go.sum"), sum, 0o644)
		}
		args = append(args, "-modfile="+filepath.Join(tmp, "go.mod"))
	}
	args = append(args, "./"+h.Dir)
	ctx, cancel := context.WithTimeout(context.Background(), time.Duration(timeout+60)*time.Second)
	defer cancel()
	cmd := exec.CommandContext(ctx, "go", args...)
	cmd.Dir = dir
	cmd.Env = env
	var out bytes.Buffer
	cmd.Stdout = &out
	cmd.Stderr = &out
	t0 := time.Now()
	err := cmd.Run()
	res.WallS = time.Since(t0).Seconds()
	res.Cmd = "cd /verif/replay && " + strings.Join(extra, " ") + " go " + strings.Join(args, " ")
	sawSummary := false
	for _, line := range strings.Split(out.String(), "\n") {
		line = strings.TrimSpace(line)
		if i := strings.Index(line, "VP-FAIL "); i >= 0 {
			var f HarnessFailure
			if json.Unmarshal([]byte(line[i+8:]), &f) == nil {
				res.Failures = append(res.Failures, f)
			}
		} else if i := strings.Index(line, "VP-SAMPLE "); i >= 0 {
			var v interface{}
			if json.Unmarshal([]byte(line[i+10:]), &v) == nil && len(res.Samples) < 8 {
				res.Samples = append(res.Samples, v)
			}
		} else if i := strings.Index(line, "VP-SUMMARY "); i >= 0 {
			var s struct{ Evaluations, Distinct int }
			if json.Unmarshal([]byte(line[i+11:]), &s) == nil {
				res.Evaluations += s.Evaluations
				res.Distinct += s.Distinct
				sawSummary = true
			}
		}
	}
	if err != nil && len(res.Failures) == 0 {
		o := out.String()
		switch {
		case strings.Contains(o, "WARNING: DATA RACE"):
			i := strings.Index(o, "WARNING: DATA RACE")
			res.Failures = append(res.Failures, HarnessFailure{Case: "race-detector", Detail: firstLines(o[i:], 24)})
		case strings.Contains(o, "panic:") || strings.Contains(o, "fatal error:"):
			i := strings.Index(o, "panic:")
			if i < 0 {
				i = strings.Index(o, "fatal error:")
			}
			res.Failures = append(res.Failures, HarnessFailure{Case: "library-panic", Detail: firstLines(o[i:], 24)})
		case strings.Contains(o, "test timed out"):
			res.Failures = append(res.Failures, HarnessFailure{Case: "timeout", Detail: lastLines(o, 12)})
		}
	}
	if err != nil && len(res.Failures) == 0 {
		res.InfraError = "harness did not complete: " + err.Error() + "\n" + lastLines(out.String(), 30)
	} else if !sawSummary && len(res.Failures) == 0 {
		res.InfraError = "harness printed no summary\n" + lastLines(out.String(), 30)
	}
	return res
}

func lastLines(s string, n int) string {
	l := strings.Split(strings.TrimSpace(s), "\n")
	if len(l) > n {
		l = l[len(l)-n:]
	}
	return strings.Join(l, "\n")
}

// ---------------------------------------------------------------------------------------
// Lemmas: closed formulas over the spec vocabulary, proved by the solvers.

func verifyLemmas(P *Program, S *Specs, E *Effects, id string, o RunOpts) []*Obligation {
	var out []*Obligation
	for _, l := range S.Lemmas {
		has := false
		for _, p := range l.Props {
			if p == id {
				has = true
			}
		}
		if !has {
			continue
		}
		g := &FnGen{P: P, S: S, E: E, D: NewDecls(), name: "lemma", vals: map[ssa.Value]Val{}, tuples: map[ssa.Value][]Val{},
			env: map[string]Val{}, assumptions: map[string]bool{}, usedExtern: map[string]bool{}, defaultPure: map[string]bool{},
			siteNames: map[ssa.Instruction]string{}, callOrd: map[ssa.Instruction]int{}}
		g.D.ensureLive()
		g.st = State{}
		g.entrySt = State{}
		func() {
			defer func() {
				if r := recover(); r != nil {
					ob := &Obligation{Name: "lemma/" + l.Name, Kind: "lemma", Fn: "lemma", Status: "unknown", Model: fmt.Sprint(r), Strong: true}
					out = append(out, ob)
				}
			}()
			var ob *Obligation
			func() {
				genMu.Lock()
				defer genMu.Unlock()
				for i, ax := range S.Axioms {
					ctx := &EvalCtx{g: g, env: map[string]Val{}, st: g.st, oldSt: g.st}
					g.assume("true", g.evalBool(ax.E, ctx), fmt.Sprintf("axiom:%d", i))
				}
				ctx := &EvalCtx{g: g, env: map[string]Val{}, st: g.st, oldSt: g.st}
				ob = g.obligeClause("lemma", l.Name, "true", Clause{Src: l.Src, E: l.E, Name: l.Name}, ctx, 0)
				ob.Name = "lemma/" + l.Name
			}()
			g.Discharge(o.WorkDir, o.TimeoutMs, o.Keep)
			out = append(out, ob)
		}()
	}
	return out
}
