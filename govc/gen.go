package main

import (
	"fmt"
	"go/types"
	"math/big"
	"sort"
	"strings"
)

// ---------------------------------------------------------------------------------------
// Values, sorts and the shared declaration registry

const (
	sortRef   = "Ref"
	sortStr   = "Str"
	sortBool  = "Bool"
	sortSlice = "Slice"
	sortBV64  = "(_ BitVec 64)"
	sortFloat = "Float"
)

type Val struct {
	T         string     // SMT term
	S         string     // SMT sort
	Go        types.Type // Go type, may be nil for ghost values
	Signed    bool
	Place     *Place
	PlaceLost bool     // a pointer whose symbolic place was lost in a merge: may not be dereferenced
	Lit       *big.Int // set for untyped integer literals in contract expressions
}

type Place struct {
	Key  string // heap key
	Base string // Ref term ("" for globals / ghost vars)
	Idx  string // BV64 index for element places ("" otherwise)
	Path []pathStep
	Elem types.Type // Go type of the pointee
}

type pathStep struct {
	structSort string
	field      int
	nfields    int
}

func bvSort(w int) string { return fmt.Sprintf("(_ BitVec %d)", w) }

func isBV(s string) bool { return strings.HasPrefix(s, "(_ BitVec") }

func bvWidth(s string) int {
	var w int
	fmt.Sscanf(s, "(_ BitVec %d)", &w)
	return w
}

func bvLit(v *big.Int, w int) string {
	m := new(big.Int).Lsh(big.NewInt(1), uint(w))
	x := new(big.Int).Mod(v, m)
	if x.Sign() < 0 {
		x.Add(x, m)
	}
	return fmt.Sprintf("(_ bv%s %d)", x.String(), w)
}

func bvInt(v int64, w int) string { return bvLit(big.NewInt(v), w) }

// Decls is the registry of SMT declarations shared by one generation unit.
type Decls struct {
	prelude    []string
	seen       map[string]bool
	structIDs  map[string]string // types string -> sort name
	structInfo map[string]*structInfo
	strLits    map[string]string
	strOrder   []string
	typeIDs    map[string]int
	heapSorts  map[string]string // heap key -> sort
	heapInit   map[string]string // heap key -> initial symbol
	nsym       int
}

type structInfo struct {
	sort   string
	fields []string // selector names
	fsorts []string
	st     *types.Struct
}

func NewDecls() *Decls {
	d := &Decls{seen: map[string]bool{}, structIDs: map[string]string{}, structInfo: map[string]*structInfo{},
		strLits: map[string]string{}, typeIDs: map[string]int{}, heapSorts: map[string]string{}, heapInit: map[string]string{}}
	d.prelude = append(d.prelude,
		"(declare-sort Ref 0)",
		"(declare-sort Str 0)",
		"(declare-sort Float 0)",
		"(declare-const nil Ref)",
		"(declare-const emptystr Str)",
		"(declare-datatypes ((Slice 0)) (((mk_slice (s_base Ref) (s_off (_ BitVec 64)) (s_len (_ BitVec 64)) (s_cap (_ BitVec 64))))))",
		"(declare-fun slen (Str) (_ BitVec 64))",
		"(declare-fun sat (Str (_ BitVec 64)) (_ BitVec 8))",
		"(declare-fun ssub (Str (_ BitVec 64) (_ BitVec 64)) Str)",
		"(declare-fun scat (Str Str) Str)",
		"(declare-fun dyntype (Ref) Int)",
		"(declare-fun implements (Int Int) Bool)",
		"(declare-fun elemaddr (Ref (_ BitVec 64)) Ref)",
		"(declare-fun bytes2str (Ref (_ BitVec 64) (_ BitVec 64) (Array (_ BitVec 64) (_ BitVec 8))) Str)",
		"(declare-fun str2base (Str) Ref)",
		"(assert (= (slen emptystr) (_ bv0 64)))",
	)
	return d
}

func (d *Decls) fresh(prefix string) string {
	d.nsym++
	return fmt.Sprintf("%s!%d", sanitize(prefix), d.nsym)
}

func sanitize(s string) string {
	var b strings.Builder
	for _, c := range s {
		if (c >= 'a' && c <= 'z') || (c >= 'A' && c <= 'Z') || (c >= '0' && c <= '9') || c == '_' || c == '.' || c == '!' || c == '$' {
			b.WriteRune(c)
		} else {
			b.WriteRune('_')
		}
	}
	return b.String()
}

func (d *Decls) declare(key, text string) {
	if !d.seen[key] {
		d.seen[key] = true
		d.prelude = append(d.prelude, text)
	}
}

func (d *Decls) typeID(t types.Type) int {
	k := "?"
	if t != nil {
		k = types.TypeString(types.Unalias(t), nil)
	}
	if id, ok := d.typeIDs[k]; ok {
		return id
	}
	id := len(d.typeIDs) + 1
	d.typeIDs[k] = id
	return id
}

func (d *Decls) typeIDByName(name string) int {
	if id, ok := d.typeIDs[name]; ok {
		return id
	}
	id := len(d.typeIDs) + 1
	d.typeIDs[name] = id
	return id
}

func (d *Decls) strLit(s string) string {
	if s == "" {
		return "emptystr"
	}
	if n, ok := d.strLits[s]; ok {
		return n
	}
	n := fmt.Sprintf("strlit!%d", len(d.strLits))
	d.strLits[s] = n
	d.strOrder = append(d.strOrder, s)
	d.prelude = append(d.prelude, fmt.Sprintf("(declare-const %s Str)", n))
	d.prelude = append(d.prelude, fmt.Sprintf("(assert (= (slen %s) %s))", n, bvInt(int64(len(s)), 64)))
	for i := 0; i < len(s) && i < 16; i++ {
		d.prelude = append(d.prelude, fmt.Sprintf("(assert (= (sat %s %s) %s))", n, bvInt(int64(i), 64), bvInt(int64(s[i]), 8)))
	}
	return n
}

// distinctness of string literals, emitted once at the end of the prelude
func (d *Decls) strDistinct() string {
	if len(d.strOrder) == 0 {
		return ""
	}
	names := []string{"emptystr"}
	for _, s := range d.strOrder {
		names = append(names, d.strLits[s])
	}
	return "(assert (distinct " + strings.Join(names, " ") + "))"
}

func (d *Decls) sortOf(t types.Type) string {
	if t == nil {
		return sortRef
	}
	switch u := t.Underlying().(type) {
	case *types.Basic:
		info := u.Info()
		switch {
		case info&types.IsBoolean != 0:
			return sortBool
		case info&types.IsString != 0:
			return sortStr
		case info&types.IsInteger != 0:
			return bvSort(intWidth(u))
		case info&types.IsFloat != 0, info&types.IsComplex != 0:
			return sortFloat
		case u.Kind() == types.UnsafePointer:
			return sortRef
		case u.Kind() == types.UntypedNil:
			return sortRef
		}
		return sortRef
	case *types.Pointer, *types.Interface, *types.Map, *types.Chan, *types.Signature:
		return sortRef
	case *types.Slice:
		return sortSlice
	case *types.Struct:
		return d.structSort(t, u)
	case *types.Array:
		es := d.sortOf(u.Elem())
		return fmt.Sprintf("(Array (_ BitVec 64) %s)", es)
	case *types.Tuple:
		return "Tuple"
	case *types.TypeParam:
		return sortRef
	}
	return sortRef
}

func intWidth(b *types.Basic) int {
	switch b.Kind() {
	case types.Int8, types.Uint8:
		return 8
	case types.Int16, types.Uint16:
		return 16
	case types.Int32, types.Uint32, types.UntypedRune:
		return 32
	}
	return 64
}

func isSigned(t types.Type) bool {
	if t == nil {
		return true
	}
	if b, ok := t.Underlying().(*types.Basic); ok {
		return b.Info()&types.IsUnsigned == 0
	}
	return false
}

func (d *Decls) structSort(t types.Type, st *types.Struct) string {
	key := types.TypeString(t, nil)
	if _, isNamed := t.(*types.Named); !isNamed {
		key = "anon:" + st.String()
	}
	if s, ok := d.structIDs[key]; ok {
		return s
	}
	name := fmt.Sprintf("S%d", len(d.structIDs))
	if n, ok := t.(*types.Named); ok {
		name = fmt.Sprintf("S%d_%s", len(d.structIDs), sanitize(n.Obj().Name()))
	}
	d.structIDs[key] = name
	info := &structInfo{sort: name, st: st}
	d.structInfo[name] = info
	var fl []string
	for i := 0; i < st.NumFields(); i++ {
		fs := d.sortOf(st.Field(i).Type())
		sel := fmt.Sprintf("%s_f%d", name, i)
		info.fields = append(info.fields, sel)
		info.fsorts = append(info.fsorts, fs)
		fl = append(fl, fmt.Sprintf("(%s %s)", sel, fs))
	}
	if st.NumFields() == 0 {
		fl = append(fl, fmt.Sprintf("(%s_dummy Bool)", name))
	}
	d.prelude = append(d.prelude, fmt.Sprintf("(declare-datatypes ((%s 0)) (((mk_%s %s))))", name, name, strings.Join(fl, " ")))
	return name
}

func (d *Decls) zeroOf(t types.Type) string {
	s := d.sortOf(t)
	return d.zeroOfSort(s, t)
}

func (d *Decls) zeroOfSort(s string, t types.Type) string {
	switch {
	case s == sortBool:
		return "false"
	case s == sortStr:
		return "emptystr"
	case s == sortRef:
		return "nil"
	case s == sortSlice:
		return "(mk_slice nil (_ bv0 64) (_ bv0 64) (_ bv0 64))"
	case s == sortFloat:
		d.declare("floatzero", "(declare-const floatzero Float)")
		return "floatzero"
	case isBV(s):
		return bvInt(0, bvWidth(s))
	case strings.HasPrefix(s, "(Array"):
		var es string
		var et types.Type
		if t != nil {
			if a, ok := t.Underlying().(*types.Array); ok {
				et = a.Elem()
				es = d.sortOf(et)
			}
		}
		if es == "" {
			// parse element sort out of "(Array (_ BitVec 64) X)"
			es = strings.TrimSuffix(strings.TrimPrefix(s, "(Array (_ BitVec 64) "), ")")
		}
		return fmt.Sprintf("((as const %s) %s)", s, d.zeroOfSort(es, et))
	}
	if info, ok := d.structInfo[s]; ok {
		if len(info.fields) == 0 {
			return fmt.Sprintf("(mk_%s false)", s)
		}
		var parts []string
		for i := range info.fields {
			parts = append(parts, d.zeroOfSort(info.fsorts[i], info.st.Field(i).Type()))
		}
		return fmt.Sprintf("(mk_%s %s)", s, strings.Join(parts, " "))
	}
	return "nil"
}

// ---------------------------------------------------------------------------------------
// Heap keys

func (d *Decls) heapKeySort(key, sort string) {
	if old, ok := d.heapSorts[key]; ok {
		if old != sort {
			panic(fmt.Sprintf("heap key %s has sorts %s and %s", key, old, sort))
		}
		return
	}
	d.heapSorts[key] = sort
	sym := "H0_" + sanitize(key)
	// ensure uniqueness after sanitising
	for d.seen["sym:"+sym] {
		sym += "_"
	}
	d.seen["sym:"+sym] = true
	d.heapInit[key] = sym
	d.prelude = append(d.prelude, fmt.Sprintf("(declare-const %s %s)", sym, sort))
}

func (d *Decls) fieldKey(st types.Type, i int) (string, string) {
	// st is the (named) struct type
	s := st.Underlying().(*types.Struct)
	name := types.TypeString(st, func(p *types.Package) string { return shortName(p.Path()) })
	key := fmt.Sprintf("F:%s.%s", name, s.Field(i).Name())
	fs := d.sortOf(s.Field(i).Type())
	d.heapKeySort(key, fmt.Sprintf("(Array Ref %s)", fs))
	return key, fs
}

func (d *Decls) memKey(elemSort string) string {
	key := "M:" + elemSort
	d.heapKeySort(key, fmt.Sprintf("(Array Ref (Array (_ BitVec 64) %s))", elemSort))
	return key
}

func (d *Decls) cellKey(sort string) string {
	key := "C:" + sort
	d.heapKeySort(key, fmt.Sprintf("(Array Ref %s)", sort))
	return key
}

func (d *Decls) mapKeys(ks, vs string) (string, string, string) {
	h := fmt.Sprintf("MapHas:%s:%s", ks, vs)
	v := fmt.Sprintf("MapVal:%s:%s", ks, vs)
	l := fmt.Sprintf("MapLen:%s:%s", ks, vs)
	d.heapKeySort(h, fmt.Sprintf("(Array Ref (Array %s Bool))", ks))
	d.heapKeySort(v, fmt.Sprintf("(Array Ref (Array %s %s))", ks, vs))
	d.heapKeySort(l, "(Array Ref (_ BitVec 64))")
	return h, v, l
}

func (d *Decls) globalKey(name string, sort string) string {
	key := "Glob:" + name
	d.heapKeySort(key, sort)
	return key
}

const liveKey = "Live"

func (d *Decls) ensureLive() {
	d.heapKeySort(liveKey, "(Array Ref Bool)")
}

// State maps heap keys to their current SMT symbol.
type State map[string]string

func (s State) clone() State {
	n := make(State, len(s))
	for k, v := range s {
		n[k] = v
	}
	return n
}

func (d *Decls) get(st State, key string) string {
	if v, ok := st[key]; ok {
		return v
	}
	if v, ok := d.heapInit[key]; ok {
		return v
	}
	panic("unknown heap key " + key)
}

func sortedKeys(m map[string]bool) []string {
	var out []string
	for k := range m {
		out = append(out, k)
	}
	sort.Strings(out)
	return out
}
