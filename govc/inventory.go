package main

import (
	"fmt"
	"go/types"
	"sort"
	"strings"

	"golang.org/x/tools/go/ssa"
)

// Inventory checks are obligations decided by a syntactic analysis of the SSA of /repo rather
// than by a solver: "the only call sites of X are ...", "no construct of kind Y occurs in ...".
// They are reported like any other obligation (solver = "inventory").

func invOb(name, desc string, ok bool, detail string) *Obligation {
	ob := &Obligation{Name: "inventory/" + name, Kind: "inventory", Fn: "inventory", Desc: desc, Strong: true, Solver: "inventory"}
	if ok {
		ob.Status = "unsat"
	} else {
		ob.Status = "sat"
		ob.Model = detail
	}
	return ob
}

var panickyExterns = map[string]bool{
	"github.com/ipld/go-ipld-prime/fluent/qp.MapEntry":  true,
	"github.com/ipld/go-ipld-prime/fluent/qp.ListEntry": true,
}

var recoveringExterns = map[string]bool{
	"github.com/ipld/go-ipld-prime/fluent/qp.BuildMap":  true,
	"github.com/ipld/go-ipld-prime/fluent/qp.BuildList": true,
}

func runInventory(name string, P *Program, S *Specs) []*Obligation {
	switch name {
	case "decoder-panics-confined":
		return invDecoderPanics(P, S)
	case "load-call-sites":
		return invLoadSites(P, S)
	case "no-unordered-constructs-builders":
		return invUnordered(P, S, []string{"data/builder."}, "builders")
	case "no-unordered-constructs-readers":
		return invUnordered(P, S, []string{"hamt.", "file.", "directory.", "iter.", "utils.", "unixfsnode."}, "readers")
	case "shard-literal-sites":
		return invStructLiteralSites(P, "hamt._UnixFSHAMTShard", []string{"hamt.NewUnixFSHAMTShard"})
	case "reify-tables":
		return invReifyTables(P)
	case "once-closures":
		return invOnceClosures(P, S)
	case "lstat-not-stat":
		return invLstat(P)
	}
	return []*Obligation{invOb(name, "unknown inventory check", false, "not implemented")}
}

func fnPkgPrefix(f *ssa.Function, prefixes []string) bool {
	n := fnName(f)
	n = strings.TrimLeft(n, "(*")
	for _, p := range prefixes {
		if strings.HasPrefix(n, p) {
			return true
		}
	}
	return false
}

// invDecoderPanics: the three Decode* entry points of package data never let a panic escape.
// PANICKY(f) iff f may execute a panic that is not recovered inside f's own dynamic extent.
func invDecoderPanics(P *Program, S *Specs) []*Obligation {
	panicky := map[*ssa.Function]string{}
	var fns []*ssa.Function
	for _, f := range P.AllFuncs {
		if fnPkgPrefix(f, []string{"data."}) {
			fns = append(fns, f)
		}
	}
	changed := true
	for changed {
		changed = false
		for _, f := range fns {
			if _, ok := panicky[f]; ok {
				continue
			}
			why := ""
			for _, b := range f.Blocks {
				for _, ins := range b.Instrs {
					switch x := ins.(type) {
					case *ssa.Panic:
						why = "explicit panic"
					case ssa.CallInstruction:
						c := x.Common()
						n := calleeName(c)
						if panickyExterns[n] {
							why = "calls " + n
						}
						if cf, ok := c.Value.(*ssa.Function); ok {
							if w, ok := panicky[cf]; ok {
								why = "calls " + fnName(cf) + " (" + w + ")"
							}
						}
						if !recoveringExterns[n] {
							for _, a := range c.Args {
								if mc, ok := a.(*ssa.MakeClosure); ok {
									if w, ok := panicky[mc.Fn.(*ssa.Function)]; ok {
										why = "hands panicking closure to " + n + " (" + w + ")"
									}
								}
							}
						}
						if _, dyn := c.Value.(*ssa.Function); !dyn && !c.IsInvoke() {
							if _, isB := c.Value.(*ssa.Builtin); !isB {
								if _, isMC := c.Value.(*ssa.MakeClosure); !isMC {
									// dynamic call of a func value: may be anything; not present in the decoders
									why = "dynamic call"
								}
							}
						}
					}
				}
			}
			if why != "" {
				panicky[f] = why
				changed = true
			}
		}
	}
	var out []*Obligation
	for _, name := range []string{"data.DecodeUnixFSData", "data.DecodeUnixTime", "data.DecodeUnixFSMetadata"} {
		f := P.Funcs[name]
		if f == nil {
			out = append(out, invOb("decoder-panics-confined:"+name, "decoder entry point exists", false, "function not found"))
			continue
		}
		w, bad := panicky[f]
		out = append(out, invOb("decoder-panics-confined:"+name, "every panic raised while decoding is raised inside qp.BuildMap, which recovers it into an error", !bad, w))
	}
	// every may_panic function must be in package data's panicky set and only referenced as an argument
	for name, c := range S.Contracts {
		if !c.MayPanic || c.Extern {
			continue
		}
		f := P.Funcs[name]
		if f == nil || !fnPkgPrefix(f, []string{"data."}) {
			continue
		}
		okRef := true
		detail := ""
		for _, g := range P.AllFuncs {
			for _, b := range g.Blocks {
				for _, ins := range b.Instrs {
					if _, dbg := ins.(*ssa.DebugRef); dbg {
						continue
					}
					for _, op := range ins.Operands(nil) {
						if *op == nil {
							continue
						}
						mc, ok := (*op).(*ssa.MakeClosure)
						if !ok || mc.Fn != f {
							continue
						}
						ci, isCall := ins.(ssa.CallInstruction)
						if !isCall {
							okRef = false
							detail = "closure escapes in " + fnName(g)
							continue
						}
						n := calleeName(ci.Common())
						if !(recoveringExterns[n] || strings.HasSuffix(n, "qp.Map") || strings.HasSuffix(n, "qp.List")) {
							okRef = false
							detail = "closure passed to " + n + " in " + fnName(g)
						}
					}
				}
			}
		}
		out = append(out, invOb("decoder-panics-confined:closure:"+name, "a closure that may panic is only handed to qp.BuildMap / qp.Map / qp.List", okRef, detail))
	}
	sort.Slice(out, func(i, j int) bool { return out[i].Name < out[j].Name })
	return out
}

// invLoadSites: the only call sites of LinkSystem.Load in the read-side packages.
func invLoadSites(P *Program, S *Specs) []*Obligation {
	allowed := map[string]bool{"(*file.deferredFileNode).resolve": true, "(*hamt._UnixFSHAMTShard).loadChild": true}
	var bad []string
	seen := map[string]bool{}
	for _, f := range P.AllFuncs {
		if !fnPkgPrefix(f, []string{"hamt.", "file.", "directory.", "iter.", "utils.", "unixfsnode."}) {
			continue
		}
		for _, b := range f.Blocks {
			for _, ins := range b.Instrs {
				if ci, ok := ins.(ssa.CallInstruction); ok {
					n := calleeName(ci.Common())
					if strings.HasSuffix(n, "linking.LinkSystem).Load") || strings.HasSuffix(n, "LinkSystem).LoadRaw") || strings.HasSuffix(n, "LinkSystem).LoadPlusRaw") || strings.HasSuffix(n, "LinkSystem).Fill") {
						seen[fnName(f)] = true
						if !allowed[fnName(f)] {
							bad = append(bad, fnName(f))
						}
					}
				}
				// reading the StorageReadOpener field directly would bypass Load
				if fa, ok := ins.(*ssa.FieldAddr); ok {
					if st, s := derefStruct(fa.X.Type()); st != nil && strings.HasSuffix(typeName(st), "linking.LinkSystem") {
						if s.Field(fa.Field).Name() == "StorageReadOpener" {
							bad = append(bad, fnName(f)+" (reads StorageReadOpener)")
						}
					}
				}
			}
		}
	}
	return []*Obligation{invOb("load-call-sites", "the only functions of the read side that request a block from storage are deferredFileNode.resolve and hamt loadChild", len(bad) == 0 && len(seen) == 2, strings.Join(bad, ", "))}
}

// invUnordered: no construct whose result depends on scheduling or on Go's randomised map order,
// other than the listed map ranges (which are verified as nondeterministic-order loops).
func invUnordered(P *Program, S *Specs, prefixes []string, label string) []*Obligation {
	allowedRanges := map[string]bool{"(*data/builder.shard).serialize": true}
	var bad []string
	for _, f := range P.AllFuncs {
		if !fnPkgPrefix(f, prefixes) {
			continue
		}
		for _, b := range f.Blocks {
			for _, ins := range b.Instrs {
				switch x := ins.(type) {
				case *ssa.Go:
					bad = append(bad, fnName(f)+": go statement")
				case *ssa.Select:
					bad = append(bad, fnName(f)+": select")
				case *ssa.Range:
					if _, ok := x.X.Type().Underlying().(*types.Map); ok && !allowedRanges[fnName(f)] {
						bad = append(bad, fnName(f)+": range over map")
					}
				case *ssa.Convert:
					if b, ok := x.Type().Underlying().(*types.Basic); ok && b.Kind() == types.Uintptr {
						bad = append(bad, fnName(f)+": pointer to integer conversion")
					}
				case ssa.CallInstruction:
					n := calleeName(x.Common())
					for _, p := range []string{"time.Now", "math/rand.", "crypto/rand.", "os.Getpid", "runtime."} {
						if strings.HasPrefix(n, p) {
							bad = append(bad, fnName(f)+": calls "+n)
						}
					}
					// package-level mutable state: a method call on (the address of) a package-level
					// variable of a sync type (sync.Map, sync.Pool, sync.Mutex ...) outside init
					if !isInitFn(f) {
						for _, a := range x.Common().Args {
							if g := globalRoot(a); g != nil && inRepoPkg(g.Pkg.Pkg) && strings.HasPrefix(typeName(derefT(g.Type())), "sync.") {
								bad = append(bad, fnName(f)+": uses package-level "+typeName(derefT(g.Type()))+" "+g.Name())
							}
						}
					}
				case *ssa.Store:
					if g := globalRoot(x.Addr); g != nil && inRepoPkg(g.Pkg.Pkg) && !isInitFn(f) {
						bad = append(bad, fnName(f)+": writes package-level variable "+g.Name())
					}
				case *ssa.MapUpdate:
					if ld, ok := x.Map.(*ssa.UnOp); ok && !isInitFn(f) {
						if g := globalRoot(ld.X); g != nil && inRepoPkg(g.Pkg.Pkg) {
							bad = append(bad, fnName(f)+": updates package-level map "+g.Name())
						}
					}
				}
			}
		}
	}
	return []*Obligation{invOb("no-unordered-constructs-"+label, "no goroutine, select, clock, random source, pointer-to-integer conversion, unlisted map range or package-level mutable state (written variable, updated map, sync object) in the "+label, len(bad) == 0, strings.Join(bad, "; "))}
}

// invStructLiteralSites: objects of the given struct type are allocated only in the listed functions.
func invStructLiteralSites(P *Program, tn string, allowed []string) []*Obligation {
	ok := map[string]bool{}
	for _, a := range allowed {
		ok[a] = true
	}
	var bad []string
	for _, f := range P.AllFuncs {
		for _, b := range f.Blocks {
			for _, ins := range b.Instrs {
				if al, isA := ins.(*ssa.Alloc); isA {
					if typeName(al.Type().(*types.Pointer).Elem()) == tn && !ok[fnName(f)] {
						bad = append(bad, fnName(f))
					}
				}
			}
		}
	}
	return []*Obligation{invOb("literal-sites:"+tn, "objects of type "+tn+" are constructed only in "+strings.Join(allowed, ", "), len(bad) == 0, strings.Join(bad, ", "))}
}

// invReifyTables: the two dispatch tables of the root package are initialised exactly as the
// specification of C05/C06/C14 says and are never written afterwards.
func invReifyTables(P *Program) []*Obligation {
	want := map[string]map[int64]string{
		"reifyFuncs": {
			1: "directory.NewUnixFSBasicDir", 2: "unixfsnode.unixFSFileReifierWithPreload", 3: "unixfsnode.defaultUnixFSReifier",
			0: "unixfsnode.unixFSFileReifier", 4: "unixfsnode.defaultUnixFSReifier", 5: "hamt.NewUnixFSHAMTShardWithPreload"},
		"lazyReifyFuncs": {
			1: "directory.NewUnixFSBasicDir", 2: "unixfsnode.unixFSFileReifier", 3: "unixfsnode.defaultUnixFSReifier",
			0: "unixfsnode.unixFSFileReifier", 4: "unixfsnode.defaultUnixFSReifier", 5: "hamt.NewUnixFSHAMTShard"},
	}
	var out []*Obligation
	var rootPkg *ssa.Package
	for _, sp := range P.Pkgs {
		if sp.Pkg.Path() == modPath {
			rootPkg = sp
		}
	}
	if rootPkg == nil {
		return []*Obligation{invOb("reify-tables", "root package found", false, "no root package")}
	}
	initFn := rootPkg.Func("init")
	got := map[string]map[int64]string{}
	// in init: t = make(map); t[k] = fn ...; *global = t
	mapOf := map[ssa.Value]string{}
	for _, b := range initFn.Blocks {
		for _, ins := range b.Instrs {
			if st, ok := ins.(*ssa.Store); ok {
				if gl, ok := st.Addr.(*ssa.Global); ok {
					if _, isTable := want[gl.Name()]; isTable {
						mapOf[st.Val] = gl.Name()
					}
				}
			}
		}
	}
	for _, b := range initFn.Blocks {
		for _, ins := range b.Instrs {
			if mu, ok := ins.(*ssa.MapUpdate); ok {
				tbl, ok := mapOf[mu.Map]
				if !ok {
					continue
				}
				k, ok1 := mu.Key.(*ssa.Const)
				var fname string
				switch v := mu.Value.(type) {
				case *ssa.Function:
					fname = fnName(v)
				case *ssa.ChangeType:
					if f, ok := v.X.(*ssa.Function); ok {
						fname = fnName(f)
					}
				}
				if ok1 && fname != "" {
					if got[tbl] == nil {
						got[tbl] = map[int64]string{}
					}
					got[tbl][k.Int64()] = fname
				}
			}
		}
	}
	for tbl, w := range want {
		ok := len(got[tbl]) == len(w)
		var diff []string
		for k, v := range w {
			if got[tbl][k] != v {
				ok = false
				diff = append(diff, fmt.Sprintf("%s[%d] = %s, want %s", tbl, k, got[tbl][k], v))
			}
		}
		sort.Strings(diff)
		out = append(out, invOb("reify-tables:"+tbl, "dispatch table "+tbl+" maps each UnixFS type to the specified constructor", ok, strings.Join(diff, "; ")))
		// never written outside init
		written := ""
		for _, f := range P.AllFuncs {
			if f.Name() == "init" {
				continue
			}
			for _, b := range f.Blocks {
				for _, ins := range b.Instrs {
					switch x := ins.(type) {
					case *ssa.Store:
						if gl, ok := x.Addr.(*ssa.Global); ok && gl.Name() == tbl && gl.Pkg == rootPkg {
							written = fnName(f)
						}
					case *ssa.MapUpdate:
						if u, ok := x.Map.(*ssa.UnOp); ok {
							if gl, ok := u.X.(*ssa.Global); ok && gl.Name() == tbl && gl.Pkg == rootPkg {
								written = fnName(f)
							}
						}
					}
				}
			}
		}
		out = append(out, invOb("reify-tables:"+tbl+":immutable", "dispatch table "+tbl+" is never written after package initialisation", written == "", written))
	}
	sort.Slice(out, func(i, j int) bool { return out[i].Name < out[j].Name })
	return out
}

func invLstat(P *Program) []*Obligation {
	f := P.Funcs["data/builder.BuildUnixFSRecursive"]
	if f == nil {
		return []*Obligation{invOb("lstat-not-stat", "BuildUnixFSRecursive exists", false, "not found")}
	}
	lstat, stat := 0, 0
	for _, b := range f.Blocks {
		for _, ins := range b.Instrs {
			if ci, ok := ins.(ssa.CallInstruction); ok {
				switch calleeName(ci.Common()) {
				case "os.Lstat":
					lstat++
				case "os.Stat":
					stat++
				}
			}
		}
	}
	return []*Obligation{invOb("lstat-not-stat", "the importer inspects entries with Lstat (never Stat), so symbolic links are not followed", lstat >= 1 && stat == 0, fmt.Sprintf("Lstat calls %d, Stat calls %d", lstat, stat))}
}

// invOnceClosures: every function marked once_guarded is a closure that is only ever handed to
// (*sync.Once).Do, so it runs at most once and every Do call returns after it completed.
func invOnceClosures(P *Program, S *Specs) []*Obligation {
	var out []*Obligation
	for name, c := range S.Contracts {
		if !c.OnceGuarded {
			continue
		}
		f := P.Funcs[name]
		if f == nil {
			out = append(out, invOb("once-closures:"+name, "once_guarded function exists", false, "not found (contract drift)"))
			continue
		}
		ok, uses, detail := true, 0, ""
		for _, g := range P.AllFuncs {
			for _, b := range g.Blocks {
				for _, ins := range b.Instrs {
					if _, dbg := ins.(*ssa.DebugRef); dbg {
						continue
					}
					for _, op := range ins.Operands(nil) {
						if *op == nil {
							continue
						}
						mc, isMC := (*op).(*ssa.MakeClosure)
						if (!isMC || mc.Fn != f) && *op != ssa.Value(f) {
							continue
						}
						if _, self := ins.(*ssa.MakeClosure); self {
							continue
						}
						uses++
						ci, isCall := ins.(ssa.CallInstruction)
						if !isCall || calleeName(ci.Common()) != "(*sync.Once).Do" {
							ok = false
							detail = "used in " + fnName(g) + " other than as the argument of (*sync.Once).Do"
						}
					}
				}
			}
		}
		if uses == 0 {
			ok, detail = false, "never used"
		}
		out = append(out, invOb("once-closures:"+name, "the closure runs only inside sync.Once.Do", ok, detail))
	}
	sort.Slice(out, func(i, j int) bool { return out[i].Name < out[j].Name })
	return out
}

// globalRoot: the package-level variable an address is rooted in (through field / index address
// computations), or nil.
func globalRoot(v ssa.Value) *ssa.Global {
	for i := 0; i < 8; i++ {
		switch x := v.(type) {
		case *ssa.Global:
			return x
		case *ssa.FieldAddr:
			v = x.X
		case *ssa.IndexAddr:
			v = x.X
		default:
			return nil
		}
	}
	return nil
}

func derefT(t types.Type) types.Type {
	if p, ok := t.Underlying().(*types.Pointer); ok {
		return p.Elem()
	}
	return t
}

func isInitFn(f *ssa.Function) bool {
	for f != nil {
		if f.Name() == "init" || strings.HasPrefix(f.Name(), "init#") || strings.HasPrefix(f.Name(), "init$") {
			return true
		}
		f = f.Parent()
	}
	return false
}
