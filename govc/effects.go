package main

import (
	"fmt"
	"go/types"
	"strings"

	"golang.org/x/tools/go/ssa"
)

// Effects computes, for every in-repo function, a conservative set of heap keys it may write
// (directly, through in-repo callees, through interface calls that may dispatch into /repo,
// and through callbacks handed to external functions).

type Effects struct {
	P             *Program
	S             *Specs
	D             *Decls // only used for key naming
	Mods          map[*ssa.Function]map[string]bool
	PMods         map[*ssa.Function]map[int]map[string]bool // keys written on the object a parameter points to
	bySig         map[string][]*ssa.Function                // signature string -> address-taken in-repo functions
	impls         map[string][]*ssa.Function                // method name -> in-repo methods
	allocs        map[*ssa.Function]bool                    // function (transitively) allocates
	importClosure map[*types.Package]map[*types.Package]bool
	extMods       map[*ssa.Function]map[string]bool
	extPMods      map[*ssa.Function]map[int]map[string]bool
	allocators    map[*ssa.Function]int
	// FVMods: keys a closure writes directly through one of its free variables (the captured
	// variable itself). Whether such a write is visible outside depends on where the variable
	// lives: a local of the function that creates the closure is invisible to that function's
	// callers.
	FVMods map[*ssa.Function]map[int]map[string]bool
}

func typeName(t types.Type) string {
	return types.TypeString(t, func(p *types.Package) string { return shortName(p.Path()) })
}

func elemKeyName(d *Decls, t types.Type) string {
	if _, ok := t.Underlying().(*types.Struct); ok {
		return typeName(t)
	}
	return d.sortOf(t)
}

func (d *Decls) memKeyT(t types.Type) string {
	key := "M:" + elemKeyName(d, t)
	d.heapKeySort(key, fmt.Sprintf("(Array Ref (Array (_ BitVec 64) %s))", d.sortOf(t)))
	return key
}

func (d *Decls) cellKeyT(t types.Type) string {
	key := "C:" + elemKeyName(d, t)
	d.heapKeySort(key, fmt.Sprintf("(Array Ref %s)", d.sortOf(t)))
	return key
}

func (d *Decls) mapKeysT(kt, vt types.Type) (string, string, string) {
	n := elemKeyName(d, kt) + ":" + elemKeyName(d, vt)
	h, v, l := "MapHas:"+n, "MapVal:"+n, "MapLen:"+n
	d.heapKeySort(h, fmt.Sprintf("(Array Ref (Array %s Bool))", d.sortOf(kt)))
	d.heapKeySort(v, fmt.Sprintf("(Array Ref (Array %s %s))", d.sortOf(kt), d.sortOf(vt)))
	d.heapKeySort(l, "(Array Ref (_ BitVec 64))")
	return h, v, l
}

func derefStruct(t types.Type) (types.Type, *types.Struct) {
	if p, ok := t.Underlying().(*types.Pointer); ok {
		if s, ok := p.Elem().Underlying().(*types.Struct); ok {
			return p.Elem(), s
		}
	}
	return nil, nil
}

// storeKeys returns the heap keys a store through addr may write.
func storeKeys(d *Decls, addr ssa.Value) []string {
	switch a := addr.(type) {
	case *ssa.FieldAddr:
		// walk up nested FieldAddr chains to the outermost pointer
		cur := a
		for {
			if inner, ok := cur.X.(*ssa.FieldAddr); ok {
				cur = inner
				continue
			}
			if inner, ok := cur.X.(*ssa.IndexAddr); ok {
				return storeKeys(d, inner)
			}
			break
		}
		st, _ := derefStruct(cur.X.Type())
		if st == nil {
			return []string{"*"}
		}
		k, _ := d.fieldKey(st, cur.Field)
		return []string{k}
	case *ssa.IndexAddr:
		switch t := a.X.Type().Underlying().(type) {
		case *types.Slice:
			return []string{d.memKeyT(t.Elem())}
		case *types.Pointer:
			if arr, ok := t.Elem().Underlying().(*types.Array); ok {
				return []string{d.memKeyT(arr.Elem())}
			}
		}
		return []string{"*"}
	case *ssa.Global:
		return []string{d.globalKey(shortName(a.String()), d.sortOf(a.Type().(*types.Pointer).Elem()))}
	default:
		pt, ok := addr.Type().Underlying().(*types.Pointer)
		if !ok {
			return []string{"*"}
		}
		if st, ok := pt.Elem().Underlying().(*types.Struct); ok {
			var out []string
			for i := 0; i < st.NumFields(); i++ {
				k, _ := d.fieldKey(pt.Elem(), i)
				out = append(out, k)
			}
			return out
		}
		if arr, ok := pt.Elem().Underlying().(*types.Array); ok {
			return []string{d.memKeyT(arr.Elem())}
		}
		return []string{d.cellKeyT(pt.Elem())}
	}
}

func NewEffects(P *Program, S *Specs) *Effects {
	E := &Effects{P: P, S: S, D: NewDecls(), Mods: map[*ssa.Function]map[string]bool{}, PMods: map[*ssa.Function]map[int]map[string]bool{},
		bySig: map[string][]*ssa.Function{}, impls: map[string][]*ssa.Function{}, allocs: map[*ssa.Function]bool{}, FVMods: map[*ssa.Function]map[int]map[string]bool{}}
	for _, f := range P.AllFuncs {
		E.Mods[f] = map[string]bool{}
		E.PMods[f] = map[int]map[string]bool{}
		sig := f.Signature
		if sig.Recv() != nil {
			E.impls[f.Name()] = append(E.impls[f.Name()], f)
		}
		E.bySig[sigKey(sig)] = append(E.bySig[sigKey(sig)], f)
	}
	// direct effects
	for _, f := range P.AllFuncs {
		m := E.Mods[f]
		for _, b := range f.Blocks {
			for _, ins := range b.Instrs {
				switch x := ins.(type) {
				case *ssa.Store:
					if al, ok := x.Addr.(*ssa.Alloc); ok && !al.Heap {
						continue
					}
					if fv, ok := x.Addr.(*ssa.FreeVar); ok {
						for i, v := range f.FreeVars {
							if v == fv {
								if E.FVMods[f] == nil {
									E.FVMods[f] = map[int]map[string]bool{}
								}
								if E.FVMods[f][i] == nil {
									E.FVMods[f][i] = map[string]bool{}
								}
								for _, k := range storeKeys(E.D, x.Addr) {
									E.FVMods[f][i][k] = true
								}
							}
						}
						continue
					}
					cls, pi := E.classifyRoot(f, x.Addr)
					if cls == rootLocal {
						continue // initialisation of an object this function allocated
					}
					for _, k := range storeKeys(E.D, x.Addr) {
						if cls == rootParam && strings.HasPrefix(k, "F:") {
							E.addP(f, pi, k)
						} else {
							m[k] = true
						}
					}
				case *ssa.MapUpdate:
					mt := x.Map.Type().Underlying().(*types.Map)
					h, v, l := E.D.mapKeysT(mt.Key(), mt.Elem())
					m[h], m[v], m[l] = true, true, true
				case *ssa.Alloc, *ssa.MakeSlice, *ssa.MakeMap, *ssa.MakeClosure, *ssa.MakeInterface:
					m[liveKey] = true
				}
			}
		}
	}
	// ghost updates performed at return
	for _, f := range P.AllFuncs {
		if ct := S.Contracts[fnName(f)]; ct != nil {
			for _, gu := range ct.ReturnGhost {
				E.Mods[f]["G:"+gu.Field] = true
			}
		}
	}
	// propagate through calls to a fixpoint
	changed := true
	for changed {
		changed = false
		for _, f := range P.AllFuncs {
			m := E.Mods[f]
			for _, b := range f.Blocks {
				for _, ins := range b.Instrs {
					ci, ok := ins.(ssa.CallInstruction)
					if !ok {
						continue
					}
					whole, byArg := E.callEffects(ci, false)
					for k := range whole {
						if !m[k] {
							m[k] = true
							changed = true
						}
					}
					for ai, keys := range byArg {
						args := ci.Common().Args
						if ai >= len(args) {
							continue
						}
						cls, pj := E.classifyRoot(f, args[ai])
						for k := range keys {
							switch cls {
							case rootLocal:
							case rootParam:
								if !E.PMods[f][pj][k] {
									E.addP(f, pj, k)
									changed = true
								}
							default:
								if !m[k] {
									m[k] = true
									changed = true
								}
							}
						}
					}
				}
			}
		}
	}
	return E
}

func sigKey(sig *types.Signature) string {
	// parameters and results only (receiver excluded)
	return types.TypeString(types.NewSignatureType(nil, nil, nil, sig.Params(), sig.Results(), sig.Variadic()), nil)
}

// implementers returns the in-repo methods that an interface call may dispatch to.
func (E *Effects) implementers(c *ssa.CallCommon) []*ssa.Function {
	return E.implementersFrom(nil, c)
}

func (E *Effects) implementersFrom(caller *ssa.Function, c *ssa.CallCommon) []*ssa.Function {
	var out []*ssa.Function
	iface, _ := c.Value.Type().Underlying().(*types.Interface)
	for _, f := range E.impls[c.Method.Name()] {
		rt := f.Signature.Recv().Type()
		if !E.visibleFrom(caller, c.Value, rt) {
			continue
		}
		if iface == nil || types.Implements(rt, iface) {
			out = append(out, f)
		}
	}
	return out
}

// ifaceArgMods: an external function that receives an interface- or func-typed argument may call
// back into /repo through it.
// localOrigin reports whether an interface value was produced inside the current function by a call
// or a conversion (as opposed to flowing in through a parameter, a free variable or the heap).
func localOrigin(v ssa.Value) bool {
	switch x := v.(type) {
	case *ssa.Call, *ssa.MakeInterface, *ssa.MakeClosure, *ssa.Alloc:
		return true
	case *ssa.Extract:
		_, ok := x.Tuple.(*ssa.Call)
		return ok
	case *ssa.ChangeInterface:
		return localOrigin(x.X)
	case *ssa.ChangeType:
		return localOrigin(x.X)
	}
	return false
}

// visibleFrom: a dynamic type can only be created by code that can name it, so a value produced
// locally (by a call into packages the caller's package imports, transitively) cannot have a
// dynamic type defined in a /repo package outside that import closure.
func (E *Effects) visibleFrom(caller *ssa.Function, v ssa.Value, recv types.Type) bool {
	if caller == nil || !localOrigin(v) {
		return true
	}
	pkg := caller.Pkg
	for p := caller; pkg == nil && p != nil; p = p.Parent() {
		pkg = p.Pkg
	}
	if pkg == nil {
		return true
	}
	var tp *types.Package
	t := recv
	if pt, ok := t.(*types.Pointer); ok {
		t = pt.Elem()
	}
	if n, ok := types.Unalias(t).(*types.Named); ok && n.Obj() != nil {
		tp = n.Obj().Pkg()
	}
	if tp == nil {
		return true
	}
	return E.imports(pkg.Pkg, tp)
}

func (E *Effects) imports(from, to *types.Package) bool {
	if from == to {
		return true
	}
	if E.importClosure == nil {
		E.importClosure = map[*types.Package]map[*types.Package]bool{}
	}
	cl, ok := E.importClosure[from]
	if !ok {
		cl = map[*types.Package]bool{}
		var walk func(p *types.Package)
		walk = func(p *types.Package) {
			for _, q := range p.Imports() {
				if !cl[q] {
					cl[q] = true
					walk(q)
				}
			}
		}
		walk(from)
		E.importClosure[from] = cl
	}
	return cl[to]
}

func (E *Effects) callbackMods(args []ssa.Value, out map[string]bool) {
	E.callbackModsFrom(nil, args, out)
}

func (E *Effects) callbackModsFrom(caller *ssa.Function, args []ssa.Value, out map[string]bool) {
	for _, a := range args {
		switch t := a.Type().Underlying().(type) {
		case *types.Signature:
			if mc, ok := a.(*ssa.MakeClosure); ok {
				for k := range E.closureMods(caller, mc) {
					out[k] = true
				}
				continue
			}
			if fn, ok := a.(*ssa.Function); ok && E.Mods[fn] != nil {
				for k := range E.Mods[fn] {
					out[k] = true
				}
				continue
			}
			for _, f := range E.bySig[sigKey(t)] {
				for k := range E.modsAll(f) {
					out[k] = true
				}
			}
		case *types.Interface:
			if t.NumMethods() == 0 {
				continue
			}
			// concrete in-repo dynamic type known?
			var concrete types.Type
			if mi, ok := a.(*ssa.MakeInterface); ok {
				concrete = mi.X.Type()
			}
			for i := 0; i < t.NumMethods(); i++ {
				for _, f := range E.impls[t.Method(i).Name()] {
					rt := f.Signature.Recv().Type()
					if concrete != nil && !types.Identical(rt, concrete) {
						continue
					}
					if !E.visibleFrom(caller, a, rt) {
						continue
					}
					if types.Implements(rt, t) {
						for k := range E.Mods[f] {
							out[k] = true
						}
					}
				}
			}
		}
	}
}

// View: with useContracts == false the result is the effect as seen by the CALLERS of the function
// containing the call (writes to objects that function allocated itself, and ghost state of fresh
// objects, are left out); with useContracts == true it is the effect on the state INSIDE that
// function (loop havoc, executor), where those writes are visible.
// callMods returns the heap keys that a call may write. When useContracts is true, an explicit
// assigns clause on the callee's contract takes precedence over the computed set.
func (E *Effects) callMods(ci ssa.CallInstruction, useContracts bool) map[string]bool {
	out := map[string]bool{}
	c := ci.Common()
	name := calleeName(c)
	if ct := E.S.Contracts[name]; ct != nil && ct.HasAssign {
		plain := *ct
		plain.Assigns = nil
		ownership := false
		for _, a := range ct.Assigns {
			if strings.HasPrefix(strings.TrimSpace(a), "fields(") {
				ownership = true
			} else if !useContracts && E.ghostOfFreshObject(ci, ct, strings.TrimSpace(a)) {
				// ghost state of an object that did not exist before the caller started (the
				// call's own fresh result, or an argument the caller allocated): invisible to
				// the caller's callers
			} else {
				plain.Assigns = append(plain.Assigns, a)
			}
		}
		for _, k := range E.assignKeys(&plain, c) {
			out[k] = true
		}
		if ownership {
			// the keys the dynamic callee could write, as computed without the contract
			saved := E.S.Contracts[name]
			delete(E.S.Contracts, name)
			for k := range E.callMods(ci, useContracts) {
				out[k] = true
			}
			E.S.Contracts[name] = saved
		}
		if !ct.Pure {
			// allocation is always permitted
		}
		return out
	}
	caller := ci.Parent()
	if c.IsInvoke() {
		for _, f := range E.implementersFrom(caller, c) {
			for k := range E.Mods[f] {
				out[k] = true
			}
		}
		E.callbackModsFrom(caller, c.Args, out)
		out[liveKey] = true
		return out
	}
	switch v := c.Value.(type) {
	case *ssa.Builtin:
		switch v.Name() {
		case "append", "copy":
			if len(c.Args) > 0 {
				if st, ok := c.Args[0].Type().Underlying().(*types.Slice); ok {
					out[E.D.memKeyT(st.Elem())] = true
				}
			}
			out[liveKey] = true
		case "delete":
			mt := c.Args[0].Type().Underlying().(*types.Map)
			h, vk, l := E.D.mapKeysT(mt.Key(), mt.Elem())
			out[h], out[vk], out[l] = true, true, true
		}
		return out
	case *ssa.Function:
		if m, ok := E.Mods[v]; ok {
			for k := range m {
				out[k] = true
			}
			for ai, keys := range E.PMods[v] {
				if ai < len(c.Args) {
					if cls, _ := E.classifyRoot(ci.Parent(), c.Args[ai]); cls == rootLocal && !useContracts {
						continue
					}
				}
				for k := range keys {
					out[k] = true
				}
			}
			return out
		}
		// external (or generated) function: callbacks can touch /repo state, and a function that
		// the generator inlines writes whatever its body writes
		em, pm := E.inlinableEffects(v, 0)
		for k := range em {
			out[k] = true
		}
		for ai, keys := range pm {
			if ai < len(c.Args) {
				if cls, _ := E.classifyRoot(ci.Parent(), c.Args[ai]); cls == rootLocal && !useContracts {
					continue
				}
			}
			for k := range keys {
				out[k] = true
			}
		}
		E.callbackModsFrom(ci.Parent(), c.Args, out)
		out[liveKey] = true
		return out
	case *ssa.MakeClosure:
		if useContracts {
			for k := range E.modsAll(v.Fn.(*ssa.Function)) {
				out[k] = true
			}
			return out
		}
		for k := range E.closureMods(ci.Parent(), v) {
			out[k] = true
		}
		return out
	default:
		// dynamic call of a func value
		if sig, ok := c.Value.Type().Underlying().(*types.Signature); ok {
			for _, f := range E.bySig[sigKey(sig)] {
				for k := range E.modsAll(f) {
					out[k] = true
				}
			}
		}
		E.callbackModsFrom(ci.Parent(), c.Args, out)
		out[liveKey] = true
		return out
	}
}

// assignKeys resolves the assigns clause of a contract to heap keys, using the callee's
// signature for the types of the named parameters.
func (E *Effects) assignKeys(ct *Contract, c *ssa.CallCommon) []string {
	var sig *types.Signature
	if c != nil {
		sig = c.Signature()
		if c.IsInvoke() {
			sig = c.Method.Type().(*types.Signature)
		}
	}
	return resolveAssignKeys(E.D, E.P, E.S, ct, sig)
}

func resolveAssignKeys(d *Decls, P *Program, S *Specs, ct *Contract, sig *types.Signature) []string {
	var out []string
	ptypes := map[string]types.Type{}
	if sig != nil {
		if r := sig.Recv(); r != nil {
			ptypes["recv"] = r.Type()
			if r.Name() != "" {
				ptypes[r.Name()] = r.Type()
			}
		}
		for i := 0; i < sig.Params().Len(); i++ {
			p := sig.Params().At(i)
			n := p.Name()
			if i < len(ct.Params) {
				n = ct.Params[i]
			}
			if n == "" || n == "_" {
				n = fmt.Sprintf("a%d", i)
			}
			ptypes[n] = p.Type()
		}
	}
	for _, a := range ct.Assigns {
		a = strings.TrimSpace(a)
		switch {
		case a == "*":
			out = append(out, "*")
		case strings.HasPrefix(a, "key:"):
			out = append(out, strings.TrimPrefix(a, "key:"))
		case strings.HasPrefix(a, "mem(") && strings.HasSuffix(a, ")"):
			n := strings.TrimSuffix(strings.TrimPrefix(a, "mem("), ")")
			t := ptypes[n]
			if t == nil {
				if bt := basicTypeByName(n); bt != nil {
					out = append(out, d.memKeyT(bt))
					continue
				}
				out = append(out, "*")
				continue
			}
			if st, ok := t.Underlying().(*types.Slice); ok {
				out = append(out, d.memKeyT(st.Elem()))
			} else {
				out = append(out, "*")
			}
		case strings.Contains(a, "(") && strings.HasSuffix(a, ")"):
			n := a[:strings.Index(a, "(")]
			if _, ok := S.GhostFields[n]; ok {
				out = append(out, "G:"+n)
			} else {
				out = append(out, "*")
			}
		case strings.Contains(a, "."):
			// x.f[.g]  with x a parameter; or Type.f with Type a named in-repo struct type
			parts := strings.Split(a, ".")
			t := ptypes[parts[0]]
			if t == nil {
				// "pkg.Type.field" or "Type.field"
				if nt := lookupNamedType(P, strings.Join(parts[:len(parts)-1], ".")); nt != nil {
					if st, ok := nt.Underlying().(*types.Struct); ok {
						for i := 0; i < st.NumFields(); i++ {
							if st.Field(i).Name() == parts[len(parts)-1] {
								k, _ := d.fieldKey(nt, i)
								out = append(out, k)
							}
						}
						continue
					}
				}
				out = append(out, "*")
				continue
			}
			k := fieldPathKey(d, t, parts[1:])
			out = append(out, k)
		default:
			if _, ok := S.GhostVars[a]; ok {
				out = append(out, "GV:"+a)
			} else {
				out = append(out, "*")
			}
		}
	}
	return out
}

func basicTypeByName(n string) types.Type {
	switch n {
	case "byte", "uint8":
		return types.Typ[types.Uint8]
	case "int":
		return types.Typ[types.Int]
	case "int64":
		return types.Typ[types.Int64]
	case "uint64":
		return types.Typ[types.Uint64]
	}
	return nil
}

// fieldPathKey follows x.f.g through embedded/pointer fields and returns the heap key of the
// last pointer-held field on the path.
func fieldPathKey(d *Decls, t types.Type, path []string) string {
	key := "*"
	cur := t
	for _, fname := range path {
		obj, idx, _ := types.LookupFieldOrMethod(cur, true, nil, fname)
		if obj == nil {
			// unexported field of another package: look it up by name
			obj, idx = lookupFieldByName(cur, fname)
			if obj == nil {
				return "*"
			}
		}
		for _, i := range idx {
			if st, _ := derefStruct(cur); st != nil {
				key, _ = d.fieldKey(st, i)
				cur = st.Underlying().(*types.Struct).Field(i).Type()
			} else if s, ok := cur.Underlying().(*types.Struct); ok {
				// struct value nested in the previous key: key unchanged
				cur = s.Field(i).Type()
			} else {
				return "*"
			}
		}
	}
	return key
}

func lookupFieldByName(t types.Type, name string) (types.Object, []int) {
	var st *types.Struct
	if _, s := derefStruct(t); s != nil {
		st = s
	} else if s, ok := t.Underlying().(*types.Struct); ok {
		st = s
	}
	if st == nil {
		return nil, nil
	}
	for i := 0; i < st.NumFields(); i++ {
		if st.Field(i).Name() == name {
			return st.Field(i), []int{i}
		}
	}
	// one level of embedding
	for i := 0; i < st.NumFields(); i++ {
		if st.Field(i).Embedded() {
			if o, idx := lookupFieldByName(st.Field(i).Type(), name); o != nil {
				return o, append([]int{i}, idx...)
			}
		}
	}
	return nil, nil
}

// lookupNamedType resolves "file.shardNodeReader" / "data/builder.shard" / "shard".
func lookupNamedType(P *Program, name string) types.Type {
	name = strings.TrimPrefix(name, "*")
	pkgPart, typePart := "", name
	if i := strings.LastIndex(name, "."); i >= 0 {
		pkgPart, typePart = name[:i], name[i+1:]
	}
	var found types.Type
	for _, sp := range P.Prog.AllPackages() {
		p := sp.Pkg
		sn := shortName(p.Path())
		if pkgPart != "" && sn != pkgPart && p.Name() != pkgPart && p.Path() != pkgPart {
			continue
		}
		if pkgPart == "" && !inRepoPkg(p) {
			continue
		}
		if o := p.Scope().Lookup(typePart); o != nil {
			if tn, ok := o.(*types.TypeName); ok {
				if found == nil || inRepoPkg(p) {
					found = tn.Type()
				}
			}
		}
	}
	return found
}

func storeBaseIsLocalAlloc(addr ssa.Value) bool {
	for {
		switch a := addr.(type) {
		case *ssa.FieldAddr:
			addr = a.X
		case *ssa.IndexAddr:
			if _, ok := a.X.Type().Underlying().(*types.Pointer); ok {
				addr = a.X
			} else {
				return false
			}
		case *ssa.Alloc:
			return true
		default:
			return false
		}
	}
}

// modsOfFn resolves bound-method wrappers and thunks to the method they wrap.
// contractFreshResult: the contract promises a fresh result ("fresh" directive or an ensures clause
// containing fresh(result)).
func contractFreshResult(ct *Contract) bool {
	if ct == nil {
		return false
	}
	if ct.Fresh {
		return true
	}
	for _, e := range ct.Ensures {
		if strings.Contains(e.Src, "fresh(result)") {
			return true
		}
	}
	return false
}

// ghostOfFreshObject: assigns entry "g(x)" of the callee's contract where x is the call's fresh
// result, or a receiver/argument that the calling function allocated itself.
func (E *Effects) ghostOfFreshObject(ci ssa.CallInstruction, ct *Contract, a string) bool {
	i := strings.Index(a, "(")
	if i <= 0 || !strings.HasSuffix(a, ")") {
		return false
	}
	if _, ok := E.S.GhostFields[a[:i]]; !ok {
		return false
	}
	x := strings.TrimSpace(a[i+1 : len(a)-1])
	c := ci.Common()
	if x == "result" || x == "result0" {
		return contractFreshResult(ct)
	}
	var actual ssa.Value
	sig := c.Signature()
	if c.IsInvoke() {
		sig = c.Method.Type().(*types.Signature)
		if x == "recv" {
			actual = c.Value
		}
		for j, n := range paramNames(ct, sig) {
			if n == x && j < len(c.Args) {
				actual = c.Args[j]
			}
		}
	} else {
		off := 0
		if sig.Recv() != nil {
			off = 1
			if (x == "recv" || x == sig.Recv().Name()) && len(c.Args) > 0 {
				actual = c.Args[0]
			}
		}
		for j, n := range paramNames(ct, sig) {
			if n == x && j+off < len(c.Args) {
				actual = c.Args[j+off]
			}
		}
	}
	if actual == nil || ci.Parent() == nil {
		return false
	}
	cls, _ := E.classifyRoot(ci.Parent(), actual)
	return cls == rootLocal
}

// closureMods: what calling (or handing out) the closure mc, created in caller, may write: the
// closure function's own effects plus its writes to captured variables that are not locals of the
// creating function.
func (E *Effects) closureMods(caller *ssa.Function, mc *ssa.MakeClosure) map[string]bool {
	g := mc.Fn.(*ssa.Function)
	out := map[string]bool{}
	for k := range E.modsOfFn(g) {
		out[k] = true
	}
	for i, keys := range E.FVMods[g] {
		if i < len(mc.Bindings) {
			if al, ok := mc.Bindings[i].(*ssa.Alloc); ok && al.Parent() == caller {
				continue
			}
		}
		for k := range keys {
			out[k] = true
		}
	}
	return out
}

// localClosureFVKeys: the captured-variable cells that closures handed to (or invoked by) this call
// may write. Inside the function that owns those variables the writes are visible, so the executor
// havocs these keys at the call even though they are not part of the function's own effect.
func (E *Effects) localClosureFVKeys(ci ssa.CallInstruction) map[string]bool {
	out := map[string]bool{}
	add := func(v ssa.Value) {
		if mc, ok := v.(*ssa.MakeClosure); ok {
			for _, keys := range E.FVMods[mc.Fn.(*ssa.Function)] {
				for k := range keys {
					out[k] = true
				}
			}
		}
	}
	c := ci.Common()
	add(c.Value)
	for _, a := range c.Args {
		add(a)
	}
	return out
}

// modsAll: effects of a function reached without its creation site in view (dynamic call).
func (E *Effects) modsAll(f *ssa.Function) map[string]bool {
	if len(E.FVMods[f]) == 0 {
		return E.Mods[f]
	}
	out := map[string]bool{}
	for k := range E.Mods[f] {
		out[k] = true
	}
	for _, keys := range E.FVMods[f] {
		for k := range keys {
			out[k] = true
		}
	}
	return out
}

func (E *Effects) modsOfFn(f *ssa.Function) map[string]bool {
	if m, ok := E.Mods[f]; ok {
		return m
	}
	if obj, ok := f.Object().(*types.Func); ok {
		if t := E.P.Prog.FuncValue(obj); t != nil {
			if m, ok := E.Mods[t]; ok {
				return m
			}
		}
	}
	return nil
}

// inlinableEffects scans the body of a dependency / generated function that may be inlined at its
// call sites (see shouldInline) for the heap keys it writes, following static callees; writes to
// the object a parameter points to are reported per parameter.
func (E *Effects) inlinableEffects(f *ssa.Function, depth int) (map[string]bool, map[int]map[string]bool) {
	if E.extMods == nil {
		E.extMods = map[*ssa.Function]map[string]bool{}
		E.extPMods = map[*ssa.Function]map[int]map[string]bool{}
	}
	if m, ok := E.extMods[f]; ok {
		return m, E.extPMods[f]
	}
	m := map[string]bool{}
	pm := map[int]map[string]bool{}
	E.extMods[f] = m
	E.extPMods[f] = pm
	if depth > 4 {
		return m, pm
	}
	pkg := f.Pkg
	if pkg == nil && f.Object() != nil && f.Object().Pkg() != nil {
		pkg = E.P.Prog.Package(f.Object().Pkg())
	}
	if pkg == nil {
		return m, pm
	}
	if !autoInlinePkgs[pkg.Pkg.Path()] && !(inRepoPkg(pkg.Pkg)) {
		return m, pm
	}
	if f.Blocks == nil {
		pkg.Build()
	}
	addP := func(i int, k string) {
		if pm[i] == nil {
			pm[i] = map[string]bool{}
		}
		pm[i][k] = true
	}
	for _, b := range f.Blocks {
		for _, ins := range b.Instrs {
			switch x := ins.(type) {
			case *ssa.Store:
				cls, pi := E.classifyRoot(f, x.Addr)
				if cls == rootLocal {
					continue
				}
				for _, k := range storeKeys(E.D, x.Addr) {
					if cls == rootParam && strings.HasPrefix(k, "F:") {
						addP(pi, k)
					} else {
						m[k] = true
					}
				}
			case *ssa.MapUpdate:
				mt := x.Map.Type().Underlying().(*types.Map)
				h, v, l := E.D.mapKeysT(mt.Key(), mt.Elem())
				m[h], m[v], m[l] = true, true, true
			case ssa.CallInstruction:
				if cf, ok := x.Common().Value.(*ssa.Function); ok {
					cm, cpm := E.inlinableEffects(cf, depth+1)
					for k := range cm {
						m[k] = true
					}
					for ai, keys := range cpm {
						args := x.Common().Args
						cls, pj := rootUnknown, 0
						if ai < len(args) {
							cls, pj = E.classifyRoot(f, args[ai])
						}
						for k := range keys {
							switch cls {
							case rootLocal:
							case rootParam:
								addP(pj, k)
							default:
								m[k] = true
							}
						}
					}
				}
			}
		}
	}
	return m, pm
}

const (
	rootUnknown = iota
	rootLocal
	rootParam
)

func (E *Effects) addP(f *ssa.Function, i int, k string) {
	if E.PMods[f] == nil {
		E.PMods[f] = map[int]map[string]bool{}
	}
	if E.PMods[f][i] == nil {
		E.PMods[f][i] = map[string]bool{}
	}
	E.PMods[f][i][k] = true
}

// classifyRoot finds the object an address (or pointer argument) designates: an object this function
// allocated (directly or through a call to a function that returns a fresh allocation), the object
// one of its parameters points to, or something else.
func (E *Effects) classifyRoot(f *ssa.Function, v ssa.Value) (int, int) {
	for n := 0; n < 32; n++ {
		switch a := v.(type) {
		case *ssa.FieldAddr:
			v = a.X
		case *ssa.IndexAddr:
			if _, ok := a.X.Type().Underlying().(*types.Pointer); ok {
				v = a.X
			} else {
				return rootUnknown, 0
			}
		case *ssa.Alloc:
			return rootLocal, 0
		case *ssa.Parameter:
			for i, p := range f.Params {
				if p == a {
					return rootParam, i
				}
			}
			return rootUnknown, 0
		case *ssa.Call:
			if cf, ok := a.Call.Value.(*ssa.Function); ok && E.isAllocator(cf) {
				return rootLocal, 0
			}
			if contractFreshResult(E.S.Contracts[calleeName(&a.Call)]) {
				return rootLocal, 0
			}
			return rootUnknown, 0
		case *ssa.ChangeType:
			v = a.X
		default:
			return rootUnknown, 0
		}
	}
	return rootUnknown, 0
}

// isAllocator: every return of the function yields an object the function itself allocated.
func (E *Effects) isAllocator(f *ssa.Function) bool {
	if E.allocators == nil {
		E.allocators = map[*ssa.Function]int{}
	}
	if r, ok := E.allocators[f]; ok {
		return r == 1
	}
	E.allocators[f] = 2
	if f.Blocks == nil {
		pkg := f.Pkg
		if pkg == nil && f.Object() != nil && f.Object().Pkg() != nil {
			pkg = E.P.Prog.Package(f.Object().Pkg())
		}
		if pkg != nil && (autoInlinePkgs[pkg.Pkg.Path()] || inRepoPkg(pkg.Pkg)) {
			pkg.Build()
		}
	}
	if f.Blocks == nil || f.Signature.Results().Len() == 0 {
		return false
	}
	ok := true
	seen := false
	for _, b := range f.Blocks {
		for _, ins := range b.Instrs {
			if r, isRet := ins.(*ssa.Return); isRet {
				seen = true
				v := r.Results[0]
				if mi, isMI := v.(*ssa.MakeInterface); isMI {
					v = mi.X
				}
				switch x := v.(type) {
				case *ssa.Alloc:
				case *ssa.Call:
					if cf, isF := x.Call.Value.(*ssa.Function); !isF || !E.isAllocator(cf) {
						ok = false
					}
				default:
					ok = false
				}
			}
		}
	}
	if ok && seen {
		E.allocators[f] = 1
		return true
	}
	return false
}

// callEffects: the keys a call may write, split into those written on arbitrary objects and those
// written on the object a particular argument points to (struct fields only).
func (E *Effects) callEffects(ci ssa.CallInstruction, useContracts bool) (map[string]bool, map[int]map[string]bool) {
	c := ci.Common()
	name := calleeName(c)
	if ct := E.S.Contracts[name]; ct != nil && ct.HasAssign {
		return E.callMods(ci, useContracts), nil
	}
	if c.IsInvoke() {
		return E.callMods(ci, useContracts), nil
	}
	switch v := c.Value.(type) {
	case *ssa.Function:
		if m, ok := E.Mods[v]; ok {
			whole := map[string]bool{}
			for k := range m {
				whole[k] = true
			}
			return whole, E.PMods[v]
		}
		whole := map[string]bool{}
		em, pm := E.inlinableEffects(v, 0)
		for k := range em {
			whole[k] = true
		}
		E.callbackModsFrom(ci.Parent(), c.Args, whole)
		whole[liveKey] = true
		return whole, pm
	}
	return E.callMods(ci, useContracts), nil
}
