package main

import (
	"fmt"
	"go/constant"
	"go/token"
	"go/types"
	"math/big"
	"sort"
	"strings"

	"golang.org/x/tools/go/ssa"
)

// ---------------------------------------------------------------------------------------
// Obligations and script items

type Obligation struct {
	Name   string   `json:"name"`
	Kind   string   `json:"kind"`
	Fn     string   `json:"fn"`
	Desc   string   `json:"desc,omitempty"`
	Props  []string `json:"props,omitempty"`
	Strong bool     `json:"strong"`
	Status string   `json:"status"`
	Solver string   `json:"solver,omitempty"`
	Secs   float64  `json:"secs"`
	Model  string   `json:"model,omitempty"`
	Pos    string   `json:"pos,omitempty"`

	guard, cond string
	item        int
	gen         *FnGen // the generator that owns it (for a second solving attempt)
	extras      []string
}

const (
	itDef = iota
	itAssume
	itOblig
	itCover
)

// Cover is a reachability query: the guard must be satisfiable together with everything assumed
// so far, otherwise the assumptions are contradictory (vacuity).
type Cover struct {
	Name   string
	Status string // "sat" (reachable), "unsat" (unreachable), "unknown"
	item   int
}

type Item struct {
	Kind   int
	Text   string
	Guard  string
	Fact   string
	Ob     *Obligation
	Origin string
	Extras []string
}

type loopInfo struct {
	header  *ssa.BasicBlock
	blocks  map[*ssa.BasicBlock]bool
	ordinal int
	mods    map[string]bool
	backs   []*ssa.BasicBlock
}

type retInfo struct {
	block   *ssa.BasicBlock
	idx     int
	pos     token.Pos
	guard   string
	results []Val
	st      State
}

type FnGen struct {
	P  *Program
	S  *Specs
	E  *Effects
	D  *Decls
	fn *ssa.Function
	C  *Contract

	name   string
	items  []Item
	obs    []*Obligation
	vals   map[ssa.Value]Val
	tuples map[ssa.Value][]Val

	blockGuard  map[*ssa.BasicBlock]string
	exitState   map[*ssa.BasicBlock]State
	edgeCond    map[[2]*ssa.BasicBlock]string
	loops       map[*ssa.BasicBlock]*loopInfo
	entrySt     State
	env         map[string]Val // parameter environment for contract expressions
	rets        []retInfo
	siteNames   map[ssa.Instruction]string
	callOrd     map[ssa.Instruction]int
	siteApplied map[string]int // "#0" at-call assertions: number of sites each applied to
	defers      []*ssa.Defer

	outOfSubset     []string
	assumptions     map[string]bool
	usedExtern      map[string]bool
	defaultPure     map[string]bool
	sweep           bool // zero-annotation mode: missing invariants default to true
	curBlock        *ssa.BasicBlock
	curGuard        string
	st              State
	entryVals       map[string]string // decreases measure at entry
	ghostLocals     map[string]Val
	qfacts          []QFact
	sumUnfolded     map[string]bool
	acquired        map[string]State  // monitor owner term -> state right after its mutex was acquired
	acquiredType    map[string]string // monitor owner term -> its struct type name
	autoInvs        map[*ssa.BasicBlock][]autoInv
	loopTypeInvObjs map[*ssa.BasicBlock][]Val

	ownAllocs map[string][]ownAlloc // type name -> objects allocated here (invariant not yet assumed)
	dirty     map[string][]dirtyObj // type name -> pre-existing objects whose invariant fields were written

	domainTerm string         // the contract's domain predicate at entry ("" if none)
	locals     map[string]Val // source-level locals (from DebugRef), latest value seen
	localDefs  map[string][]localDef
	curIdx     int
	obNames    map[string]int
	cellVars   map[string]Val // source variables that live in heap cells (captured by closures)
	allAllocs  []string
	heapDefs   map[string][3]string
	heapItes   map[string][3]string
	allocSet   map[string]bool
	paramSet   map[string]bool
	covers     []*Cover

	parent      *FnGen // non-nil while symbolically executing an inlined callee
	labelPrefix string
	entryGuard  string
	depth       int
	inlined     map[string]bool
}

func (g *FnGen) root() *FnGen {
	r := g
	for r.parent != nil {
		r = r.parent
	}
	return r
}

func NewFnGen(P *Program, S *Specs, E *Effects, fn *ssa.Function) *FnGen {
	g := &FnGen{P: P, S: S, E: E, D: NewDecls(), fn: fn, name: fnName(fn),
		vals: map[ssa.Value]Val{}, tuples: map[ssa.Value][]Val{},
		blockGuard: map[*ssa.BasicBlock]string{}, exitState: map[*ssa.BasicBlock]State{},
		edgeCond: map[[2]*ssa.BasicBlock]string{}, loops: map[*ssa.BasicBlock]*loopInfo{},
		env: map[string]Val{}, siteNames: map[ssa.Instruction]string{}, callOrd: map[ssa.Instruction]int{},
		assumptions: map[string]bool{}, usedExtern: map[string]bool{}, defaultPure: map[string]bool{}, autoInvs: map[*ssa.BasicBlock][]autoInv{}, loopTypeInvObjs: map[*ssa.BasicBlock][]Val{}, entryGuard: "true", inlined: map[string]bool{}, ownAllocs: map[string][]ownAlloc{}, dirty: map[string][]dirtyObj{}, sumUnfolded: map[string]bool{}}
	g.C = S.Contracts[g.name]
	g.D.ensureLive()
	return g
}

func (g *FnGen) emitDef(text string) {
	r := g.root()
	r.items = append(r.items, Item{Kind: itDef, Text: text})
}

func (g *FnGen) def(prefix, sort, term string) string {
	n := g.D.fresh(prefix)
	g.emitDef(fmt.Sprintf("(define-fun %s () %s %s)", n, sort, term))
	if strings.HasPrefix(term, "(ite ") && strings.HasPrefix(sort, "(Array Ref") {
		r := g.root()
		if r.heapItes == nil {
			r.heapItes = map[string][3]string{}
		}
		if c, a, b, ok := splitStore("(store " + term[5:]); ok {
			r.heapItes[n] = [3]string{c, a, b}
		}
	}
	if strings.HasPrefix(term, "(store ") {
		r := g.root()
		if r.heapDefs == nil {
			r.heapDefs = map[string][3]string{}
		}
		if a, i, v, ok := splitStore(term); ok {
			r.heapDefs[n] = [3]string{a, i, v}
		}
	}
	return n
}

// splitStore parses "(store A I V)" into its three top-level arguments.
func splitStore(t string) (string, string, string, bool) {
	if !strings.HasPrefix(t, "(store ") || !strings.HasSuffix(t, ")") {
		return "", "", "", false
	}
	body := t[7 : len(t)-1]
	var parts []string
	depth, start := 0, 0
	for i := 0; i < len(body); i++ {
		switch body[i] {
		case '(':
			depth++
		case ')':
			depth--
		case ' ':
			if depth == 0 {
				parts = append(parts, body[start:i])
				start = i + 1
			}
		}
	}
	parts = append(parts, body[start:])
	if len(parts) != 3 {
		return "", "", "", false
	}
	return parts[0], parts[1], parts[2], true
}

// hsel is select with store-forwarding through the heap versions this generator defined: reading
// the index that was just written yields the written value, and a freshly allocated reference is
// known to differ from every other allocation and from the parameters.
func (g *FnGen) hsel(arr, idx string) string {
	r := g.root()
	for n := 0; n < 64; n++ {
		if it, ok := r.heapItes[arr]; ok {
			a, b := g.hsel(it[1], idx), g.hsel(it[2], idx)
			return ite(it[0], a, b)
		}
		d, ok := r.heapDefs[arr]
		if !ok {
			break
		}
		if d[1] == idx {
			return d[2]
		}
		if !r.knownDistinct(d[1], idx) {
			break
		}
		arr = d[0]
	}
	return sel(arr, idx)
}

func (g *FnGen) knownDistinct(a, b string) bool {
	if a == b {
		return false
	}
	ia, ib := g.allocSet[a], g.allocSet[b]
	if ia && ib {
		return true
	}
	if (ia && g.paramSet[b]) || (ib && g.paramSet[a]) {
		return true
	}
	return false
}

func (g *FnGen) freshConst(prefix, sort string) string {
	n := g.D.fresh(prefix)
	g.emitDef(fmt.Sprintf("(declare-const %s %s)", n, sort))
	return n
}

func (g *FnGen) assume(guard, fact, origin string) {
	if fact == "true" {
		return
	}
	r := g.root()
	r.items = append(r.items, Item{Kind: itAssume, Guard: guard, Fact: fact, Origin: origin})
}

var strongKinds = map[string]bool{
	"index": true, "slice": true, "div": true, "extern-requires": true, "panic": true, "requires": true,
	"ensures": true, "subtype": true, "invariant-entry": true, "invariant-preserved": true, "decreases": true,
	"assert": true, "assigns": true, "make": true, "shift": true, "nil-map": true, "lemma": true, "typeinv": true,
	"shared-write": true, "lockinv": true, "nil-result": true,
}

// nilKind classifies a nil-dereference site by where the pointer comes from. A value that a callee
// of this very function handed back (directly, as one of several results, converted, or merged
// with other such values) and that is used without a nil test is claimed ("nil-result": the code
// itself decides whether it checks what it was given back); receivers, parameters, fields and
// globals are not (no nil-ness discipline is specified for this code base: kind "nil", reported
// but unclaimed).
func nilKind(v ssa.Value) string {
	seen := map[ssa.Value]bool{}
	var fromCall func(v ssa.Value) bool
	fromCall = func(v ssa.Value) bool {
		if seen[v] {
			return false
		}
		seen[v] = true
		switch x := v.(type) {
		case *ssa.Call:
			_, isBuiltin := x.Call.Value.(*ssa.Builtin)
			return !isBuiltin
		case *ssa.Extract:
			return fromCall(x.Tuple)
		case *ssa.ChangeType:
			return fromCall(x.X)
		case *ssa.ChangeInterface:
			return fromCall(x.X)
		case *ssa.MakeInterface:
			return fromCall(x.X)
		case *ssa.Phi:
			for _, e := range x.Edges {
				if fromCall(e) {
					return true
				}
			}
		}
		return false
	}
	if fromCall(v) {
		return "nil-result"
	}
	return "nil"
}

var functionalKinds = map[string]bool{"ensures": true, "subtype": true, "invariant-entry": true, "invariant-preserved": true,
	"assert": true, "decreases": true, "requires": true, "typeinv": true, "lockinv": true}

func (g *FnGen) oblige(kind, label, guard, cond, desc string, pos token.Pos) *Obligation {
	r := g.root()
	label = g.labelPrefix + label
	ob := &Obligation{Name: r.name + "/" + kind + "/" + label, Kind: kind, Fn: r.name, Desc: desc,
		guard: guard, cond: cond, Strong: strongKinds[kind], item: len(r.items), gen: r}
	if r.C != nil {
		ob.Props = r.C.Props
	}
	if pos.IsValid() {
		p := g.P.Prog.Fset.Position(pos)
		ob.Pos = fmt.Sprintf("%s:%d", strings.TrimPrefix(p.Filename, g.P.RepoDir+"/"), p.Line)
	}
	var domExtras []string
	if r.domainTerm != "" && functionalKinds[kind] {
		domExtras = []string{r.domainTerm}
	}
	if r.obNames == nil {
		r.obNames = map[string]int{}
	}
	r.obNames[ob.Name]++
	if n := r.obNames[ob.Name]; n > 1 {
		ob.Name = fmt.Sprintf("%s~%d", ob.Name, n)
	}
	ob.extras = domExtras
	r.items = append(r.items, Item{Kind: itOblig, Guard: guard, Fact: cond, Ob: ob, Extras: domExtras})
	r.obs = append(r.obs, ob)
	return ob
}

// ---------------------------------------------------------------------------------------
// helpers on terms

func and(xs ...string) string {
	var ys []string
	for _, x := range xs {
		if x == "true" || x == "" {
			continue
		}
		if x == "false" {
			return "false"
		}
		ys = append(ys, x)
	}
	switch len(ys) {
	case 0:
		return "true"
	case 1:
		return ys[0]
	}
	return "(and " + strings.Join(ys, " ") + ")"
}

func or(xs ...string) string {
	var ys []string
	for _, x := range xs {
		if x == "false" || x == "" {
			continue
		}
		if x == "true" {
			return "true"
		}
		ys = append(ys, x)
	}
	switch len(ys) {
	case 0:
		return "false"
	case 1:
		return ys[0]
	}
	return "(or " + strings.Join(ys, " ") + ")"
}

func not(x string) string {
	switch x {
	case "true":
		return "false"
	case "false":
		return "true"
	}
	return "(not " + x + ")"
}

func implies(a, b string) string {
	if a == "true" {
		return b
	}
	if b == "true" {
		return "true"
	}
	return "(=> " + a + " " + b + ")"
}

func ite(c, a, b string) string {
	if c == "true" {
		return a
	}
	if c == "false" {
		return b
	}
	if a == b {
		return a
	}
	return "(ite " + c + " " + a + " " + b + ")"
}

func sel(arr, idx string) string { return "(select " + arr + " " + idx + ")" }
func store(arr, idx, v string) string {
	return "(store " + arr + " " + idx + " " + v + ")"
}

// convInt converts a BV term between widths.
func convInt(t string, fromW, toW int, signed bool) string {
	switch {
	case fromW == toW:
		return t
	case fromW > toW:
		return fmt.Sprintf("((_ extract %d 0) %s)", toW-1, t)
	case signed:
		return fmt.Sprintf("((_ sign_extend %d) %s)", toW-fromW, t)
	default:
		return fmt.Sprintf("((_ zero_extend %d) %s)", toW-fromW, t)
	}
}

// to64 converts an integer Val to a signed 64-bit index term.
func to64(v Val) string {
	return convInt(v.T, bvWidth(v.S), 64, v.Signed)
}

func (g *FnGen) mkVal(t string, goT types.Type) Val {
	return Val{T: t, S: g.D.sortOf(goT), Go: goT, Signed: isSigned(goT)}
}

// wfFacts returns type-level facts that hold for every value of the given type.
func (g *FnGen) wfFacts(v Val) string {
	switch v.S {
	case sortSlice:
		return and(
			fmt.Sprintf("(bvsle (_ bv0 64) (s_len %s))", v.T),
			fmt.Sprintf("(bvsle (s_len %s) (s_cap %s))", v.T, v.T),
			fmt.Sprintf("(bvsle (_ bv0 64) (s_off %s))", v.T),
			fmt.Sprintf("(bvsle (s_cap %s) (_ bv%d 64))", v.T, int64(1)<<56),
			fmt.Sprintf("(bvsle (s_off %s) (_ bv%d 64))", v.T, int64(1)<<56),
			fmt.Sprintf("(=> (= (s_base %s) nil) (= (s_cap %s) (_ bv0 64)))", v.T, v.T),
		)
	case sortStr:
		return and(fmt.Sprintf("(bvsle (_ bv0 64) (slen %s))", v.T),
			fmt.Sprintf("(bvsle (slen %s) (_ bv%d 64))", v.T, int64(1)<<56))
	}
	return "true"
}

func (g *FnGen) liveFact(st State, v Val) string {
	switch v.S {
	case sortRef:
		return sel(g.D.get(st, liveKey), v.T)
	case sortSlice:
		return sel(g.D.get(st, liveKey), "(s_base "+v.T+")")
	}
	return "true"
}

// freshVal declares an unconstrained value of a Go type (with its type-level facts assumed).
func (g *FnGen) freshVal(prefix string, t types.Type, guard string) Val {
	if tup, ok := t.(*types.Tuple); ok {
		_ = tup
		panic("freshVal on tuple")
	}
	v := g.mkVal(g.freshConst(prefix, g.D.sortOf(t)), t)
	g.assume("true", g.wfFacts(v), "type")
	g.assume(guard, g.liveFact(g.st, v), "live")
	g.assumeTypeInv(v, guard)
	return v
}

// ---------------------------------------------------------------------------------------
// Type invariants ("typeinv pkg.T: expr over self"): assumed for every non-nil *T that was not
// allocated by the function itself; checked at every return for the objects the function
// allocated or whose invariant fields it wrote.

type ownAlloc struct{ term, guard string }

type dirtyObj struct {
	v     Val
	guard string
}

func typeInvName(t types.Type) string {
	if t == nil {
		return ""
	}
	p, ok := t.Underlying().(*types.Pointer)
	if !ok {
		return ""
	}
	if _, ok := p.Elem().Underlying().(*types.Struct); !ok {
		return ""
	}
	return typeName(p.Elem())
}

// typeInvTerm is the quantifier-free part of the invariant (clauses with an unbounded quantifier
// are handled clause by clause through assumeTypeInvAt / obligeTypeInv).
func (g *FnGen) typeInvTerm(v Val, st State) string {
	tn := typeInvName(v.Go)
	invs := g.S.TypeInvs[tn]
	if len(invs) == 0 {
		return ""
	}
	var parts []string
	for _, c := range invs {
		if hasUnboundedQuant(c.E) {
			continue
		}
		ctx := &EvalCtx{g: g, env: map[string]Val{"self": v}, st: st, oldSt: st}
		parts = append(parts, g.evalBool(c.E, ctx))
	}
	return and(parts...)
}

func hasUnboundedQuant(e Expr) bool {
	switch x := e.(type) {
	case EForall:
		return x.Lo == nil || hasUnboundedQuant(x.Body)
	case EUnary:
		return hasUnboundedQuant(x.X)
	case EBinary:
		return hasUnboundedQuant(x.X) || hasUnboundedQuant(x.Y)
	case ECall:
		for _, a := range x.Args {
			if hasUnboundedQuant(a) {
				return true
			}
		}
	case ESel:
		return hasUnboundedQuant(x.X)
	case EIndex:
		return hasUnboundedQuant(x.X) || hasUnboundedQuant(x.I)
	case ETypeAssert:
		return hasUnboundedQuant(x.X)
	}
	return false
}

func (g *FnGen) quantTypeInvs(v Val) []Clause {
	var out []Clause
	for _, c := range g.S.TypeInvs[typeInvName(v.Go)] {
		if hasUnboundedQuant(c.E) {
			out = append(out, c)
		}
	}
	return out
}

// assumeTypeInvAt assumes the whole invariant of v in state st; quantified clauses are remembered
// as instantiable facts.
func (g *FnGen) assumeTypeInvAt(guard string, v Val, st State, origin string) {
	if t := g.typeInvTerm(v, st); t != "" {
		g.assume(guard, t, origin)
	}
	for _, c := range g.quantTypeInvs(v) {
		ctx := &EvalCtx{g: g, env: map[string]Val{"self": v}, st: st, oldSt: st}
		g.assumeClause(guard, c.E, ctx, origin)
	}
}

// obligeTypeInv emits the invariant of v in state st as obligations: one for the quantifier-free
// part (under the given label) and one per quantified clause (label:clause-name), skolemised.
func (g *FnGen) obligeTypeInv(kind, label, guard string, v Val, st State, desc string, pos token.Pos) {
	if t := g.typeInvTerm(v, st); t != "" {
		g.oblige(kind, label, guard, t, desc, pos)
	}
	for _, c := range g.quantTypeInvs(v) {
		ctx := &EvalCtx{g: g, env: map[string]Val{"self": v}, st: st, oldSt: st}
		g.obligeClause(kind, label+":"+c.Name, guard, c, ctx, pos)
	}
}

func (g *FnGen) assumeTypeInv(v Val, guard string) {
	if v.S != sortRef {
		return
	}
	tn := typeInvName(v.Go)
	if len(g.S.TypeInvs[tn]) == 0 {
		return
	}
	r := g.root()
	conds := []string{not("(= " + v.T + " nil)")}
	for _, a := range r.ownAllocs[tn] {
		conds = append(conds, not("(= "+v.T+" "+a.term+")"))
	}
	// an object whose invariant fields this function has written may be between two consistent
	// states: its invariant is an obligation at the next return / call, never an assumption
	for _, d := range r.dirty[tn] {
		conds = append(conds, not("(= "+v.T+" "+d.v.T+")"))
	}
	g.assumeTypeInvAt(and(guard, and(conds...)), v, g.st, "typeinv:"+tn)
}

// ---------------------------------------------------------------------------------------
// Places: loading and storing through symbolic addresses

func (g *FnGen) loadPlace(st State, p *Place) string {
	var t string
	arr := g.D.get(st, p.Key)
	switch {
	case p.Base == "":
		t = arr
	case p.Idx != "":
		t = sel(g.hsel(arr, p.Base), p.Idx)
	default:
		t = g.hsel(arr, p.Base)
	}
	for _, s := range p.Path {
		info := g.D.structInfo[s.structSort]
		t = "(" + info.fields[s.field] + " " + t + ")"
	}
	return t
}

func (g *FnGen) rebuild(cur string, path []pathStep, v string) string {
	if len(path) == 0 {
		return v
	}
	s := path[0]
	info := g.D.structInfo[s.structSort]
	var parts []string
	for i, f := range info.fields {
		fv := "(" + f + " " + cur + ")"
		if i == s.field {
			fv = g.rebuild(fv, path[1:], v)
		}
		parts = append(parts, fv)
	}
	return "(mk_" + s.structSort + " " + strings.Join(parts, " ") + ")"
}

func (g *FnGen) storePlace(st State, p *Place, v string) {
	arr := g.D.get(st, p.Key)
	sort := g.D.heapSorts[p.Key]
	var nt string
	switch {
	case p.Base == "":
		nt = g.rebuild(arr, p.Path, v)
	case p.Idx != "":
		inner := sel(arr, p.Base)
		nv := g.rebuild(sel(inner, p.Idx), p.Path, v)
		nt = store(arr, p.Base, store(inner, p.Idx, nv))
	default:
		nv := g.rebuild(sel(arr, p.Base), p.Path, v)
		nt = store(arr, p.Base, nv)
	}
	st[p.Key] = g.def("h", sort, nt)
}

// placeOf derives the place a pointer value designates.
func (g *FnGen) placeOf(v Val) *Place {
	if v.Place != nil {
		return v.Place
	}
	pt, ok := v.Go.Underlying().(*types.Pointer)
	if !ok {
		return nil
	}
	if _, ok := pt.Elem().Underlying().(*types.Struct); ok {
		return nil // struct pointers are accessed field by field
	}
	if arr, ok := pt.Elem().Underlying().(*types.Array); ok {
		_ = arr
		return nil
	}
	return &Place{Key: g.D.cellKeyT(pt.Elem()), Base: v.T, Elem: pt.Elem()}
}

// loadStruct builds a struct value from the per-field heap arrays.
func (g *FnGen) loadStruct(st State, ref string, t types.Type) string {
	s := t.Underlying().(*types.Struct)
	sortName := g.D.sortOf(t)
	if s.NumFields() == 0 {
		return g.D.zeroOf(t)
	}
	var parts []string
	for i := 0; i < s.NumFields(); i++ {
		k, _ := g.D.fieldKey(t, i)
		parts = append(parts, g.hsel(g.D.get(st, k), ref))
	}
	return "(mk_" + sortName + " " + strings.Join(parts, " ") + ")"
}

func (g *FnGen) storeStruct(st State, ref string, t types.Type, v string) {
	s := t.Underlying().(*types.Struct)
	info := g.D.structInfo[g.D.sortOf(t)]
	for i := 0; i < s.NumFields(); i++ {
		k, _ := g.D.fieldKey(t, i)
		arr := g.D.get(st, k)
		st[k] = g.def("h", g.D.heapSorts[k], store(arr, ref, "("+info.fields[i]+" "+v+")"))
	}
}

func (g *FnGen) load(st State, addr Val) Val {
	if addr.PlaceLost {
		panic(unsupported{"dereference of a pointer whose target (slice element / field) differs between control-flow paths"})
	}
	pt := addr.Go.Underlying().(*types.Pointer)
	et := pt.Elem()
	if p := g.placeOf(addr); p != nil {
		return g.mkVal(g.loadPlace(st, p), et)
	}
	if _, ok := et.Underlying().(*types.Struct); ok {
		return g.mkVal(g.loadStruct(st, addr.T, et), et)
	}
	if arr, ok := et.Underlying().(*types.Array); ok {
		k := g.D.memKeyT(arr.Elem())
		return g.mkVal(sel(g.D.get(st, k), addr.T), et)
	}
	panic("load: no place for " + addr.T)
}

func (g *FnGen) storeTo(st State, addr Val, v Val) {
	if addr.PlaceLost {
		panic(unsupported{"store through a pointer whose target (slice element / field) differs between control-flow paths"})
	}
	pt := addr.Go.Underlying().(*types.Pointer)
	et := pt.Elem()
	if p := g.placeOf(addr); p != nil {
		g.storePlace(st, p, v.T)
		return
	}
	if _, ok := et.Underlying().(*types.Struct); ok {
		g.storeStruct(st, addr.T, et, v.T)
		return
	}
	if arr, ok := et.Underlying().(*types.Array); ok {
		k := g.D.memKeyT(arr.Elem())
		a := g.D.get(st, k)
		st[k] = g.def("h", g.D.heapSorts[k], store(a, addr.T, v.T))
		return
	}
	panic("store: no place")
}

// ---------------------------------------------------------------------------------------
// Constants

func (g *FnGen) constVal(c *ssa.Const) Val {
	t := c.Type()
	s := g.D.sortOf(t)
	if c.Value == nil {
		return Val{T: g.D.zeroOf(t), S: s, Go: t, Signed: isSigned(t)}
	}
	switch {
	case s == sortBool:
		if constant.BoolVal(c.Value) {
			return Val{T: "true", S: s, Go: t}
		}
		return Val{T: "false", S: s, Go: t}
	case s == sortStr:
		return Val{T: g.D.strLit(constant.StringVal(c.Value)), S: s, Go: t}
	case isBV(s):
		iv := constant.ToInt(c.Value)
		bi, ok := new(big.Int).SetString(iv.ExactString(), 10)
		if !ok {
			bi = big.NewInt(0)
		}
		return Val{T: bvLit(bi, bvWidth(s)), S: s, Go: t, Signed: isSigned(t)}
	case s == sortFloat:
		return Val{T: g.freshConst("fconst", sortFloat), S: s, Go: t}
	}
	return Val{T: g.D.zeroOf(t), S: s, Go: t}
}

func (g *FnGen) val(v ssa.Value) Val {
	if x, ok := g.vals[v]; ok {
		return x
	}
	switch c := v.(type) {
	case *ssa.Const:
		return g.constVal(c)
	case *ssa.Global:
		et := c.Type().(*types.Pointer).Elem()
		name := shortName(c.String())
		key := g.D.globalKey(name, g.D.sortOf(et))
		g.D.declare("globaddr:"+name, fmt.Sprintf("(declare-const globaddr_%s Ref)", sanitize(name)))
		x := Val{T: "globaddr_" + sanitize(name), S: sortRef, Go: c.Type(), Place: &Place{Key: key, Elem: et}}
		return x
	case *ssa.Function:
		name := shortName(c.String())
		g.D.declare("fnaddr:"+name, fmt.Sprintf("(declare-const fn_%s Ref)", sanitize(name)))
		g.D.declare("fnaddrnn:"+name, fmt.Sprintf("(assert (not (= fn_%s nil)))", sanitize(name)))
		return Val{T: "fn_" + sanitize(name), S: sortRef, Go: c.Type()}
	case *ssa.Builtin:
		return Val{T: "nil", S: sortRef, Go: c.Type()}
	}
	panic(fmt.Sprintf("value %s (%T) used before definition in %s", v.Name(), v, g.name))
}

// ---------------------------------------------------------------------------------------
// CFG analysis

func (g *FnGen) analyzeLoops() {
	fn := g.fn
	var headers []*ssa.BasicBlock
	for _, b := range fn.Blocks {
		for _, s := range b.Succs {
			if s.Dominates(b) {
				li := g.loops[s]
				if li == nil {
					li = &loopInfo{header: s, blocks: map[*ssa.BasicBlock]bool{s: true}, mods: map[string]bool{}}
					g.loops[s] = li
					headers = append(headers, s)
				}
				li.backs = append(li.backs, b)
				// natural loop: nodes that reach b without passing through s
				stack := []*ssa.BasicBlock{b}
				for len(stack) > 0 {
					x := stack[len(stack)-1]
					stack = stack[:len(stack)-1]
					if li.blocks[x] {
						continue
					}
					li.blocks[x] = true
					stack = append(stack, x.Preds...)
				}
			}
		}
	}
	sort.Slice(headers, func(i, j int) bool { return headers[i].Index < headers[j].Index })
	for i, h := range headers {
		li := g.loops[h]
		li.ordinal = i
		for b := range li.blocks {
			for _, ins := range b.Instrs {
				switch x := ins.(type) {
				case *ssa.Store:
					for _, k := range storeKeys(g.D, x.Addr) {
						li.mods[k] = true
					}
				case *ssa.MapUpdate:
					mt := x.Map.Type().Underlying().(*types.Map)
					h, v, l := g.D.mapKeysT(mt.Key(), mt.Elem())
					li.mods[h], li.mods[v], li.mods[l] = true, true, true
				case *ssa.Alloc, *ssa.MakeSlice, *ssa.MakeMap, *ssa.MakeClosure:
					li.mods[liveKey] = true
				case ssa.CallInstruction:
					if g.C != nil && g.parent == nil {
						cn := calleeName(x.Common())
						if cn == "" {
							cn = "dynamic"
						}
						for _, c := range g.C.MustCall {
							if c == cn {
								li.mods[mustCallKey(c)] = true
							}
						}
					}
					for k := range g.E.callMods(x, true) {
						li.mods[k] = true
					}
					for k := range g.E.localClosureFVKeys(x) {
						li.mods[k] = true
					}
				}
			}
		}
	}
}

func (g *FnGen) rpo() []*ssa.BasicBlock {
	seen := map[*ssa.BasicBlock]bool{}
	var post []*ssa.BasicBlock
	var visit func(b *ssa.BasicBlock)
	visit = func(b *ssa.BasicBlock) {
		seen[b] = true
		for _, s := range b.Succs {
			if s.Dominates(b) { // back edge
				continue
			}
			if !seen[s] {
				visit(s)
			}
		}
		post = append(post, b)
	}
	visit(g.fn.Blocks[0])
	for i, j := 0, len(post)-1; i < j; i, j = i+1, j-1 {
		post[i], post[j] = post[j], post[i]
	}
	return post
}

func (g *FnGen) edge(p, b *ssa.BasicBlock) string {
	if c, ok := g.edgeCond[[2]*ssa.BasicBlock{p, b}]; ok {
		return c
	}
	return "true"
}

// nameSites assigns stable, line-free labels to the instructions that can carry obligations.
func (g *FnGen) nameSites() {
	counts := map[string]int{}
	nm := func(ins ssa.Instruction, label string) {
		counts[label]++
		g.siteNames[ins] = fmt.Sprintf("%s#%d", label, counts[label])
	}
	// ordinals follow source order (position), not SSA block order
	// (an instruction without a position takes the position of the nearest preceding instruction
	// of its block that has one, so that the comparison is a proper order)
	var all []ssa.Instruction
	eff := map[ssa.Instruction]token.Pos{}
	for _, b := range g.fn.Blocks {
		last := token.NoPos
		for _, ins := range b.Instrs {
			if p := ins.Pos(); p.IsValid() {
				last = p
			}
			eff[ins] = last
			all = append(all, ins)
		}
	}
	sort.SliceStable(all, func(i, j int) bool { return eff[all[i]] < eff[all[j]] })
	for _, blk := range [][]ssa.Instruction{all} {
		for _, ins := range blk {
			switch x := ins.(type) {
			case *ssa.IndexAddr, *ssa.Index:
				nm(ins, "index")
			case *ssa.Lookup:
				if _, ok := x.X.Type().Underlying().(*types.Map); !ok {
					nm(ins, "index")
				}
			case *ssa.Slice:
				nm(ins, "slice")
			case *ssa.BinOp:
				if x.Op == token.QUO || x.Op == token.REM {
					nm(ins, "div")
				} else if x.Op == token.SHL || x.Op == token.SHR {
					nm(ins, "shift")
				}
			case *ssa.TypeAssert:
				nm(ins, "typeassert:"+typeName(x.AssertedType))
			case *ssa.Panic:
				nm(ins, "panic")
			case *ssa.MakeSlice:
				nm(ins, "make")
			case *ssa.MapUpdate:
				nm(ins, "mapupdate")
			case *ssa.FieldAddr:
				nm(ins, "deref")
			case *ssa.UnOp:
				if x.Op == token.MUL {
					nm(ins, "deref")
				}
			case *ssa.Store:
				nm(ins, "store")
			case ssa.CallInstruction:
				n := calleeName(x.Common())
				if n == "" {
					n = "dynamic"
				}
				nm(ins, "call:"+n)
				g.callOrd[ins] = counts["call:"+n]
			}
		}
	}
	// an at-call assertion that names no call site of this function can never be checked: that is
	// contract drift (the function is undecided), not a silently dropped clause.
	if g.parent == nil && g.C != nil {
		// "calls X" on a function that has no call site of X at all is drift too (the entry is
		// assembled some other way now: undecided), whereas a path that skips an existing call site
		// is a violation
		for _, c := range g.C.MustCall {
			if counts["call:"+c] == 0 {
				efail("calls %s: %s has no such call site (contract drift)", c, g.name)
			}
		}
		for _, cs := range g.C.Calls {
			n := counts["call:"+cs.Callee]
			if cs.Callee == "mapupdate" {
				n = counts["mapupdate"]
			}
			if n == 0 || cs.K > n {
				efail("at-call assertion names %s#%d, but %s has %d such call sites (contract drift)", cs.Callee, cs.K, g.name, n)
			}
		}
	}
}

func (g *FnGen) cover(name, guard string) {
	r := g.root()
	c := &Cover{Name: name, item: len(r.items)}
	r.items = append(r.items, Item{Kind: itCover, Guard: guard, Origin: name})
	r.covers = append(r.covers, c)
}

type localDef struct {
	block *ssa.BasicBlock
	idx   int
	val   Val
}

func domDepth(b *ssa.BasicBlock) int {
	d := 0
	for x := b.Idom(); x != nil; x = x.Idom() {
		d++
	}
	return d
}

// localAt returns the value a source-level local has at the current program point: the nearest
// DebugRef that dominates it.
func (g *FnGen) localAt(name string) (Val, bool) {
	var best *localDef
	bestDepth := -1
	for i := range g.localDefs[name] {
		d := &g.localDefs[name][i]
		if d.block == g.curBlock {
			if d.idx >= g.curIdx {
				continue
			}
		} else if g.curBlock == nil || !d.block.Dominates(g.curBlock) {
			continue
		}
		dd := domDepth(d.block)
		if dd > bestDepth || (dd == bestDepth && best != nil && d.idx > best.idx) {
			best, bestDepth = d, dd
		}
	}
	if best == nil {
		return Val{}, false
	}
	return best.val, true
}

// localsNow is the environment of source-level locals at the current program point.
func (g *FnGen) localsNow() map[string]Val {
	out := map[string]Val{}
	for name := range g.localDefs {
		if v, ok := g.localAt(name); ok {
			out[name] = v
		}
	}
	return out
}
