#!/bin/sh
# usage: selftest/mk.sh <name> <property> <expect-substring> <file-in-repo> <sed-expression> [harmless]
# creates selftest/mutants/<name>.patch (or selftest/harmless/) from a sed edit of /repo's file
name=$1; prop=$2; expect=$3; file=$4; expr=$5; kind=${6:-mutants}
d=$(mktemp -d /tmp/mk.XXXXXX); mkdir -p "$d/a/$(dirname $file)" "$d/b/$(dirname $file)"
cp /repo/$file "$d/a/$file"; sed "$expr" /repo/$file > "$d/b/$file"
if cmp -s "$d/a/$file" "$d/b/$file"; then echo "mk: sed expression changed nothing"; rm -rf "$d"; exit 1; fi
mkdir -p "$(dirname "$0")/$kind"
( echo "# property: $prop"; echo "# expect: $expect"; echo "# edit: $expr"; cd "$d" && diff -u "a/$file" "b/$file" ) > "$(dirname "$0")/$kind/$name.patch"
rm -rf "$d"; echo "wrote $kind/$name.patch"
