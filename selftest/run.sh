#!/bin/sh
# Must-fail corpus: every patch under selftest/mutants/ is applied to a scratch copy of /repo
# (outside /repo and /verif, removed afterwards); the named property check must then exit 1 and
# name the expected obligation. Patch header lines:  "# property: C04"  "# expect: <substring>"
# usage: selftest/run.sh [patch ...]     (default: all)
export GOFLAGS=-mod=mod GOPROXY=off GOSUMDB=off GOTOOLCHAIN=local
cd "$(dirname "$0")/.." || exit 2
[ $# -eq 0 ] && set -- selftest/mutants/*.patch selftest/harmless/*.patch
fail=0
for p in "$@"; do
  [ -f "$p" ] || continue
  prop=$(sed -n 's/^# property: *//p' "$p" | head -1)
  expect=$(sed -n 's/^# expect: *//p' "$p" | head -1)
  scratch=$(mktemp -d /tmp/selftest.XXXXXX)
  cp -r /repo "$scratch/repo"
  if ! (cd "$scratch/repo" && git apply --whitespace=nowarn "$OLDPWD/$p" 2>"$scratch/apply.err"); then
    echo "SELFTEST-ERROR $p does not apply: $(cat "$scratch/apply.err" | head -2)"; fail=1; rm -rf "$scratch"; continue
  fi
  if ! (cd "$scratch/repo" && go build ./... >/dev/null 2>"$scratch/build.err"); then
    echo "SELFTEST-ERROR $p does not compile: $(head -3 "$scratch/build.err")"; fail=1; rm -rf "$scratch"; continue
  fi
  out=$(VERIF_EVIDENCE_DIR="$scratch/evidence" bin/govc prop -repo "$scratch/repo" -timeout 10000 -j 16 "$prop" 2>&1)
  code=$?
  case "$p" in
    *harmless*)
      if [ $code -eq 0 ]; then echo "ok   (no alarm)  $p"; else echo "SELFTEST-FAIL harmless edit raised an alarm: $p"; echo "$out" | grep -m3 "VIOLATION\|obligation\|INFRA"; fail=1; fi;;
    *)
      if [ $code -eq 1 ] && echo "$out" | grep -q -- "$expect"; then echo "ok   (caught)    $p  [$prop: $expect]";
      else echo "SELFTEST-FAIL mutant not caught as expected: $p (exit $code)"; echo "$out" | tail -4; fail=1; fi;;
  esac
  rm -rf "$scratch"
done
exit $fail
