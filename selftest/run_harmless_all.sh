#!/bin/sh
# Applies every harmless patch to a scratch copy of /repo and runs ALL claimed property checks
# against it: none may raise an alarm (exit 1). Slow (about 3 minutes per patch).
# usage: selftest/run_harmless_all.sh [patch ...]   (default: all harmless patches)
export GOFLAGS=-mod=mod GOPROXY=off GOSUMDB=off GOTOOLCHAIN=local
cd "$(dirname "$0")/.." || exit 2
props=$(python3 -c "import json;print(' '.join(x['id'] for x in json.load(open('props.json'))))")
fail=0
[ $# -eq 0 ] && set -- selftest/harmless/*.patch
for p in "$@"; do
  scratch=$(mktemp -d /tmp/selftestall.XXXXXX)
  cp -r /repo "$scratch/repo"
  if ! (cd "$scratch/repo" && git apply --whitespace=nowarn "$OLDPWD/$p" 2>/dev/null); then echo "SELFTEST-ERROR $p does not apply"; fail=1; rm -rf "$scratch"; continue; fi
  bad=""
  for id in $props; do
    out=$(VERIF_EVIDENCE_DIR="$scratch/evidence" bin/govc prop -repo "$scratch/repo" -timeout 10000 -j 16 "$id" 2>&1); code=$?
    if [ $code -eq 1 ]; then
      # the known C03 finding prints KNOWN-FINDING and exits 0; exit 1 is an alarm
      bad="$bad $id($(echo "$out" | grep -m1 '  obligation\|bounded stand-in case' | cut -c1-160))"
    elif [ $code -ne 0 ]; then bad="$bad $id(exit $code)"; fi
  done
  if [ -z "$bad" ]; then echo "ok   (no alarm in any property)  $p"; else echo "SELFTEST-FAIL harmless edit raised an alarm: $p:$bad"; fail=1; fi
  rm -rf "$scratch"
done
exit $fail
