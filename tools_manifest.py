#!/usr/bin/env python3
"""Generates MANIFEST.json from props.json + manifest_meta.json and validates it."""
import json, sys, subprocess
props = json.load(open('props.json'))
meta = json.load(open('manifest_meta.json'))
allids = [json.loads(l)['id'] for l in open('properties.jsonl')]
claimed = [p['id'] for p in props]
checks = []
for p in props:
    m = meta['checks'][p['id']]
    checks.append({
        "property_id": p['id'],
        "quick_cmd": f"./check {p['id']} --tier quick",
        "thorough_cmd": f"./check {p['id']} --tier thorough",
        "evidence_file": f"/verif/evidence/{p['id']}.json",
        "replay_cmd_template": "cat {path}",
        "engine": "govc",
        "level_claimed": {"category": m.get('category', 'proof'), "text": m['text'], "design_ref": m.get('design_ref', 'DESIGN.md section 7')},
        "level_note": m['note'],
        "technique": m.get('technique', 'contract-based deductive verification: weakest-precondition VCs over go/ssa of the real code, discharged by z3/cvc5'),
    })
na = [{"property_id": i, "reason": meta['not_applicable'].get(i, 'check not built yet at this commit')} for i in allids if i not in claimed]
def hook_commits():
    # every /repo commit whose subject starts with "verif hook" (oldest first); falls back to the
    # recorded list when git is not available
    import subprocess
    try:
        out = subprocess.run(['git', '-C', '/repo', 'log', '--reverse', '--format=%h %s'], capture_output=True, text=True, check=True).stdout
        cs = [l.split()[0] for l in out.splitlines() if l.split(' ', 1)[1].startswith('verif hook')]
        return cs or meta['hook_commits']
    except Exception:
        return meta['hook_commits']


man = {
    "version": 1,
    "setup_cmd": "cd /verif && export GOFLAGS=-mod=mod GOPROXY=off GOSUMDB=off GOTOOLCHAIN=local && mkdir -p bin && (cd govc && go build -o ../bin/govc .) && (cd replay && cp /repo/go.sum . 2>/dev/null; go vet ./... >/dev/null 2>&1; true)",
    "hooks": {
        "guard": "verif",
        "enable": "go build -tags verif ./... (the tag only adds comment-only contracts_verif.go files; govc loads /repo with -tags=verif)",
        "baseline_off_cmd": "cd /repo && GOFLAGS=-mod=mod GOPROXY=off GOSUMDB=off go test -vet=off -count=1 ./...",
        "source_commits": hook_commits(),
        "add_only": True,
    },
    "engines": [{"name": "govc", "path": "/verif/govc", "serves_properties": claimed,
                 "kind_free_text": "verification-condition generator over go/ssa of /repo (contracts as structured comments behind build tag verif), obligations discharged by z3 4.8.12 / z3 5.1.0 / cvc5 1.0; bounded Go harnesses under /verif/replay as labelled stand-ins and replay search"}],
    "checks": checks,
    "notes": meta.get('notes', ''),
    "not_applicable": na,
}
json.dump(man, open('MANIFEST.json', 'w'), indent=1)
try:
    import jsonschema
    jsonschema.validate(man, json.load(open('/root/.vp/MANIFEST.schema.json')))
    print("MANIFEST.json valid;", len(checks), "checks,", len(na), "not applicable")
except ImportError:
    print("jsonschema not available; not validated")
